"""Obligation specifications used by props/C??.py."""
import hashlib
import importlib
import inspect


class Obl:
    kind = None

    def __init__(self, name, module, func, timeout=30, functions=(), bounds="", stubs=(), engine=None,
                 note="", finding=None, env=None):
        self.name = name
        self.module = module
        self.func = func
        self.timeout = timeout
        self.functions = list(functions)     # dotted names of the repository functions executed/encoded
        self.bounds = bounds
        self.stubs = list(stubs)
        self.engine = engine
        self.note = note
        self.finding = finding               # id of a known finding whose class is excluded inside this harness
        self.env = dict(env or {})


class CH(Obl):
    """CrossHair harness: module.func carries a PEP-316 contract."""
    kind = "crosshair"

    def __init__(self, name, module, func, timeout=30, plugin="num", mode="E1c", per_path=None, twin_timeout=20, **kw):
        super().__init__(name, module, func, timeout, **kw)
        self.plugin = plugin
        self.mode = mode                     # E1c symbolic values / E1s selector-enumerated / E1h bug hunting only
        self.per_path = per_path
        self.twin_timeout = twin_timeout
        self.engine = "crosshair(%s)" % mode


class JOB(Obl):
    """Own-solver job (pysym / re2z3 / direct SMT): module.func(tier, seed) -> result dict."""
    kind = "job"

    def __init__(self, name, module, func, timeout=120, engine="pysym", **kw):
        super().__init__(name, module, func, timeout, engine=engine, **kw)


def resolve(dotted):
    """'stix2.utils.format_datetime' or 'stix2.base._STIXBase.__init__' -> object"""
    parts = dotted.split(".")
    for i in range(len(parts), 0, -1):
        try:
            obj = importlib.import_module(".".join(parts[:i]))
        except ImportError:
            continue
        for p in parts[i:]:
            obj = getattr(obj, p)
        return obj
    raise ImportError(dotted)


def source_sha(dotted):
    try:
        obj = resolve(dotted)
        obj = getattr(obj, "__func__", obj)
        src = inspect.getsource(obj)
        f = inspect.getsourcefile(obj) or ""
        return {"name": dotted, "sha256": hashlib.sha256(src.encode()).hexdigest()[:16], "file": f}
    except Exception as e:  # noqa: BLE001
        return {"name": dotted, "sha256": None, "error": "%s: %s" % (type(e).__name__, e)}
