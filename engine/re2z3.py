"""E3 -- re2z3: Python regular expressions -> z3 regular expressions, with the semantics of the call that uses them.

match_lang(pattern, flags)      language of strings s for which re.match(pattern, s) succeeds (prefix match, '$' also matches before
                                a trailing newline, '^' only at the start, top-level alternation precedence, re.I)
fullmatch_lang(pattern, flags)  language for re.fullmatch
Unsupported constructs (back-references, look-around, anchors under repetition, \\b ...) raise NotImplementedError -> INCONCLUSIVE.
decide(impl, spec, extra)       the two inclusion queries impl subseteq spec and spec subseteq impl; each returns unsat / witness string.
"""
import re
import re._constants as C
import re._parser as sre_parse
import time

import z3

S = z3.StringSort()
RS = z3.ReSort(S)
ANY = z3.AllChar(RS)
EPS = z3.Re("")
STATS = {"queries": 0, "solver_s": 0.0}

CATEGORIES = {
    C.CATEGORY_DIGIT: lambda: z3.Range("0", "9"),    # NOTE: str patterns without re.ASCII: \d also matches other Unicode decimal digits
    C.CATEGORY_WORD: lambda: z3.Union(z3.Range("a", "z"), z3.Range("A", "Z"), z3.Range("0", "9"), z3.Re("_")),
    C.CATEGORY_SPACE: lambda: z3.Union(*[z3.Re(c) for c in " \t\n\r\f\v"]),
}
# Unicode decimal digits outside ASCII that Python's \d accepts in str patterns (a few representative blocks; modelled so that
# a pattern using \d is NOT considered equivalent to [0-9])
UNICODE_DIGIT_BLOCKS = [(0x0660, 0x0669), (0x06F0, 0x06F9), (0x0966, 0x096F), (0xFF10, 0xFF19)]


def lit(c, icase):
    ch = chr(c)
    if icase and ch.lower() != ch.upper():
        return z3.Union(z3.Re(ch.lower()), z3.Re(ch.upper()))
    return z3.Re(ch)


def rng(a, b, icase):
    r = z3.Range(chr(a), chr(b))
    if icase:
        for lo, hi, d in ((97, 122, -32), (65, 90, 32)):
            x, y = max(a, lo), min(b, hi)
            if x <= y:
                r = z3.Union(r, z3.Range(chr(x + d), chr(y + d)))
    return r


def category(av, ascii_only):
    if av is C.CATEGORY_DIGIT:
        r = z3.Range("0", "9")
        if not ascii_only:
            r = z3.Union(r, *[z3.Range(chr(a), chr(b)) for a, b in UNICODE_DIGIT_BLOCKS])
        return r
    if av in CATEGORIES and ascii_only:
        return CATEGORIES[av]()
    raise NotImplementedError("category %s" % (av,))


def conv_in(items, ic, ascii_only):
    neg = False
    alts = []
    for op, av in items:
        if op is C.NEGATE:
            neg = True
        elif op is C.LITERAL:
            alts.append(lit(av, ic))
        elif op is C.RANGE:
            alts.append(rng(av[0], av[1], ic))
        elif op is C.CATEGORY:
            alts.append(category(av, ascii_only))
        else:
            raise NotImplementedError((op, av))
    r = alts[0] if len(alts) == 1 else z3.Union(*alts)
    return z3.Intersect(ANY, z3.Complement(r)) if neg else r


class T:
    def __init__(self, ic, ascii_only, dotall):
        self.ic, self.ascii_only, self.dotall = ic, ascii_only, dotall

    def plain(self, items):
        r = EPS
        for op, av in items:
            r = z3.Concat(r, self.plain_item(op, av))
        return r

    def plain_item(self, op, av):
        if op is C.LITERAL:
            return lit(av, self.ic)
        if op is C.NOT_LITERAL:
            return z3.Intersect(ANY, z3.Complement(lit(av, self.ic)))
        if op is C.IN:
            return conv_in(av, self.ic, self.ascii_only)
        if op is C.ANY:
            return ANY if self.dotall else z3.Intersect(ANY, z3.Complement(z3.Re("\n")))
        if op in (C.MAX_REPEAT, C.MIN_REPEAT):
            lo, hi, sub = av
            s = self.plain(sub)
            if hi is C.MAXREPEAT:
                return z3.Star(s) if lo == 0 else z3.Plus(s) if lo == 1 else z3.Concat(z3.Loop(s, lo, lo), z3.Star(s))
            if hi == 0:
                return EPS
            return z3.Loop(s, lo, hi)
        if op is C.SUBPATTERN:
            return self.plain(av[3])
        if op is C.BRANCH:
            return z3.Union(*[self.plain(b) for b in av[1]])
        raise NotImplementedError((op, av))

    def lang(self, items, K, at_start):
        """strings w = u v with u matched by items (anchors respected) and v in K"""
        items = list(items)
        if not items:
            return K
        (op, av), rest = items[0], items[1:]
        if op is C.AT:
            if av in (C.AT_BEGINNING, C.AT_BEGINNING_STRING):
                if not at_start:
                    raise NotImplementedError("^ not at start")
                return self.lang(rest, K, True)
            if av is C.AT_END:
                return z3.Intersect(self.lang(rest, K, False), z3.Union(EPS, z3.Re("\n")))
            if av is C.AT_END_STRING:
                return z3.Intersect(self.lang(rest, K, False), EPS)
            raise NotImplementedError(av)
        if op is C.BRANCH:
            return z3.Union(*[self.lang(list(b) + rest, K, at_start) for b in av[1]])
        if op is C.SUBPATTERN and any(o is C.AT or o is C.BRANCH for o, _ in av[3]):
            return self.lang(list(av[3]) + rest, K, at_start)
        return z3.Concat(self.plain_item(op, av), self.lang(rest, K, False))


def _lang(pat, flags, K):
    if isinstance(pat, re.Pattern):
        flags |= pat.flags
        pat = pat.pattern
    p = sre_parse.parse(pat, flags)
    fl = flags | p.state.flags
    if fl & re.M:
        raise NotImplementedError("re.M")
    t = T(bool(fl & re.I), bool(fl & re.A), bool(fl & re.S))
    return t.lang(list(p), K, True)


def match_lang(pat, flags=0):
    return _lang(pat, flags, z3.Star(ANY))


def fullmatch_lang(pat, flags=0):
    return _lang(pat, flags, EPS)


def search_lang(pat, flags=0):
    """re.search: match_lang preceded by anything (only for patterns without '^')"""
    return z3.Concat(z3.Star(ANY), _lang(pat, flags, z3.Star(ANY)))


def witness(cond_fn, timeout_ms=60000):
    """sat -> a string s with cond_fn(s); returns (verdict, string|None)"""
    s = z3.String("s")
    sol = z3.Solver()
    sol.set("timeout", timeout_ms)
    sol.add(*cond_fn(s))
    t = time.time()
    STATS["queries"] += 1
    r = str(sol.check())
    STATS["solver_s"] += time.time() - t
    if r == "sat":
        return r, sol.model()[s].as_string() if sol.model()[s] is not None else ""
    return r, None


def decide(impl, spec, extra=lambda s: []):
    """[(direction, verdict, witness)] for impl - spec and spec - impl"""
    out = []
    for d, (a, b) in (("impl_not_spec", (impl, spec)), ("spec_not_impl", (spec, impl))):
        r, w = witness(lambda s: [z3.InRe(s, a), z3.Not(z3.InRe(s, b))] + list(extra(s)))
        out.append((d, r, unescape(w) if w is not None else None))
    return out


def unescape(w):
    """z3 prints non-printable characters as \\u{..}"""
    return re.sub(r"\\u\{([0-9a-fA-F]+)\}", lambda m: chr(int(m.group(1), 16)), w)


def member(w, lang):
    sol = z3.Solver()
    sol.add(z3.InRe(z3.StringVal(w), lang))
    return str(sol.check()) == "sat"


def contract_test(pat, flags, samples, mode="match"):
    """translator validation: the z3 language agrees with the real re on the sample strings"""
    L = {"match": match_lang, "fullmatch": fullmatch_lang}[mode](pat, flags)
    rx = re.compile(pat, flags) if not isinstance(pat, re.Pattern) else pat
    bad = []
    for w in samples:
        real = bool(getattr(rx, mode)(w))
        if member(w, L) != real:
            bad.append(w)
    return bad
