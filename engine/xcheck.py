"""Second-solver cross-check of final pysym / SMT queries (thorough tier): every N-th query is dumped to SMT-LIB2 and re-decided by cvc5
(python wheel 1.4.0) and by the old /usr/bin/z3 4.8.12; a disagreement is a harness error; a cross-checker that cannot read a query ('(error') is counted as skipped."""
import os
import subprocess
import tempfile

STATS = {"cross_checked": 0, "cvc5_agree": 0, "oldz3_agree": 0, "skipped_unknown": 0, "skipped_error": 0}
EVERY = int(os.environ.get("VERIF_XCHECK_EVERY", "0") or 0)
_COUNTER = [0]


class SolverDisagreement(Exception):
    pass


def cvc5_check(text, timeout_ms=20000):
    import cvc5
    slv = cvc5.Solver()
    slv.setOption("tlimit-per", str(timeout_ms))
    sm = cvc5.SymbolManager(slv.getTermManager()) if hasattr(slv, "getTermManager") else cvc5.SymbolManager(slv)
    p = cvc5.InputParser(slv, sm)
    p.setStringInput(cvc5.InputLanguage.SMT_LIB_2_6, "(set-logic ALL)\n" + text, "q")
    res = None
    while True:
        cmd = p.nextCommand()
        if cmd.isNull():
            break
        out = cmd.invoke(slv, sm)
        if out.strip() in ("sat", "unsat", "unknown"):
            res = out.strip()
    return res


def oldz3_check(text, timeout_s=20):
    # z3 4.8 spells the Int<->BitVec conversions differently from the 5.x printer
    text = text.replace("int_to_bv", "int2bv").replace("ubv_to_int", "bv2int")
    with tempfile.NamedTemporaryFile("w", suffix=".smt2", delete=False, dir="/tmp") as f:
        f.write(text)
        path = f.name
    try:
        p = subprocess.run(["/usr/bin/z3", "-T:%d" % timeout_s, path], stdout=subprocess.PIPE, stderr=subprocess.STDOUT, text=True, timeout=timeout_s + 10)
        out = p.stdout
    except (subprocess.TimeoutExpired, FileNotFoundError):
        return "unknown"
    finally:
        os.unlink(path)
    if "(error" in out:
        return "error: " + out.strip()[:200]
    for line in out.splitlines():
        if line.strip() in ("sat", "unsat", "unknown"):
            return line.strip()
    return "unknown"


def check(solver):
    """z3 verdict of solver.check(); when cross-checking is enabled, every EVERY-th query is re-decided by two other solvers"""
    r = str(solver.check())
    if not EVERY or r not in ("sat", "unsat"):
        return r
    _COUNTER[0] += 1
    if _COUNTER[0] % EVERY:
        return r
    text = solver.to_smt2()
    STATS["cross_checked"] += 1
    for name, fn in (("cvc5", cvc5_check), ("oldz3", oldz3_check)):
        try:
            other = fn(text)
        except Exception as e:  # noqa: BLE001
            other = "unknown (%s)" % type(e).__name__
        if other in ("sat", "unsat"):
            if other != r:
                raise SolverDisagreement("z3 5.x says %s, %s says %s on query #%d" % (r, name, other, _COUNTER[0]))
            STATS[name + "_agree"] += 1
        elif str(other).startswith("error"):
            # the second solver could not read / decide this query: IT is inconclusive here (its answer is not used, the first solver's and
            # the other cross-checker's stand); counted, so that the evidence shows how many cross-checks really happened
            STATS["skipped_error"] += 1
            STATS.setdefault("last_error", "%s: %s" % (name, other[:160]))
        else:
            STATS["skipped_unknown"] += 1
    return r
