"""Helpers imported by CrossHair harness modules (props/h_*.py).

V.reached()  -- vacuity marker: no-op in the main run, raises Reached in the reachability twin.
pick(i, n)   -- explicit fork helper: turns a symbolic index into a concrete one by branching
                (CrossHair forks instead of realising; see DESIGN.md section 2, E1 item 3).
K.open(id)   -- True iff known_findings.json lists <id> as an *open* finding and exclusions are active.
PART/NPARTS  -- partition index for thorough-tier input-space partitioning (set by the driver).
"""
import json
import os

HERE = os.path.dirname(os.path.dirname(os.path.abspath(__file__)))


class Reached(Exception):
    pass


class V:
    """V.reached() marks 'the assertion is reached'; V.reached("tag") additionally names a branch that must be reachable on its own
    (the driver runs one extra twin per tag found in the harness source, see ch_driver): guards against a harness whose interesting
    branch is never explored because an engine artefact or an over-eager except clause ends every path early."""
    twin = False
    want = None

    @staticmethod
    def reached(tag=None):
        if V.twin and (V.want is None or V.want == tag):
            raise Reached()


def pick(i, n):
    for k in range(n):
        if i == k:
            return k
    raise AssertionError("pick: index out of range")


def pickb(b):
    """fork on a symbolic bool, return a concrete one"""
    if b:
        return True
    return False


class K:
    _open = None
    disabled = bool(os.environ.get("VERIF_NO_EXCLUDE"))

    @classmethod
    def load(cls):
        if cls._open is None:
            try:
                with open(os.path.join(HERE, "known_findings.json")) as f:
                    data = json.load(f)
            except FileNotFoundError:
                data = {"findings": []}
            cls._open = {e["id"] for e in data.get("findings", []) if e.get("status") == "open"}
        return cls._open

    @classmethod
    def open(cls, fid):
        if cls.disabled:
            return False
        return fid in cls.load()


class Part:
    index = int(os.environ.get("VERIF_PART", "0"))
    count = int(os.environ.get("VERIF_NPARTS", "1"))


TIER = os.environ.get("VERIF_TIER", "quick")
K.load()


class Native:
    """`with Native():` run an all-concrete section at native speed: CrossHair tracing is suspended (NoTracing) AND, on
    Python >= 3.12, the per-instruction sys.monitoring events CrossHair registers are switched off for the duration
    (NoTracing alone leaves a callback on every bytecode instruction: measured 6x slowdown)."""

    def __enter__(self):
        import sys
        self._nt = None
        self._mon = False
        try:
            from crosshair.tracers import NoTracing, is_tracing
            if is_tracing():
                self._nt = NoTracing()
                self._nt.__enter__()
                if sys.version_info >= (3, 12):
                    from crosshair.tracers import SYS_MONITORING_TOOL_ID
                    if sys.monitoring.get_tool(SYS_MONITORING_TOOL_ID) is not None:
                        sys.monitoring.set_events(SYS_MONITORING_TOOL_ID, 0)
                        self._mon = True
        except ImportError:
            pass
        return self

    def __exit__(self, *a):
        import sys
        if self._mon:
            from crosshair.tracers import SYS_MONITORING_TOOL_ID
            sys.monitoring.set_events(SYS_MONITORING_TOOL_ID, sys.monitoring.events.INSTRUCTION)
            sys.monitoring.restart_events()
        if self._nt is not None:
            return self._nt.__exit__(*a)
        return False
