"""Run one own-solver job: python -m engine.job --module props.j_C15 --func fmt --tier quick --seed 0
The job function takes (tier, seed) and returns a result dict (see engine/run.py); printed as @@RESULT@@<json>."""
import argparse
import importlib
import json
import os
import sys
import traceback

HERE = os.path.dirname(os.path.dirname(os.path.abspath(__file__)))
if HERE not in sys.path:
    sys.path.insert(0, HERE)


def main():
    ap = argparse.ArgumentParser()
    ap.add_argument("--module", required=True)
    ap.add_argument("--func", required=True)
    ap.add_argument("--tier", default="quick")
    ap.add_argument("--seed", type=int, default=0)
    a = ap.parse_args()
    import stix2
    assert stix2.__file__.startswith(os.environ.get("VERIF_REPO", "/repo") + "/"), stix2.__file__
    try:
        mod = importlib.import_module(a.module)
        res = getattr(mod, a.func)(a.tier, a.seed)
    except BaseException as e:  # noqa: BLE001
        traceback.print_exc()
        res = {"verdict": "ERROR", "detail": "%s: %s" % (type(e).__name__, str(e)[:500])}
    try:
        from engine import xcheck
        if xcheck.EVERY and isinstance(res, dict):
            res.setdefault("extra", {})["cross_check"] = dict(xcheck.STATS, every=xcheck.EVERY, solvers=["cvc5 1.4.0 (python)", "/usr/bin/z3 4.8.12"])
    except Exception:  # noqa: BLE001
        pass
    print("@@RESULT@@" + json.dumps(res, default=str))


if __name__ == "__main__":
    main()
