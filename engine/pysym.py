"""E2 -- pysym: AST-driven bounded symbolic interpreter over z3.

The interpreter re-reads the source of the *live* function objects (inspect.getsource) on every run and
executes their AST over SInt/SBool (z3 Int/Bool terms) and SStr (concrete-length list of character
terms).  Branches on symbolic conditions fork (DFS by re-execution with decision prefixes); every
feasible path yields (path condition, outcome).  Anything not modelled raises Unsupported -> the
obligation is INCONCLUSIVE, never a violation.  See DESIGN.md section 2 (E2).
"""
import ast, inspect, operator, string, textwrap, time, types, builtins
import z3


class Unsupported(Exception):
    pass


class Engine:
    cur = None

    def __init__(self, max_loop=80):
        self.solver = z3.Solver()
        self.queries = 0
        self.solver_time = 0.0
        self.max_loop = max_loop
        self.decisions = 0
        self.paths = 0

    # ---- path management (DFS by re-execution) ----
    def explore(self, body):
        """body(engine) -> outcome; yields (pc, outcome) for every feasible path"""
        work = [[]]
        while work:
            prefix = work.pop()
            self.prefix = prefix
            self.pos = 0
            self.pc = []
            self.taken = []
            self.pending = []
            Engine.cur = self
            self.solver.push()
            self.paths += 1
            try:
                try:
                    out = ("return", body(self))
                except SymRaise as e:
                    out = ("raise", e.exc)
                except (ValueError, TypeError, KeyError, AttributeError, IndexError) as e:
                    out = ("raise", e)
                yield list(self.pc), out
            finally:
                self.solver.pop()
            work.extend(self.pending)

    def check(self, *extra):
        t = time.time()
        self.queries += 1
        r = self.solver.check(*extra)
        self.solver_time += time.time() - t
        return r

    def assume(self, c):
        self.pc.append(c)
        self.solver.add(c)

    def decide(self, cond):
        if isinstance(cond, bool):
            return cond
        c = cond.e if isinstance(cond, SBool) else cond
        c = z3.simplify(c)
        if z3.is_true(c):
            return True
        if z3.is_false(c):
            return False
        if self.pos < len(self.prefix):
            choice = self.prefix[self.pos]
        else:
            can_t = str(self.check(c)) == "sat"
            can_f = str(self.check(z3.Not(c))) == "sat"
            if can_t and can_f:
                self.pending.append(self.taken + [False])
                choice = True
            elif can_t:
                choice = True
            elif can_f:
                choice = False
            else:
                raise RuntimeError("infeasible path")
        self.pos += 1
        self.decisions += 1
        self.taken.append(choice)
        self.assume(c if choice else z3.Not(c))
        return choice


class SymRaise(Exception):
    def __init__(self, exc):
        self.exc = exc


def lift(v):
    if isinstance(v, SInt):
        return v.e
    if isinstance(v, bool):
        return z3.BoolVal(v)
    if isinstance(v, int):
        return z3.IntVal(v)
    raise Unsupported("lift %r" % (v,))


class _Break(Exception): pass
class _Continue(Exception): pass


class SBool:
    def __init__(self, e): self.e = e
    def __bool__(self): return Engine.cur.decide(self)


def sb(e):
    e = z3.simplify(e)
    if z3.is_true(e): return True
    if z3.is_false(e): return False
    return SBool(e)


class SInt:
    def __init__(self, e): self.e = e
    def __pysym_isinstance__(self, types):
        types = types if isinstance(types, tuple) else (types,)
        return any(isinstance(t, type) and issubclass(int, t) and t is not bool for t in types)
    def _bin(self, o, f, r=False):
        a, b = (lift(o), self.e) if r else (self.e, lift(o))
        return si(f(a, b))
    def __add__(self, o): return self._bin(o, operator.add)
    def __radd__(self, o): return self._bin(o, operator.add, True)
    def __sub__(self, o): return self._bin(o, operator.sub)
    def __rsub__(self, o): return self._bin(o, operator.sub, True)
    def __mul__(self, o): return self._bin(o, operator.mul)
    def __rmul__(self, o): return self._bin(o, operator.mul, True)
    def __neg__(self): return si(-self.e)
    def __floordiv__(self, o):
        if not (isinstance(o, int) and o > 0): raise Unsupported("// by non-positive-constant")
        return si(self.e / o)
    def __mod__(self, o):
        if not (isinstance(o, int) and o > 0): raise Unsupported("% by non-positive-constant")
        return si(self.e % o)
    def __lt__(self, o): return sb(self.e < lift(o))
    def __le__(self, o): return sb(self.e <= lift(o))
    def __gt__(self, o): return sb(self.e > lift(o))
    def __ge__(self, o): return sb(self.e >= lift(o))
    def __eq__(self, o):
        if isinstance(o, (int, SInt)): return sb(self.e == lift(o))
        return False
    def __ne__(self, o):
        r = self.__eq__(o)
        return sb(z3.Not(r.e)) if isinstance(r, SBool) else (not r)
    def __bool__(self): return Engine.cur.decide(self.e != 0)
    __hash__ = None
    def __and__(self, o, width=64):
        if isinstance(o, SInt): raise Unsupported("sym & sym")
        w = max(8, o.bit_length() + 1)
        # side condition: self fits in w bits and is non-negative
        if str(Engine.cur.check(z3.Or(self.e < 0, self.e >= 2 ** w))) != "unsat": raise Unsupported("& operand range")
        return si(z3.BV2Int(z3.Int2BV(self.e, w) & z3.BitVecVal(o, w)))
    __rand__ = __and__
    def __lshift__(self, o): return self * (1 << concretize(o))
    def __rlshift__(self, o): return o << concretize(self)
    def __index__(self): return concretize(self)


def si(e):
    e = z3.simplify(e)
    if z3.is_int_value(e): return e.as_long()
    return SInt(e)


class SStr:
    """concrete-length string of character terms (int code point or z3 Int)"""
    def __init__(self, chars): self.chars = list(chars)
    @staticmethod
    def of(v):
        if isinstance(v, SStr): return v
        if isinstance(v, str): return SStr([ord(c) for c in v])
        raise Unsupported("SStr.of %r" % (v,))
    def concrete(self):
        return all(isinstance(c, int) for c in self.chars)
    def native(self):
        return "".join(chr(c) for c in self.chars)
    def __len__(self): return len(self.chars)
    def __bool__(self): return len(self.chars) > 0
    def __pysym_isinstance__(self, types):
        types = types if isinstance(types, tuple) else (types,)
        return any(isinstance(t, type) and issubclass(str, t) for t in types)
    def __add__(self, o): return mk(self.chars + SStr.of(o).chars)
    def __radd__(self, o): return mk(SStr.of(o).chars + self.chars)
    def __getitem__(self, k):
        if isinstance(k, slice):
            def cv(x):
                if x is None or isinstance(x, int): return x
                return concretize(x)
            return mk(self.chars[slice(cv(k.start), cv(k.stop), cv(k.step))])
        if not isinstance(k, int): k = concretize(k)
        return mk([self.chars[k]])
    def _eq_expr(self, o):
        o = SStr.of(o)
        if len(o) != len(self): return z3.BoolVal(False)
        return z3.And([lift_c(a) == lift_c(b) for a, b in zip(self.chars, o.chars)] + [z3.BoolVal(True)])
    def __eq__(self, o):
        if not isinstance(o, (str, SStr)): return False
        return sb(self._eq_expr(o))
    def __ne__(self, o):
        if not isinstance(o, (str, SStr)): return True
        return sb(z3.Not(self._eq_expr(o)))
    __hash__ = None
    def _lt_expr(self, o, or_equal=False):
        """lexicographic order of two concrete-length strings of (possibly symbolic) code points"""
        o = SStr.of(o)
        n = min(len(self), len(o))
        a, b = [lift_c(c) for c in self.chars], [lift_c(c) for c in o.chars]
        cases = []
        for i in range(n):
            cases.append(z3.And([a[j] == b[j] for j in range(i)] + [a[i] < b[i]]))
        tail_ok = len(self) < len(o) or (or_equal and len(self) == len(o))
        if tail_ok:
            cases.append(z3.And([a[j] == b[j] for j in range(n)] + [z3.BoolVal(True)]))
        return z3.Or(cases + [z3.BoolVal(False)])
    def __lt__(self, o): return sb(self._lt_expr(o))
    def __le__(self, o): return sb(self._lt_expr(o, True))
    def __gt__(self, o): return sb(SStr.of(o)._lt_expr(self))
    def __ge__(self, o): return sb(SStr.of(o)._lt_expr(self, True))
    def find(self, sub, start=0):
        sub = SStr.of(sub)
        n = len(sub)
        for i in range(start, len(self) - n + 1):
            if n == 0 or self[i:i + n] == sub:   # forks
                return i
        return -1
    def rstrip(self, ch):
        assert isinstance(ch, str) and len(ch) == 1
        chars = list(self.chars)
        while chars and Engine.cur.decide(lift_c(chars[-1]) == ord(ch)):
            chars.pop()
        return mk(chars)
    def replace(self, old, new):
        assert isinstance(old, str) and len(old) == 1 and isinstance(new, str)
        out = []
        for c in self.chars:
            if Engine.cur.decide(lift_c(c) == ord(old)): out.extend(ord(x) for x in new)
            else: out.append(c)
        return mk(out)
    def ljust(self, n, ch=" "):
        return mk(self.chars + [ord(ch)] * max(0, n - len(self.chars)))
    def rjust(self, n, ch=" "):
        return mk([ord(ch)] * max(0, n - len(self.chars)) + self.chars)
    def zfill(self, n):
        if self.chars:
            c0 = self.chars[0]
            signed = (c0 in (43, 45)) if isinstance(c0, int) else Engine.cur.decide(z3.Or(lift_c(c0) == 43, lift_c(c0) == 45))
            if signed: return mk(self.chars[:1] + [48] * max(0, n - len(self.chars)) + self.chars[1:])
        return mk([48] * max(0, n - len(self.chars)) + self.chars)
    def startswith(self, p):
        p = SStr.of(p)
        return self[:len(p)] == p if len(p) <= len(self) else False


def mk(chars):
    s = SStr(chars)
    return s.native() if s.concrete() else s


def lift_c(c):
    return z3.IntVal(c) if isinstance(c, int) else c


def concretize(v):
    """fork over the feasible values of a symbolic int (bounded)"""
    if isinstance(v, int): return v
    eng = Engine.cur
    for _ in range(200):
        if str(eng.check()) != "sat": raise RuntimeError("infeasible")
        val = eng.solver.model().eval(v.e, model_completion=True).as_long()
        if eng.decide(v.e == val):
            return val
    raise Unsupported("concretize: too many values")


def is_sym(v):
    if isinstance(v, (SInt, SBool, SStr)): return True
    if isinstance(v, (list, tuple)): return any(is_sym(x) for x in v)
    if isinstance(v, dict): return any(is_sym(x) for x in v.values())
    return getattr(v, "__pysym_model__", False)


def digits_of(v, width):
    """zero padded decimal digits of a symbolic non-negative int, as char terms (side condition checked).
    An SInt may carry its own decimal decomposition (attribute digs: list of char terms, most significant first);
    it is used when present, which keeps every query linear (no div/mod)."""
    eng = Engine.cur
    digs = getattr(v, "digs", None)
    if digs is not None:
        if len(digs) == width:
            return list(digs)
        if len(digs) < width:
            return [48] * (width - len(digs)) + list(digs)
        lead = digs[:len(digs) - width]
        if str(eng.check(z3.Or([lift_c(c) != 48 for c in lead]))) != "unsat":
            raise Unsupported("format width side condition not entailed")
        return list(digs[len(digs) - width:])
    if str(eng.check(z3.Or(v.e < 0, v.e >= 10 ** width))) != "unsat":
        raise Unsupported("format width side condition not entailed")
    return [z3.simplify(48 + (v.e / (10 ** (width - 1 - i))) % 10) for i in range(width)]


def sint_from_digits(chars):
    """SInt whose value is the decimal number spelled by the digit character terms (each must be constrained to 48..57)"""
    e = z3.IntVal(0)
    for c in chars:
        e = e * 10 + (lift_c(c) - 48)
    e = z3.simplify(e)
    if z3.is_int_value(e):
        return e.as_long()
    v = SInt(e)
    v.digs = list(chars)
    return v


def sym_format(template, args, kwargs):
    out = []
    auto = 0
    for lit, field, spec, conv in string.Formatter().parse(template):
        out.extend(ord(c) for c in lit)
        if field is None: continue
        if field == "":
            val = args[auto]; auto += 1
        elif field.isdigit():
            val = args[int(field)]
        else:
            val = kwargs[field]
        if isinstance(val, SInt):
            if spec and spec[0] == "0" and spec.endswith("d"):
                out.extend(digits_of(val, int(spec[1:-1])))
            else:
                raise Unsupported("format spec %r for symbolic int" % spec)
        elif isinstance(val, SStr):
            if spec: raise Unsupported("format spec on SStr")
            out.extend(val.chars)
        else:
            out.extend(ord(c) for c in format(val, spec))
    return mk(out)


class Interp:
    def __init__(self, stubs=None, interpret_modules=("stix2",)):
        self.stubs = stubs or {}
        self.interpret_modules = interpret_modules
        self.cache = {}
        self.sources = {}

    def fn_ast(self, fn):
        if fn not in self.cache:
            src = textwrap.dedent(inspect.getsource(fn))
            self.cache[fn] = ast.parse(src).body[0]
            import hashlib
            self.sources["%s.%s" % (fn.__module__, fn.__qualname__)] = hashlib.sha256(src.encode()).hexdigest()[:16]
        return self.cache[fn]

    def call_function(self, fn, args, kwargs):
        node = self.fn_ast(fn)
        sig = inspect.signature(fn)
        ba = sig.bind(*args, **kwargs); ba.apply_defaults()
        env = dict(ba.arguments)
        frame = Frame(self, fn.__globals__, env)
        try:
            frame.exec_block(node.body)
        except ReturnEx as r:
            return r.value
        return None


class ReturnEx(Exception):
    def __init__(self, v): self.value = v


class Frame:
    def __init__(self, interp, globs, env):
        self.I = interp; self.globs = globs; self.env = env

    # ---------- statements ----------
    def exec_block(self, stmts):
        for s in stmts: self.exec(s)

    def exec(self, s):
        m = getattr(self, "st_" + type(s).__name__, None)
        if m is None: raise Unsupported("stmt %s line %s" % (type(s).__name__, s.lineno))
        m(s)

    def st_Expr(self, s): self.ev(s.value)
    def st_Assert(self, s):
        if not truth(self.ev(s.test)): raise SymRaise(AssertionError())
    def st_Pass(self, s): pass
    def st_Return(self, s): raise ReturnEx(self.ev(s.value) if s.value else None)
    def st_Assign(self, s):
        v = self.ev(s.value)
        for t in s.targets: self.assign(t, v)
    def st_AugAssign(self, s):
        if isinstance(s.target, ast.Name):
            cur = self.env[s.target.id]
            self.env[s.target.id] = BINOPS[type(s.op)](cur, self.ev(s.value))
        elif isinstance(s.target, ast.Subscript):
            cont = self.ev(s.target.value); k = concretize(self.ev(s.target.slice))
            cont[k] = BINOPS[type(s.op)](cont[k], self.ev(s.value))
        else: raise Unsupported("augassign target")
    def assign(self, t, v):
        if isinstance(t, ast.Name): self.env[t.id] = v
        elif isinstance(t, ast.Tuple):
            for tt, vv in zip(t.elts, v): self.assign(tt, vv)
        elif isinstance(t, ast.Subscript):
            cont = self.ev(t.value)
            if isinstance(t.slice, ast.Slice):
                cv = lambda x: None if x is None else concretize(self.ev(x))
                cont[slice(cv(t.slice.lower), cv(t.slice.upper), cv(t.slice.step))] = list(v)
            else:
                k = self.ev(t.slice)
                if isinstance(k, SInt): k = concretize(k)
                elif isinstance(k, SStr): raise Unsupported("symbolic string as subscript")
                cont[k] = v          # (a model object such as a modelled datetime is a key by identity)
        elif isinstance(t, ast.Attribute):
            obj = self.ev(t.value)
            if isinstance(obj, (SInt, SBool, SStr)): raise Unsupported("attribute assignment on a symbolic value")
            setattr(obj, t.attr, v)          # plain Python object (the state the interpreted method updates)
        else: raise Unsupported("assign target %s" % type(t).__name__)
    def st_If(self, s):
        if truth(self.ev(s.test)): self.exec_block(s.body)
        else: self.exec_block(s.orelse)
    def st_While(self, s):
        n = 0
        while truth(self.ev(s.test)):
            n += 1
            if n > Engine.cur.max_loop: raise Unsupported("unwinding bound exceeded line %d" % s.lineno)
            try:
                self.exec_block(s.body)
            except _Break: break
            except _Continue: continue
    def st_For(self, s):
        """for over an iterable of concrete length (list, tuple, range, dict, ...); elements may be symbolic"""
        if s.orelse: raise Unsupported("for/else")
        it = self.ev(s.iter)
        if isinstance(it, (SInt, SBool)): raise Unsupported("for over a symbolic value")
        if isinstance(it, SStr): it = [mk([c]) for c in it.chars]
        n = 0
        for x in list(it):
            n += 1
            if n > Engine.cur.max_loop: raise Unsupported("unwinding bound exceeded line %d" % s.lineno)
            self.assign(s.target, x)
            try:
                self.exec_block(s.body)
            except _Break: break
            except _Continue: continue
    def st_Break(self, s): raise _Break()
    def st_Continue(self, s): raise _Continue()
    def st_Try(self, s):
        if s.finalbody or s.orelse: raise Unsupported("try/finally/else")
        try:
            self.exec_block(s.body)
        except (ReturnEx, Unsupported):
            raise
        except SymRaise as e:
            self._handle(s, e.exc, e)
        except Exception as e:      # raised by a stub or a native call
            if type(e).__name__ in ("RuntimeError",) and "infeasible" in str(e): raise
            self._handle(s, e, e)
    def _handle(self, s, exc, orig):
        for h in s.handlers:
            types_ = self.ev(h.type) if h.type is not None else BaseException
            if isinstance(exc, types_):
                if h.name: self.env[h.name] = exc
                self.exec_block(h.body)
                return
        raise orig
    def st_Raise(self, s):
        exc = self.ev(s.exc)
        raise SymRaise(exc)

    # ---------- expressions ----------
    def ev(self, e):
        m = getattr(self, "ex_" + type(e).__name__, None)
        if m is None: raise Unsupported("expr %s line %s" % (type(e).__name__, getattr(e, "lineno", "?")))
        return m(e)

    def ex_Constant(self, e): return e.value
    def ex_Name(self, e):
        if e.id in self.env: return self.env[e.id]
        if e.id in self.I.stubs: return self.I.stubs[e.id]
        if e.id in self.globs: return self.globs[e.id]
        return getattr(builtins, e.id)
    def ex_Attribute(self, e):
        v = self.ev(e.value)
        return getattr(v, e.attr)
    def ex_Subscript(self, e):
        v = self.ev(e.value)
        if isinstance(e.slice, ast.Slice):
            k = slice(*(self.ev(x) if x else None for x in (e.slice.lower, e.slice.upper, e.slice.step)))
        else:
            k = self.ev(e.slice)
        if isinstance(v, str) and is_sym(k if not isinstance(k, slice) else [k.start, k.stop]):
            v = SStr.of(v)
        return v[k]
    def ex_BinOp(self, e):
        a, b = self.ev(e.left), self.ev(e.right)
        if isinstance(e.op, ast.Mod) and isinstance(a, str):
            if is_sym(b): return "<msg>"      # message formatting stub
            return a % b
        if isinstance(e.op, ast.Add) and isinstance(a, str) and isinstance(b, SStr): a = SStr.of(a)
        if isinstance(e.op, ast.Mult) and isinstance(a, (bytes, str, list)) and isinstance(b, SInt): b = concretize(b)
        if isinstance(e.op, ast.LShift) and isinstance(b, SInt): b = concretize(b)
        return BINOPS[type(e.op)](a, b)
    def ex_UnaryOp(self, e):
        v = self.ev(e.operand)
        if isinstance(e.op, ast.Not): return not truth(v)
        if isinstance(e.op, ast.USub): return -v
        raise Unsupported("unary")
    def ex_BoolOp(self, e):
        if isinstance(e.op, ast.And):
            v = True
            for x in e.values:
                v = self.ev(x)
                if not truth(v): return v
            return v
        v = False
        for x in e.values:
            v = self.ev(x)
            if truth(v): return v
        return v
    def ex_Compare(self, e):
        left = self.ev(e.left)
        res = True
        for op, c in zip(e.ops, e.comparators):
            right = self.ev(c)
            r = self.cmp(op, left, right)
            if not truth(r): return False
            left = right
        return True
    def cmp(self, op, a, b):
        if isinstance(op, ast.Is): return a is b
        if isinstance(op, ast.IsNot): return a is not b
        if isinstance(op, (ast.Eq, ast.NotEq)) and isinstance(a, str) and isinstance(b, SStr): a = SStr.of(a)
        if isinstance(op, ast.In):
            if isinstance(b, (str, SStr)): return SStr.of(b).find(a) >= 0
            return any(truth(x == a) for x in b)
        return CMPOPS[type(op)](a, b)
    def ex_IfExp(self, e):
        return self.ev(e.body) if truth(self.ev(e.test)) else self.ev(e.orelse)
    def ex_Tuple(self, e): return tuple(self.ev(x) for x in e.elts)
    def ex_List(self, e): return [self.ev(x) for x in e.elts]
    def ex_Call(self, e):
        args = [self.ev(a) for a in e.args]
        kwargs = {k.arg: self.ev(k.value) for k in e.keywords}
        # str.format with symbolic args
        if isinstance(e.func, ast.Attribute) and e.func.attr == "format":
            recv = self.ev(e.func.value)
            if isinstance(recv, str):
                if is_sym(args) or is_sym(kwargs): return sym_format(recv, args, kwargs)
                return recv.format(*args, **kwargs)
        fn = self.ev(e.func)
        for pred, repl in self.I.stubs.get("__callables__", []):
            if pred(fn):
                return repl(*args, **kwargs)
        if fn is getattr and len(args) == 3:
            return getattr(args[0], args[1], args[2])
        if fn is isinstance and hasattr(args[0], "__pysym_isinstance__"):
            return args[0].__pysym_isinstance__(args[1])
        if fn is len and isinstance(args[0], SStr):
            return len(args[0])
        if fn is str and len(args) == 1 and hasattr(args[0], "__pysym_str__"):
            return args[0].__pysym_str__()
        if fn is float and len(args) == 1 and hasattr(args[0], "__pysym_float__"):
            return args[0].__pysym_float__()
        if fn is int and len(args) == 1 and isinstance(args[0], SStr):
            raise Unsupported("int() of symbolic string")
        if isinstance(fn, types.FunctionType) and fn.__module__.split(".")[0] in self.I.interpret_modules \
                and (is_sym(args) or is_sym(kwargs)):
            return self.I.call_function(fn, args, kwargs)
        if isinstance(fn, type) and issubclass(fn, BaseException):
            return fn(*[("<msg>" if is_sym(a) else a) for a in args])
        return fn(*args, **kwargs)


def truth(v):
    if isinstance(v, (SBool, SInt)): return bool(v)
    return bool(v)


BINOPS = {ast.Add: operator.add, ast.Sub: operator.sub, ast.Mult: operator.mul, ast.FloorDiv: operator.floordiv,
          ast.Mod: operator.mod, ast.LShift: operator.lshift, ast.BitAnd: operator.and_}
CMPOPS = {ast.Eq: operator.eq, ast.NotEq: operator.ne, ast.Lt: operator.lt, ast.LtE: operator.le,
          ast.Gt: operator.gt, ast.GtE: operator.ge}

