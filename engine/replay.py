"""Concrete replay of a solver witness against the real, untraced code.

usage: python -m engine.replay --module props.h_C20 --call "value_side(1, 95)"
       python -m engine.replay --file replays/C20/value_side-0.json

The call is evaluated in the harness module's namespace WITHOUT CrossHair.  The harness function
calls the real library and returns the property as a boolean, so:
  returns truthy      -> witness does NOT reproduce (spurious / fixed)
  returns falsy       -> reproduced (property false on this input)
  raises an exception -> reproduced (an exception escaped the harness)
Prints one JSON line  @@REPLAY@@{...}; exit status 0 = not reproduced, 1 = reproduced, 3 = replay impossible.
"""
import argparse
import importlib
import json
import os
import sys
import traceback

HERE = os.path.dirname(os.path.dirname(os.path.abspath(__file__)))
if HERE not in sys.path:
    sys.path.insert(0, HERE)


def run(module, call):
    import stix2
    assert stix2.__file__.startswith(os.environ.get("VERIF_REPO", "/repo") + "/"), stix2.__file__
    mod = importlib.import_module(module)
    ns = dict(vars(mod))
    ns.setdefault("float", float)
    ns["nan"] = float("nan")
    ns["inf"] = float("inf")
    try:
        r = eval(call, ns)  # noqa: S307 - witness text produced by our own engines
    except BaseException as e:  # noqa: BLE001
        tb = traceback.format_exc().strip().splitlines()
        msg = str(e)
        # the harness itself is out of step with the tree (an internal name it uses was renamed / removed, or a slip of mine): that is a
        # harness fault, not a violation of the property -- never reported as VIOLATION
        fault = isinstance(e, (ImportError, NameError)) or (isinstance(e, AttributeError) and (
            msg.startswith("module 'stix2") or msg.startswith("type object '") or "has no attribute '_" in msg and "module" in msg))
        if fault:
            return {"reproduced": None, "harness_fault": True, "outcome": "harness fault %s: %s" % (type(e).__name__, msg[:300]), "traceback": tb[-6:]}
        return {"reproduced": True, "outcome": "raised %s: %s" % (type(e).__name__, msg[:300]), "traceback": tb[-6:]}
    return {"reproduced": not bool(r), "outcome": "returned %r" % (r,)}


def main():
    ap = argparse.ArgumentParser()
    ap.add_argument("--module")
    ap.add_argument("--call")
    ap.add_argument("--file")
    a = ap.parse_args()
    if a.file:
        with open(a.file) as f:
            d = json.load(f)
        module, call = d["module"], d["call"]
        os.environ.update({k: str(v) for k, v in (d.get("env") or {}).items()})
    else:
        module, call = a.module, a.call
    try:
        res = run(module, call)
    except BaseException as e:  # noqa: BLE001
        print("@@REPLAY@@" + json.dumps({"reproduced": None, "error": "%s: %s" % (type(e).__name__, e)}))
        sys.exit(3)
    res.update({"module": module, "call": call})
    print("@@REPLAY@@" + json.dumps(res))
    if a.file:
        print("REPRODUCED" if res["reproduced"] else "NOT REPRODUCED", "-", res["outcome"])
    sys.exit(3 if res.get("harness_fault") else 1 if res["reproduced"] else 0)


if __name__ == "__main__":
    main()
