"""Property runner:  python -m engine.run C20 [--tier quick|thorough] [--only name,...]

Runs every obligation of props/<ID>.py (one OS process each, up to --jobs in parallel), replays each
solver witness against the real untraced code, applies known_findings.json, writes evidence/<ID>.json.
Exit: 0 no unlisted violation; 1 violation(s) (VIOLATION lines printed); 3 harness error.
"""
import argparse
import concurrent.futures as cf
import importlib
import json
import os
import subprocess
import sys
import time

HERE = os.path.dirname(os.path.dirname(os.path.abspath(__file__)))
if HERE not in sys.path:
    sys.path.insert(0, HERE)
PY = os.path.join(HERE, ".venv", "bin", "python")

from engine.spec import CH, JOB, source_sha  # noqa: E402


def sub(cmd, timeout, env=None):
    e = dict(os.environ)
    e["PYTHONPATH"] = (os.environ["VERIF_REPO"] + os.pathsep if os.environ.get("VERIF_REPO") else "") + HERE
    e["PYTHONHASHSEED"] = "0"
    e.update(env or {})
    t0 = time.time()
    try:
        p = subprocess.run(cmd, cwd=HERE, env=e, stdout=subprocess.PIPE, stderr=subprocess.PIPE, timeout=timeout, text=True)
        return p.returncode, p.stdout, p.stderr, time.time() - t0
    except subprocess.TimeoutExpired as ex:
        return -9, (ex.stdout or b"").decode() if isinstance(ex.stdout, bytes) else (ex.stdout or ""), "TIMEOUT", time.time() - t0


def tagged(out, tag):
    for line in reversed(out.splitlines()):
        if line.startswith(tag):
            return json.loads(line[len(tag):])
    return None


def replay(module, call, env=None):
    rc, out, err, _ = sub([PY, "-m", "engine.replay", "--module", module, "--call", call], 300, env)
    r = tagged(out, "@@REPLAY@@")
    if r is None:
        return {"reproduced": None, "error": (err or out)[-500:]}
    return r


def run_obligation(o, tier, seed):
    env = {"VERIF_TIER": tier, "VERIF_SEED": str(seed)}
    env.update(o.env)
    res = {"name": o.name, "engine": o.engine, "bounds": o.bounds, "stubs": o.stubs, "note": o.note, "env": env,
           "paths": 0, "decisions": 0, "queries": 0, "solver_s": 0.0, "candidates": [], "validated": 0}
    if isinstance(o, CH):
        cmd = [PY, "-m", "engine.ch_driver", "--module", o.module, "--func", o.func, "--timeout", str(o.timeout),
               "--plugin", o.plugin, "--seed", str(seed), "--twin-timeout", str(o.twin_timeout)]
        if o.per_path:
            cmd += ["--per-path", str(o.per_path)]
        rc, out, err, wall = sub(cmd, o.timeout * 3 + o.twin_timeout * 3 + 120, env)
        r = tagged(out, "@@RESULT@@")
        res["wall_s"] = round(wall, 2)
        if r is None:
            res["verdict"] = "ERROR" if err != "TIMEOUT" else "INCONCLUSIVE"
            res["detail"] = "driver produced no result: " + (err or out)[-800:]
            return res
        m = r["main"]
        res.update(paths=m["paths"], decisions=m["decisions"], queries=m["queries"], solver_s=m["solver_s"])
        tw = r.get("twin") or {}
        res["reach_witness"] = tw.get("witness")
        if tw.get("tags"):
            res["reach_tags"] = tw["tags"]          # witness per named branch that must be reachable on its own
        v = r["verdict"]
        if v == "CONFIRMED":
            if tw.get("reached"):
                res["verdict"] = "HOLDS"
                res["detail"] = "Confirmed over all paths"
            else:
                res["verdict"] = "ERROR"
                res["detail"] = "vacuous: reachability twin did not reach the assertion: %r" % (tw.get("messages"),)
        elif v == "CANDIDATE":
            res["verdict"] = "CANDIDATE"
            res["candidates"] = [{"module": o.module, "call": r["cex"]["call"], "desc": r["cex"]["message"][:300],
                                  "state": r["cex"]["state"]}]
        else:
            res["verdict"] = "INCONCLUSIVE"
            res["detail"] = "%s after %ss (%d paths): %s" % (v, o.timeout, m["paths"], m["messages"][:1])
        return res
    # JOB
    if tier == "thorough":
        env.setdefault("VERIF_XCHECK_EVERY", "20")        # every 20th final query is re-decided by cvc5 and the old z3
    cmd = [PY, "-m", "engine.job", "--module", o.module, "--func", o.func, "--tier", tier, "--seed", str(seed)]
    rc, out, err, wall = sub(cmd, o.timeout, env)
    r = tagged(out, "@@RESULT@@")
    res["wall_s"] = round(wall, 2)
    if r is None:
        if err == "TIMEOUT":
            res["verdict"] = "INCONCLUSIVE"
            res["detail"] = "job exceeded %ss" % o.timeout
        else:
            res["verdict"] = "ERROR"
            res["detail"] = "job produced no result: " + (err or out)[-800:]
        return res
    for k in ("paths", "decisions", "queries", "solver_s", "validated", "detail", "samples", "reach_witness", "extra"):
        if k in r:
            res[k] = r[k]
    res["verdict"] = r["verdict"]
    res["candidates"] = [dict(c, module=c.get("module", o.module)) for c in r.get("candidates", [])]
    if res["verdict"] == "HOLDS" and not r.get("reached", True):
        res["verdict"] = "ERROR"
        res["detail"] = "vacuous: no asserting path is satisfiable"
    return res


def load_known():
    try:
        with open(os.path.join(HERE, "known_findings.json")) as f:
            return json.load(f).get("findings", [])
    except FileNotFoundError:
        return []


def main():
    ap = argparse.ArgumentParser()
    ap.add_argument("prop")
    ap.add_argument("--tier", default=os.environ.get("VERIF_TIER") or "quick")
    ap.add_argument("--only", default="")
    ap.add_argument("--jobs", type=int, default=int(os.environ.get("VERIF_JOBS", "0")) or (os.cpu_count() or 4))
    a = ap.parse_args()
    tier = a.tier if a.tier in ("quick", "thorough") else "quick"
    try:
        seed = int(os.environ.get("VERIF_SEED", "0"))
    except ValueError:
        seed = 0
    pid = a.prop
    t0 = time.time()
    import stix2
    if not stix2.__file__.startswith(os.environ.get("VERIF_REPO", "/repo") + "/"):
        print("HARNESS-ERROR stix2 imported from", stix2.__file__)
        sys.exit(3)
    try:
        pm = importlib.import_module("props." + pid)
        obls = pm.obligations(tier)
    except BaseException as e:  # noqa: BLE001
        import traceback
        traceback.print_exc()
        print("HARNESS-ERROR cannot load obligations of %s: %s" % (pid, e))
        sys.exit(3)
    if a.only:
        keep = set(a.only.split(","))
        obls = [o for o in obls if o.name in keep]
    os.environ["VERIF_TIER"] = tier

    results = []
    with cf.ThreadPoolExecutor(max_workers=a.jobs) as ex:
        futs = {ex.submit(run_obligation, o, tier, seed): o for o in obls}
        for f in cf.as_completed(futs):
            o = futs[f]
            try:
                r = f.result()
            except BaseException as e:  # noqa: BLE001
                r = {"name": o.name, "engine": o.engine, "verdict": "ERROR", "detail": repr(e), "paths": 0, "decisions": 0,
                     "queries": 0, "solver_s": 0.0, "candidates": [], "validated": 0, "bounds": o.bounds, "stubs": o.stubs}
            r["functions"] = [source_sha(fn) for fn in o.functions]
            results.append(r)
    order = {o.name: i for i, o in enumerate(obls)}
    results.sort(key=lambda r: order[r["name"]])

    known = [k for k in load_known() if k.get("property") == pid]
    open_known = [k for k in known if k.get("status") == "open"]
    violations, known_hits, replays_done = [], [], 0
    rdir = os.path.join(os.environ.get("VERIF_REPLAY_DIR") or os.path.join(HERE, "replays"), pid)
    for r in results:
        if r["verdict"] != "CANDIDATE":
            continue
        confirmed = []
        for n, c in enumerate(r["candidates"]):
            if not c.get("call"):
                continue
            rp = replay(c["module"], c["call"], r.get("env"))       # same partition / tier environment as the run that produced it
            replays_done += 1
            c["replay"] = rp
            if rp.get("reproduced"):
                listed = [k for k in open_known if k.get("module") == c["module"] and k.get("call") == c["call"]]
                if listed:
                    known_hits.append(listed[0]["id"])
                    continue
                os.makedirs(rdir, exist_ok=True)
                path = os.path.join(rdir, "%s-%d.json" % (r["name"], n))
                with open(path, "w") as f:
                    json.dump({"property": pid, "obligation": r["name"], "module": c["module"], "call": c["call"], "env": r.get("env") or {},
                               "solver_report": c.get("desc"), "observed": rp.get("outcome"), "traceback": rp.get("traceback"),
                               "how": "cd /verif && ./vcheck replay " + path}, f, indent=1)
                confirmed.append(path)
        if not confirmed and any((c.get("replay") or {}).get("harness_fault") for c in r["candidates"]):
            r["verdict"] = "ERROR"
            r["detail"] = "harness fault on replay (the harness is out of step with the tree): %s" % (
                [(c.get("replay") or {}).get("outcome") for c in r["candidates"] if (c.get("replay") or {}).get("harness_fault")][:2],)
            continue
        if confirmed:
            r["verdict"] = "VIOLATION"
            r["replay_files"] = confirmed
            violations.extend(confirmed)
        else:
            r["verdict"] = "INCONCLUSIVE"
            r["detail"] = "solver witness did not reproduce on the real code (encoding/stub artefact or listed finding): %s" % (
                [(c.get("call"), (c.get("replay") or {}).get("outcome")) for c in r["candidates"]][:3],)

    # known findings: replay each recorded witness with exclusions off
    known_lines = []
    for k in open_known:
        rp = replay(k["module"], k["call"], {"VERIF_NO_EXCLUDE": "1"})
        replays_done += 1
        if rp.get("reproduced"):
            known_lines.append("KNOWN-FINDING: property=%s %s [%s; witness %s]" % (pid, k["what_fails"], k["id"], k["call"]))
        else:
            known_lines.append("note: listed finding %s no longer reproduces (%s)" % (k["id"], rp.get("outcome") or rp.get("error")))

    # ---- report
    n_hold = sum(1 for r in results if r["verdict"] == "HOLDS")
    n_inc = sum(1 for r in results if r["verdict"] == "INCONCLUSIVE")
    n_err = sum(1 for r in results if r["verdict"] == "ERROR")
    for r in results:
        print("%-12s %-34s %-16s paths=%-6s queries=%-7s solver=%-7ss wall=%ss %s" % (
            r["verdict"], r["name"], r["engine"], r.get("paths"), r.get("queries"), r.get("solver_s"), r.get("wall_s"),
            ("" if r["verdict"] == "HOLDS" else str(r.get("detail", ""))[:600])))
    for line in known_lines:
        print(line)
    for p in violations:
        print("VIOLATION property=%s replay=%s" % (pid, p))
    wall = time.time() - t0

    samples = []
    for r in results:
        s = {"obligation": r["name"], "engine": r["engine"], "verdict": r["verdict"]}
        if r.get("reach_witness"):
            s["reachability_witness"] = r["reach_witness"]
        if r.get("samples"):
            s["cases"] = r["samples"][:3]
        if r.get("candidates"):
            s["witness"] = [c.get("call") for c in r["candidates"]][:2]
        samples.append(s)
    meta = getattr(pm, "META", {})
    states = sum(int(r.get("paths") or 0) for r in results)
    decisions = sum(int(r.get("decisions") or 0) for r in results)
    queries = sum(int(r.get("queries") or 0) for r in results)
    validated = replays_done + sum(int(r.get("validated") or 0) for r in results)
    ev = {
        "property_id": pid, "tier": tier, "seed": seed, "level": "model_checking",
        "coverage": {
            "states": max(states, 0), "transitions": max(decisions, 0),
            "traces_validated_against_impl": validated,
            "samples": samples[:40],
            "evaluations": queries,
            "distinct_nontrivial": states,
            "rule": "states = feasible execution paths of the real functions explored symbolically (CrossHair iterations / pysym paths / "
                    "regex-inclusion queries); transitions = solver-decided branch points; evaluations = SMT queries; a path is counted once "
                    "per distinct decision prefix, trivial (pre-condition-violating) paths are not counted by the engines",
            "obligations": len(results), "discharged": n_hold, "inconclusive": n_inc, "harness_errors": n_err,
            "solver_time_s": round(sum(float(r.get("solver_s") or 0) for r in results), 2),
            "exhaustive": False,
            "per_obligation": [{k: r.get(k) for k in ("name", "engine", "verdict", "bounds", "stubs", "paths", "decisions", "queries",
                                                        "solver_s", "wall_s", "reach_witness", "reach_tags", "functions", "detail", "note", "extra",
                                                        "replay_files")} for r in results],
            "outside_claim": meta.get("outside", []),
            "known_findings": known_lines,
        },
        "assumptions": meta.get("assumptions", []) + sorted({s for r in results for s in (r.get("stubs") or [])}),
        "wall_s": round(wall, 2),
        "violations": len(violations),
    }
    os.makedirs(os.path.join(HERE, "evidence"), exist_ok=True)
    evname = pid + (".partial.json" if (a.only or os.environ.get("VERIF_REPO")) else ".json")      # a filtered run never replaces the property's evidence file
    with open(os.path.join(HERE, "evidence", evname), "w") as f:
        json.dump(ev, f, indent=1, default=str)
    print("SUMMARY property=%s tier=%s obligations=%d holds=%d inconclusive=%d errors=%d violations=%d known=%d wall=%.1fs" % (
        pid, tier, len(results), n_hold, n_inc, n_err, len(violations), len([x for x in known_lines if x.startswith("KNOWN")]), wall))
    if violations:
        sys.exit(1)
    if n_err:
        print("HARNESS-ERROR %d obligation(s) failed to run (no verdict on them)" % n_err)
        sys.exit(3)
    sys.exit(0)


if __name__ == "__main__":
    main()
