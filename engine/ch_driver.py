"""Run one CrossHair harness (main run + reachability twin) and print a JSON verdict on the last line.

usage: python -m engine.ch_driver --module props.h_C20 --func check_nlmh --timeout 30 [--plugin num|str|none]
                                  [--twin-timeout 20] [--seed N] [--part K --nparts N]
"""
import argparse
import collections
import importlib
import json
import os
import sys
import time

HERE = os.path.dirname(os.path.dirname(os.path.abspath(__file__)))
if HERE not in sys.path:
    sys.path.insert(0, HERE)


def analyse(fn, timeout, per_path, seed):
    from crosshair.core_and_libs import analyze_function, run_checkables
    from crosshair.options import AnalysisKind, AnalysisOptionSet

    stats = collections.Counter()
    opts = AnalysisOptionSet(
        analysis_kind=[AnalysisKind.PEP316],
        per_condition_timeout=timeout,
        per_path_timeout=per_path,
        report_all=True,
        max_uninteresting_iterations=10 ** 9,
        stats=stats,
    )
    t0 = time.time()
    msgs = list(run_checkables(analyze_function(fn, opts)))
    return [(m.state.name, m.message) for m in msgs], dict(stats), time.time() - t0


COUNT = {"queries": 0, "solver_s": 0.0, "decisions": 0}


def instrument():
    """count solver queries / time and branch decisions made by CrossHair (evidence only)"""
    from crosshair import statespace as ss
    orig_sat = ss.solver_is_sat

    def counted_sat(solver, *exprs):
        from crosshair.tracers import NoTracing
        with NoTracing():          # time.time is intercepted (made symbolic) while tracing
            t = time.perf_counter()
            COUNT["queries"] += 1
        try:
            return orig_sat(solver, *exprs)
        finally:
            with NoTracing():
                COUNT["solver_s"] += time.perf_counter() - t

    ss.solver_is_sat = counted_sat
    orig_choose = ss.StateSpace.choose_possible

    def counted_choose(self, *a, **kw):
        COUNT["decisions"] += 1
        return orig_choose(self, *a, **kw)

    ss.StateSpace.choose_possible = counted_choose


def call_expr(message):
    """'false when calling f(1, 2) (which returns False)' -> 'f(1, 2)'"""
    key = "when calling "
    i = message.rfind(key)
    if i < 0:
        return None
    rest = message[i + len(key):]
    j = rest.find(" (which returns")
    if j >= 0:
        rest = rest[:j]
    return rest.strip()


def main():
    ap = argparse.ArgumentParser()
    ap.add_argument("--module", required=True)
    ap.add_argument("--func", required=True)
    ap.add_argument("--timeout", type=float, default=30)
    ap.add_argument("--per-path", type=float, default=None)
    ap.add_argument("--twin-timeout", type=float, default=20)
    ap.add_argument("--plugin", default="num")
    ap.add_argument("--seed", type=int, default=0)
    ap.add_argument("--no-twin", action="store_true")
    a = ap.parse_args()

    import random
    random.seed(a.seed)
    import crosshair.core_and_libs  # noqa: F401  (registers the library patches the plugin overrides)
    if a.plugin in ("num", "str"):
        from engine import ch_plugin
        ch_plugin.install(strs=(a.plugin == "str"))
    instrument()
    import stix2
    assert stix2.__file__.startswith(os.environ.get("VERIF_REPO", "/repo") + "/"), "stix2 imported from %s" % stix2.__file__
    mod = importlib.import_module(a.module)
    fn = getattr(mod, a.func)
    from engine.hlib import V

    out = {"module": a.module, "func": a.func, "timeout": a.timeout, "plugin": a.plugin}
    V.twin = False
    per_path = a.per_path if a.per_path else max(5.0, a.timeout / 4)
    msgs, stats, wall = analyse(fn, a.timeout, per_path, a.seed)
    out["main"] = {"messages": msgs, "paths": stats.get("num_paths", 0), "wall_s": round(wall, 2),
                   "queries": COUNT["queries"], "solver_s": round(COUNT["solver_s"], 3), "decisions": COUNT["decisions"]}
    states = [s for s, _ in msgs]
    if any(s in ("POST_FAIL", "EXEC_ERR", "POST_ERR", "PRE_INVALID", "SYNTAX_ERR", "IMPORT_ERR") for s in states):
        bad = [(s, m) for s, m in msgs if s in ("POST_FAIL", "EXEC_ERR", "POST_ERR", "PRE_INVALID", "SYNTAX_ERR", "IMPORT_ERR")][0]
        out["verdict"] = "CANDIDATE"
        out["cex"] = {"state": bad[0], "message": bad[1], "call": call_expr(bad[1])}
    elif states and all(s == "CONFIRMED" for s in states):
        out["verdict"] = "CONFIRMED"
    elif "PRE_UNSAT" in states:
        out["verdict"] = "PRE_UNSAT"
    else:
        out["verdict"] = "NOT_CONFIRMED"

    if not a.no_twin:
        V.twin = True
        tmsgs, tstats, twall = analyse(fn, a.twin_timeout, max(5.0, a.twin_timeout / 2), a.seed)
        V.twin = False
        reach = None
        for s, m in tmsgs:
            if s == "EXEC_ERR" and m.startswith("Reached"):
                reach = call_expr(m)
        out["twin"] = {"reached": reach is not None, "witness": reach, "messages": tmsgs[:3],
                       "paths": tstats.get("num_paths", 0), "wall_s": round(twall, 2)}
        # tagged markers: each named branch must be reachable on its own
        import inspect
        import re as _re
        tags = sorted(set(_re.findall(r'V\.reached\("([A-Za-z_]+)"\)', inspect.getsource(fn))))
        missing = {}
        for tag in tags:
            V.twin, V.want = True, tag
            tm, ts_, tw_ = analyse(fn, a.twin_timeout * 2, max(5.0, a.twin_timeout), a.seed)
            V.twin, V.want = False, None
            hit = [call_expr(m) for s_, m in tm if s_ == "EXEC_ERR" and m.startswith("Reached")]
            if hit:
                out["twin"].setdefault("tags", {})[tag] = hit[0]
            else:
                missing[tag] = tm[:2]
        if missing:
            out["twin"]["reached"] = False
            out["twin"]["messages"] = [["TAG_UNREACHED", "branch(es) %s not reachable: %r" % (sorted(missing), missing)]]
    print("@@RESULT@@" + json.dumps(out))


if __name__ == "__main__":
    main()
