#!/bin/bash
# Creates /verif/.venv (overlay on /venv with crosshair-tool, z3-solver, cvc5 from the offline wheelhouse).
# Idempotent, safe to call concurrently (flock).
set -e
HERE="$(cd "$(dirname "$0")/.." && pwd)"
VENV="$HERE/.venv"
STAMP="$VENV/.ok"
[ -f "$STAMP" ] && exit 0
exec 9>"$HERE/.venv.lock"
flock 9
[ -f "$STAMP" ] && exit 0
rm -rf "$VENV"
/venv/bin/python -m venv "$VENV" >/dev/null
SP="$VENV/lib/python3.12/site-packages"
printf '%s\n' "import site; site.addsitedir('/venv/lib/python3.12/site-packages')" > "$SP/zz_overlay.pth"
PIP_NO_INDEX=1 "$VENV/bin/pip" install -q --no-index --find-links /opt/veriftools/wheels crosshair-tool z3-solver cvc5 >/dev/null 2>"$HERE/.venv.err" || { cat "$HERE/.venv.err" >&2; exit 3; }
"$VENV/bin/python" - <<'PY'
import crosshair, z3, stix2
assert stix2.__file__.startswith("/repo/"), stix2.__file__
PY
touch "$STAMP"
