"""Regenerate MANIFEST.json from props/C??.py META blocks:  python -m engine.mkmanifest"""
import importlib
import json
import os
import sys

HERE = os.path.dirname(os.path.dirname(os.path.abspath(__file__)))
if HERE not in sys.path:
    sys.path.insert(0, HERE)

BASE_CMD = ("cd /repo && /venv/bin/python -m pytest -ra -q -p no:cacheprovider --timeout=900 "
            "--continue-on-collection-errors")

ENGINES = [
    {"name": "crosshair", "path": "engine/ch_driver.py",
     "kind_free_text": "E1: CrossHair 0.0.110 symbolic execution (z3) of the real function objects imported from /repo, "
                       "PEP-316 harnesses in props/h_*.py, reachability twin per harness, counterexamples replayed natively"},
    {"name": "pysym", "path": "engine/pysym.py",
     "kind_free_text": "E2: AST-driven bounded symbolic interpreter: re-reads the function source from /repo on every run and "
                       "executes it over z3 Int/Bool terms and concrete-length symbolic-character strings; one QF_LIA/QF_BV query per path"},
    {"name": "re2z3", "path": "engine/re2z3.py",
     "kind_free_text": "E3: translation of the live compiled regular expressions to z3 regex terms with re.match/$ semantics; "
                       "language-inclusion queries against an independently written specification language"},
]


def main():
    props = [json.loads(l) for l in open(os.path.join(HERE, "properties.jsonl"))]
    checks, na = [], []
    serves = {"crosshair": [], "pysym": [], "re2z3": []}
    for p in props:
        pid = p["id"]
        try:
            pm = importlib.import_module("props." + pid)
        except ModuleNotFoundError:
            na.append({"property_id": pid, "reason": "check not built yet in this round (planned: DESIGN.md section 5 %s)" % pid})
            continue
        meta = pm.META
        if meta.get("not_applicable"):
            na.append({"property_id": pid, "reason": meta["not_applicable"]})
            continue
        engs = meta.get("engines", ["crosshair"])
        for e in engs:
            serves[e].append(pid)
        checks.append({
            "property_id": pid,
            "quick_cmd": "./vcheck %s --tier quick" % pid,
            "thorough_cmd": "./vcheck %s --tier thorough" % pid,
            "evidence_file": "evidence/%s.json" % pid,
            "replay_cmd_template": "./vcheck replay {path}",
            "engine": "+".join(engs),
            "level_claimed": {
                "category": "model_checking",
                "text": meta["level_text"] + (" " + meta["level_text_more"] if meta.get("level_text_more") else ""),
                "design_ref": meta.get("design_ref", "DESIGN.md section 5, " + pid),
            },
            "level_note": meta["level_note"],
            "technique": meta.get("technique", "bounded symbolic execution of the real functions with an SMT solver (CrossHair/z3); "
                                                "counterexamples replayed on the untraced code"),
        })
    for e in ENGINES:
        e["serves_properties"] = serves[e["name"]]
    man = {
        "version": 1,
        "setup_cmd": "./engine/bootstrap.sh",
        "hooks": {
            "guard": "STIX2_VERIF",
            "enable": "no source hooks are needed: checks import stix2 from /repo's working tree and substitute clock/uuid/IO from "
                      "outside by assigning module attributes; the guard name is reserved and unused",
            "baseline_off_cmd": BASE_CMD,
            "source_commits": [],
            "add_only": True,
        },
        "engines": ENGINES,
        "checks": checks,
        "not_applicable": na,
        "notes": "Every verdict is 'holds within the stated bound with the listed stubs'. Exit 0 = no unlisted violation "
                 "(inconclusive obligations are listed in the evidence, never counted as held); exit 1 = replayed violation; "
                 "exit 3 = harness error (no VIOLATION line). known_findings.json lists open/fixed findings.",
    }
    with open(os.path.join(HERE, "MANIFEST.json"), "w") as f:
        json.dump(man, f, indent=1)
    print("checks:", [c["property_id"] for c in checks], "not_applicable:", [n["property_id"] for n in na])


if __name__ == "__main__":
    main()
