"""CrossHair plugin: do not realise symbolic numbers (opt-in: strings) that are merely formatted into messages.

Stub recorded in evidence as "message formatting of symbolic values is opaque text".
install(strs=False) must be called before analyze_function.
"""


def install(strs=False):
    import string
    from crosshair import core
    from crosshair.core import realize, deep_realize, NoTracing
    from crosshair.libimpl import builtinslib as bl

    names = ["SymbolicInt", "SymbolicFloat", "SymbolicBool"]
    if strs:
        names.append("AnySymbolicStr")
    symtypes = tuple(t for t in (getattr(bl, n, None) for n in names) if t)

    class _Opaque:
        def __format__(self, spec):
            return "<sym>"

        def __str__(self):
            return "<sym>"

        def __repr__(self):
            return "<sym>"

    opaque = _Opaque()

    def _abs(x):
        with NoTracing():
            return opaque if isinstance(x, symtypes) else x

    def _str_format(self, /, *a, **kw):
        template = realize(self)
        a = tuple(_abs(x) for x in a)
        kw = {k: _abs(v) for k, v in kw.items()}
        return string.Formatter().format(template, *a, **kw)

    def _str_percent_format(self, other):
        if not isinstance(self, str):
            raise TypeError
        if isinstance(other, tuple):
            other = tuple(_abs(x) for x in other)
        else:
            other = _abs(other)
        return self.__mod__(deep_realize(other))

    core._PATCH_REGISTRATIONS[str.format] = _str_format
    core._PATCH_REGISTRATIONS[str.__mod__] = _str_percent_format
