"""C04 harnesses: custom content is admitted only on request and is always detected."""
import copy
import json
from collections import OrderedDict

import stix2
from stix2 import properties as P
from stix2 import registry
from stix2.exceptions import CustomContentError, STIXError
from stix2.v21.base import _Extension, _STIXBase21

from engine.hlib import K, Native, Part, TIER, V, pick, pickb
from props import gen

PARTNO = Part.index
UU = gen.UU


# ---------------------------------------------------------------- propagation through the container cleaners (symbolic child flags)
class Child(_STIXBase21):
    _type = "child"
    _properties = OrderedDict([("a", P.StringProperty())])


def child(flag):
    c = Child.__new__(Child)
    c.__dict__["_inner"] = {"a": "x"}
    c.__dict__["_STIXBase__has_custom"] = flag
    c.__dict__["_defaulted_optional_properties"] = []
    return c


def prop_list(f1: bool, f2: bool, f3: bool, n: int, allow: bool) -> bool:
    """
    pre: 1 <= n <= 3
    post: _
    """
    prop = P.ListProperty(Child)
    kids = [child(f1), child(f2), child(f3)][:n]
    anyc = f1 or (n >= 2 and f2) or (n >= 3 and f3)
    try:
        val, hc = prop.clean(kids, allow)
    except CustomContentError:
        V.reached()
        return anyc and not allow
    V.reached()
    return (allow or not anyc) and hc == anyc and len(val) == n


def prop_list_of_props(c1: bool, c2: bool, n: int, allow: bool) -> bool:
    """
    pre: 1 <= n <= 2
    post: _
    """
    # elements are references; a reference to an x- type is custom content
    prop = P.ListProperty(P.ReferenceProperty(valid_types=["SDO"], spec_version="2.1"))
    ids = [("x-custom-a--" if c1 else "identity--") + UU, ("x-custom-b--" if c2 else "malware--") + UU][:n]
    anyc = c1 or (n == 2 and c2)
    try:
        val, hc = prop.clean(ids, allow)
    except (CustomContentError, ValueError):
        V.reached()
        return anyc and not allow
    V.reached()
    return (allow or not anyc) and hc == anyc and val == ids


def prop_embedded(f1: bool, allow: bool, as_dict: bool, extra: bool) -> bool:
    """
    post: _
    """
    prop = P.EmbeddedObjectProperty(type=Child)
    if as_dict:
        value = {"a": "x", "x_more": 1} if extra else {"a": "x"}
        custom = extra
    else:
        value = child(f1)
        custom = f1
    try:
        val, hc = prop.clean(value, allow)
    except (CustomContentError, STIXError):
        V.reached()
        return custom and not allow
    V.reached()
    return (allow or not custom) and hc == custom


class Ext(_Extension):
    _type = "probe-ext"
    _properties = OrderedDict([("a", P.StringProperty())])


class Ext2(_Extension):
    _type = "other-ext"
    _properties = OrderedDict([("b", P.StringProperty())])


def prop_extensions(c1: bool, has1: bool, c2: bool, has2: bool, has_unreg: bool, has_extdef: bool, order: int, allow: bool, inst1: bool = False, inst2: bool = False) -> bool:
    """
    pre: has1 or has2 or has_unreg or has_extdef
    pre: 0 <= order <= 1
    post: _
    """
    saved = dict(registry.STIX2_OBJ_MAPS["2.1"]["extensions"])
    registry.STIX2_OBJ_MAPS["2.1"]["extensions"]["probe-ext"] = Ext
    registry.STIX2_OBJ_MAPS["2.1"]["extensions"]["other-ext"] = Ext2
    try:
        items = []
        if has1:
            v1 = {"a": "x", "x_c": 1} if c1 else {"a": "x"}        # consistently built children: real custom content, not a forced flag
            items.append(("probe-ext", Ext(allow_custom=True, **v1) if inst1 else v1))        # ... given as a dictionary or as a ready-made instance
        if has2:
            v2 = {"b": "y", "x_d": 2} if c2 else {"b": "y"}
            items.append(("other-ext", Ext2(allow_custom=True, **v2) if inst2 else v2))
        if has_unreg:
            items.append(("x-unknown-ext", {"q": 1}))
        if has_extdef:
            items.append(("extension-definition--" + UU, {"extension_type": "property-extension", "q": 1}))
        if order == 1:
            items.reverse()
        val = OrderedDict(items)
        exp_custom = (has1 and c1) or (has2 and c2) or has_unreg
        try:
            out, hc = P.ExtensionsProperty(spec_version="2.1").clean(val, allow)
        except (CustomContentError, STIXError):
            V.reached()
            return exp_custom and not allow
        V.reached()
        return (allow or not exp_custom) and hc == exp_custom and set(out.keys()) == set(val.keys())
    finally:
        registry.STIX2_OBJ_MAPS["2.1"]["extensions"].clear()
        registry.STIX2_OBJ_MAPS["2.1"]["extensions"].update(saved)


HASHES = [("MD5", "0" * 32, False), ("SHA-256", "0" * 64, False), ("SHA3-256", "0" * 64, False), ("sha256", "0" * 64, False), ("SSDEEP", "3:a:b", False),
          ("WHIRLPOOL", "0" * 128, True), ("x-foo", "zz", True), ("FOO", "zz", True), ("md6", "0" * 32, True), ("SHA-1", "0" * 40, False),
          ("TLSH", "0" * 70, False), ("RIPEMD-160", "0" * 40, True)]
NH = len(HASHES)


def prop_hashes(h1: int, h2: int, two: bool, allow: bool) -> bool:
    """
    pre: 0 <= h1 < NH and 0 <= h2 < NH
    post: _
    """
    h1, h2, two, allow = pick(h1, NH), pick(h2, NH), pickb(two), pickb(allow)
    with Native():
        ok = run_hash_case(h1, h2, two, allow)
    V.reached()
    return ok


def run_hash_case(h1, h2, two, allow):
    """STIX 2.1 hash-algorithm-ov: MD5, SHA-1, SHA-256, SHA-512, SHA3-256, SHA3-512, SSDEEP, TLSH; anything else is custom"""
    from stix2.v21.vocab import HASHING_ALGORITHM
    prop = P.HashesProperty(HASHING_ALGORITHM, spec_version="2.1")
    items = [HASHES[h1]] + ([HASHES[h2]] if two and h2 != h1 else [])
    if len({stix2.hashes.infer_hash_algorithm(n) or n for n, _, _ in items}) != len(items):
        return True
    val = OrderedDict((n, v) for n, v, _ in items)
    custom = any(c for _, _, c in items)
    try:
        out, hc = prop.clean(val, allow)
    except (CustomContentError, ValueError):
        return custom and not allow
    return (allow or not custom) and hc == custom and len(out) == len(items)


# ---------------------------------------------------------------- the flag equals 'strict re-parse is refused'
TLE = "extension-definition--88888888-f010-4473-83ec-1edf84858f4c"


def _sites():
    mal = {"type": "malware", "spec_version": "2.1", "id": "malware--" + UU, "created": "2020-01-01T00:00:00.000Z", "modified": "2020-01-01T00:00:00.000Z",
           "name": "m", "is_family": False, "external_references": [{"source_name": "s", "external_id": "1", "hashes": {"MD5": "0" * 32}}],
           "kill_chain_phases": [{"kill_chain_name": "k", "phase_name": "p"}], "created_by_ref": "identity--" + UU}
    f = {"type": "file", "id": "file--" + UU, "name": "f", "hashes": {"MD5": "0" * 32}, "parent_directory_ref": "directory--" + UU,
         "contains_refs": ["file--" + gen.UU2],
         "extensions": {"ntfs-ext": {"sid": "s", "alternate_data_streams": [{"name": "a", "hashes": {"MD5": "0" * 32}}]},
                        "raster-image-ext": {"image_height": 1}}}
    od20 = {"type": "observed-data", "id": "observed-data--" + UU, "created": "2020-01-01T00:00:00.000Z", "modified": "2020-01-01T00:00:00.000Z",
            "first_observed": "2020-01-01T00:00:00Z", "last_observed": "2020-01-01T00:00:00Z", "number_observed": 1,
            "objects": {"0": {"type": "file", "name": "f", "extensions": {"ntfs-ext": {"sid": "s"}, "raster-image-ext": {"image_height": 1}}}}}
    b21 = {"type": "bundle", "id": "bundle--" + UU, "objects": [copy.deepcopy(mal)]}
    rel = {"type": "relationship", "spec_version": "2.1", "id": "relationship--" + UU, "created": "2020-01-01T00:00:00.000Z",
           "modified": "2020-01-01T00:00:00.000Z", "relationship_type": "uses", "source_ref": "malware--" + UU, "target_ref": "identity--" + UU}
    rel20 = {k: v for k, v in rel.items() if k != "spec_version"}
    rep20 = {"type": "report", "id": "report--" + UU, "created": "2020-01-01T00:00:00.000Z", "modified": "2020-01-01T00:00:00.000Z", "name": "r",
             "published": "2020-01-01T00:00:00Z", "labels": ["threat-report"], "object_refs": ["malware--" + UU]}
    md21 = {"type": "marking-definition", "spec_version": "2.1", "id": "marking-definition--" + UU, "created": "2020-01-01T00:00:00.000Z",
            "definition_type": "statement", "definition": {"statement": "s"}}
    md20 = {k: v for k, v in md21.items() if k != "spec_version"}
    fpe = {"type": "file", "id": "file--" + UU, "name": "f", "extensions": {"windows-pebinary-ext": {"pe_type": "exe", "optional_header": {"magic_hex": "0a"},
                                                                                        "file_header_hashes": {"MD5": "0" * 32}}}}
    od20ref = {"type": "observed-data", "id": "observed-data--" + UU, "created": "2020-01-01T00:00:00.000Z", "modified": "2020-01-01T00:00:00.000Z",
               "first_observed": "2020-01-01T00:00:00Z", "last_observed": "2020-01-01T00:00:00Z", "number_observed": 1,
               "objects": {"0": {"type": "file", "name": "f", "parent_directory_ref": "1"}, "1": {"type": "directory", "path": "p"}}}
    bases = [("2.1", mal), ("2.1", f), ("2.0", od20), ("2.1", b21), ("2.1", rel), ("2.0", rel20), ("2.0", rep20), ("2.1", md21), ("2.0", md20), ("2.1", fpe), ("2.0", od20ref)]
    inj = [
        # (base index, description, path, value, insert-first)
        (0, "top-level custom property", "x_foo", 1), (0, "custom property in embedded object", "external_references.0.x_foo", 1),
        (0, "custom property in second embedded list", "kill_chain_phases.0.x_foo", 1),
        (0, "unregistered extension", "extensions", {"x-foo-ext": {"a": 1}}),
        (1, "custom property on SCO", "x_foo", 1), (1, "custom property inside registered extension", "extensions.ntfs-ext.x_foo", 1),
        (1, "custom property in embedded object of extension", "extensions.ntfs-ext.alternate_data_streams.0.x_foo", 1),
        (1, "custom hash in extension embedded object", "extensions.ntfs-ext.alternate_data_streams.0.hashes.x-foo", "zz"),
        (1, "unregistered extension next to registered ones", "extensions.x-foo-ext", {"a": 1}),
        (1, "unregistered extension FIRST, registered after", "extensions", ("first", "x-foo-ext", {"a": 1})),
        (1, "custom property in FIRST registered extension, clean one after", "extensions.ntfs-ext.x_zzz", 1),
        (1, "custom hash algorithm", "hashes.x-foo", "zz"), (1, "reference to custom type in list", "contains_refs.0", "x-custom--" + UU),
        (2, "custom property on observed-data member", "objects.0.x_foo", 1), (2, "custom extension property in member", "objects.0.extensions.ntfs-ext.x_foo", 1),
        (2, "unregistered observable type as member", "objects.1", {"type": "x-custom-sco", "a": 1}),
        (3, "custom property on bundle member", "objects.0.x_foo", 1), (3, "unregistered object type as bundle member", "objects.1",
                                                                        {"type": "x-custom", "id": "x-custom--" + UU, "a": 1}),
        (3, "custom property on the bundle", "x_foo", 1), (3, "custom embedded content in bundle member", "objects.0.external_references.0.x_foo", 1),
        (4, "relationship to custom type", "target_ref", "x-custom--" + UU), (4, "top-level custom on SRO", "x_foo", 1),
        # values that are false-y but kept: the property is custom content whatever it holds
        (0, "custom property holding the empty string", "x_e1", ""), (0, "custom property holding an empty object", "x_e2", {}),
        (0, "custom property holding false", "x_e3", False), (0, "custom property holding 0", "x_e4", 0),
        (1, "custom property holding the empty string on an SCO", "x_e1", ""),
        (0, "custom property holding the empty string in an embedded object", "external_references.0.x_e1", ""),
        # a type registered for 2.1 only is a custom type for a 2.0 object
        (5, "2.0 relationship to a 2.1-only type", "target_ref", "location--" + UU), (5, "2.0 relationship from a 2.1-only type", "source_ref", "note--" + UU),
        (6, "2.0 report referring to a 2.1-only type", "object_refs.1", "grouping--" + UU),
        # names registered in another category (extensions, marking kinds) are not object types
        (4, "relationship to a name registered as an extension", "target_ref", "archive-ext--" + UU), (4, "relationship from a marking kind", "source_ref", "tlp--" + UU),
        (5, "2.0 relationship to a name registered as an extension", "target_ref", "ntfs-ext--" + UU),
        # STIX 2.0 has no extension definitions: an 'extensions' member on a 2.0 object is itself custom and licenses nothing
        (5, "top-level custom property on a 2.0 SRO", "x_foo", 1),
        (5, "2.0 relationship with a toplevel-property-extension entry", "extensions", {TLE: {"extension_type": "toplevel-property-extension"}}),
        (6, "2.0 report with a toplevel-property-extension entry", "extensions", {TLE: {"extension_type": "toplevel-property-extension"}}),
        (6, "top-level custom property on a 2.0 SDO", "x_foo", 1),
        # embedded types carry no extensions: such a member is custom and licenses nothing
        (0, "embedded object with an extensions member and a custom property", "external_references.0",
         {"source_name": "s", "external_id": "1", "extensions": {TLE: {"extension_type": "toplevel-property-extension"}}, "x_foo": 1}),
        (0, "embedded object with an extensions member", "kill_chain_phases.0",
         {"kill_chain_name": "k", "phase_name": "p", "extensions": {TLE: {"extension_type": "toplevel-property-extension"}}}),
        # custom content inside the definition of a marking definition
        (7, "custom property inside a 2.1 statement marking", "definition.x_foo", 1), (7, "false-y custom property inside a 2.1 statement marking", "definition.x_e", ""),
        (8, "custom property inside a 2.0 statement marking", "definition.x_foo", 1),
        (9, "custom property in a singly embedded object of an extension", "extensions.windows-pebinary-ext.optional_header.x_foo", 1),
        (9, "custom hash in an extension", "extensions.windows-pebinary-ext.file_header_hashes.x-foo", "zz"),
    ]
    # custom properties given as null / [] are dropped: no custom content results (DROPPED sites carry no injection)
    return bases, inj


BASES, INJ = _sites()
NINJ = len(INJ)


def set_path(doc, path, value):
    d = copy.deepcopy(doc)
    if isinstance(value, tuple) and value[0] == "first":
        cur = d
        for p in path.split("."):
            cur = cur[int(p)] if isinstance(cur, list) else cur[p]
        items = [(value[1], value[2])] + list(cur.items())
        cur.clear()
        cur.update(OrderedDict(items))
        return d
    cur = d
    parts = path.split(".")
    for p in parts[:-1]:
        cur = cur[int(p)] if isinstance(cur, list) else cur[p]
    last = parts[-1]
    if isinstance(cur, list):
        if int(last) >= len(cur):
            cur.append(value)
        else:
            cur[int(last)] = value
    else:
        cur[last] = value
    return d


def flag_iff_strict_refuses(i: int, j: int) -> bool:
    """
    pre: 0 <= i <= NINJ and 0 <= j <= NINJ
    post: _
    """
    i, j = pick(i, NINJ + 1), pick(j, NINJ + 1)
    with Native():
        ok = run_inject_case(i, j) and run_inject_case(i, j, neutral=True)
    V.reached()
    return ok


# ---- members named like the constructors' own flags are content, not switches
RESERVED = ["allow_custom", "interoperability", "custom_properties", "_valid_refs"]
RES_SITES = [(0, ""), (10, ""), (10, "objects.0."), (0, "external_references.0."), (0, "kill_chain_phases.0."), (1, ""), (1, "extensions.ntfs-ext."), (1, "extensions.ntfs-ext.alternate_data_streams.0."),
             (7, "definition."), (8, "definition."), (2, "objects.0."), (3, "objects.0."), (4, ""), (5, ""),
             (9, "extensions.windows-pebinary-ext.optional_header."), (9, "extensions.windows-pebinary-ext.")]


def reserved_names(si: int, ni: int, with_custom: bool) -> bool:
    """
    pre: 0 <= si < len(RES_SITES) and 0 <= ni < 4
    post: _
    """
    si, ni, with_custom = pick(si, len(RES_SITES)), pick(ni, 4), bool(with_custom)
    with Native():
        ok = run_reserved_case(si, ni, with_custom)
    V.reached()
    return ok


def run_reserved_case(si, ni, with_custom):
    """a member named allow_custom / interoperability / custom_properties anywhere in strictly parsed content (alone, or next to a custom
    property it might 'license') never switches anything on: the parse is refused"""
    bi, prefix = RES_SITES[si]
    ver, base = BASES[bi]
    name = RESERVED[ni]
    doc = set_path(base, prefix + name, {"x_foo": 1} if name == "custom_properties" else ["*"] if name == "_valid_refs" else True)
    if with_custom and name != "custom_properties":
        doc = set_path(doc, prefix + "x_foo", 1)
    try:
        o = stix2.parse(doc, allow_custom=False, version=ver if doc["type"] != "bundle" else None)
    except (STIXError, ValueError, TypeError):
        return True
    return False


NEUTRAL_EXT = {"extension-definition--99999999-f010-4473-83ec-1edf84858f4c": {"extension_type": "property-extension", "q": 1}}


def run_inject_case(i, j, neutral=False):
    """zero, one or two injections into the same base object (i == NINJ / j == NINJ mean 'none'); neutral: the object additionally carries an
    unregistered property-extension named by an extension-definition id -- legal, not custom, and no licence for anything else"""
    picks = [x for x in (i, j) if x < NINJ]
    if len(picks) == 2 and (INJ[picks[0]][0] != INJ[picks[1]][0] or picks[0] >= picks[1]):
        return True
    bi = INJ[picks[0]][0] if picks else 0
    ver, base = BASES[bi]
    if neutral:
        if ver != "2.1" or base["type"] == "bundle":
            return True
        base = dict(base, extensions=dict(base.get("extensions", {}), **NEUTRAL_EXT))
    doc = base
    for x in picks:
        if neutral and INJ[x][2] == "extensions":
            return True                          # (that injection replaces the whole extensions value)
        doc = set_path(doc, INJ[x][2], INJ[x][3])
    has_injection = bool(picks)

    def strict(d):
        try:
            stix2.parse(d, allow_custom=False, version=ver if d["type"] != "bundle" else None)
            return True
        except (STIXError, ValueError, TypeError):
            return False
    # 1. customization disallowed: any injection is refused, the clean base is accepted
    if strict(doc) != (not has_injection):
        return False
    # 2. customization allowed: accepted, and the flag is true exactly when a strict parse of the serialization is refused
    try:
        o = stix2.parse(doc, allow_custom=True, version=ver if doc["type"] != "bundle" else None)
    except (STIXError, ValueError, TypeError):
        return False
    if not hasattr(o, "has_custom"):
        return has_injection
    text = o.serialize()
    again = strict(json.loads(text))
    return o.has_custom == (not again) and o.has_custom == has_injection


DROP_SITES = [(0, "x_n"), (0, "external_references.0.x_n"), (0, "kill_chain_phases.0.x_n"), (1, "x_n"), (1, "extensions.ntfs-ext.x_n"),
              (2, "objects.0.x_n"), (3, "objects.0.x_n"), (4, "x_n"), (5, "x_n")]


def dropped_custom_values(si: int, vi: int, also: int) -> bool:
    """
    pre: 0 <= si < 9 and 0 <= vi < 2 and 0 <= also <= NINJ
    post: _
    """
    si, vi, also = pick(si, 9), pick(vi, 2), pick(also, NINJ + 1)
    with Native():
        ok = run_dropped_case(si, vi, also)
    V.reached()
    return ok


def run_dropped_case(si, vi, also):
    """a custom property given as null / [] is dropped by the constructor, so it is not custom content: with customization allowed the flag
    still equals 'a strict parse of the serialization is refused' (alone: false; next to a real injection: true)"""
    bi, path = DROP_SITES[si]
    ver, base = BASES[bi]
    if also < NINJ and INJ[also][0] != bi:
        return True
    doc = set_path(base, path, [None, []][vi])
    if also < NINJ:
        doc = set_path(doc, INJ[also][2], INJ[also][3])
    try:
        o = stix2.parse(doc, allow_custom=True, version=ver if doc["type"] != "bundle" else None)
    except (STIXError, ValueError, TypeError):
        return False
    text = o.serialize()
    if '"x_n"' in text:
        return False
    try:
        stix2.parse(json.loads(text), allow_custom=False, version=ver if doc["type"] != "bundle" else None)
        again = True
    except (STIXError, ValueError, TypeError):
        again = False
    return o.has_custom == (not again) and o.has_custom == (also < NINJ)


# ---------------------------------------------------------------- the switch on stores and unknown types
def stores_and_unknown_types(kind: int, allow: bool, ep: int) -> bool:
    """
    pre: 0 <= kind <= 15 and 0 <= ep <= 3
    post: _
    """
    kind, allow, ep = pick(kind, 16), pickb(allow), pick(ep, 4)
    with Native():
        ok = run_store_case(kind, allow, ep)
    V.reached()
    return ok


def run_store_case(kind, allow, ep):
    from stix2.datastore import filesystem as F
    from stix2.datastore import memory as M
    from props import fakefs
    docs = [
        {"type": "x-unreg", "spec_version": "2.1", "id": "x-unreg--" + UU, "created": "2020-01-01T00:00:00.000Z", "modified": "2020-01-01T00:00:00.000Z"},
        {"type": "x-unreg", "spec_version": "2.1", "id": "x-unreg--" + UU, "created": "2020-01-01T00:00:00.000Z", "modified": "2020-01-01T00:00:00.000Z",
         "extensions": {"extension-definition--" + UU: {"extension_type": "toplevel-property-extension"}}},
        {"type": "x-unreg", "spec_version": "2.1", "id": "x-unreg--" + UU, "created": "2020-01-01T00:00:00.000Z", "modified": "2020-01-01T00:00:00.000Z",
         "extensions": {"extension-definition--" + UU: {"extension_type": "new-sdo"}}},
        dict(BASES[0][1], x_foo=1),
    ]
    unreg = docs[0]
    # an extension entry that does not say it defines a new object type does not excuse an unregistered type
    for entry in ({}, {"extension_type": "property-extension"}, {"extension_type": ""}, {"extension_type": "x"}, {"extension_type": None}, {"extension_type": 5},
                  {"extension_type": ["new-sdo"]}, {"extension_type": "new-sdo-property-extension"}, {"extension_type": "NEW-SDO"}):
        docs.append(dict(unreg, extensions={"extension-definition--" + UU: entry}))
    docs.append(dict(unreg, extensions={"x-new-ext": {"extension_type": "new-sdo"}}))                  # not an extension-definition id
    docs.append(dict(unreg, extensions={"extension-definition--" + UU: {"extension_type": "new-sco"}}))
    docs.append(dict(unreg, extensions={"extension-definition--" + UU: {"extension_type": "new-sro"}}))
    doc = docs[kind]
    new_type_ext = kind == 2 or kind >= len(docs) - 2         # a new-sdo/new-sco/new-sro extension legitimately introduces an unregistered type
    ffs = fakefs.FakeFS()
    saved = fakefs.install(F, ffs)
    try:
        try:
            if ep == 0:
                stix2.parse(copy.deepcopy(doc), allow_custom=allow)
            elif ep == 1:
                stix2.parse(json.dumps(doc), allow_custom=allow)
            elif ep == 2:
                M.MemoryStore(allow_custom=allow).add(copy.deepcopy(doc))
            else:
                F.FileSystemStore("/fs", allow_custom=allow).add(copy.deepcopy(doc))
            accepted = True
        except (STIXError, ValueError, TypeError):
            accepted = False
    finally:
        F.os, F.io = saved
    return accepted == (allow or new_type_ext)


# ---------------------------------------------------------------- registered toplevel-property extensions are not custom content, however they arrive
def toplevel_extension_routes(ci: int, step: int, extra: bool) -> bool:
    """
    pre: 0 <= ci < 6 and 0 <= step < 9
    post: _
    """
    ci, step, extra = pick(ci, 6), pick(step, 9), pickb(extra)
    with Native():
        ok = run_toplevel_route(ci, step, extra)
    V.reached()
    return ok


def run_toplevel_route(ci, step, extra):
    """an object carrying registered extensions (given as dictionaries, as ready-made instances, or re-used from a finished object by the
    multi-step operations that rebuild it) is custom exactly when it also carries a genuinely custom property: flag, strict acceptance
    and strict re-parse of the serialization agree"""
    import copy as _copy
    from props import h_C17
    h_C17._register_fixture()
    combo = h_C17.EXT_COMBOS[ci]
    doc = h_C17.ext_doc(combo)
    if extra:
        doc["x_genuinely_custom"] = 1
    strict = None
    try:
        strict = stix2.parse(doc, allow_custom=False, version="2.1")
    except (STIXError, ValueError, TypeError):
        pass
    if (strict is not None) != (not extra):
        return False
    o = stix2.parse(doc, allow_custom=True, version="2.1")
    M = "marking-definition--613f2e26-407d-48c7-9eca-b8e91df99dc9"
    try:
        if step == 0:
            r = o
        elif step == 1:
            r = stix2.markings.add_markings(o, M)
        elif step == 2:
            r = _copy.deepcopy(o)
        elif step == 3:
            r = o.new_version(name="other", allow_custom=True)
        elif step == 4:
            r = stix2.parse(o, allow_custom=True)
        elif step == 5:
            r = stix2.v21.Bundle(o, allow_custom=True).objects[0]
        elif step == 6:
            kw = {k: v for k, v in o.items()}                       # the finished object's own values (extension instances) into a constructor
            r = stix2.v21.Identity(allow_custom=True, **kw)
        elif step == 7:
            kw = {k: v for k, v in o.items()}
            if extra:
                return True
            r = stix2.v21.Identity(**kw)                            # ... also in strict mode
        else:
            r = stix2.markings.add_markings(stix2.markings.add_markings(o, M, ["name"]), M)
    except (STIXError, ValueError, TypeError):
        return False
    text = r.serialize()
    try:
        stix2.parse(json.loads(text), allow_custom=False, version="2.1")
        again = True
    except (STIXError, ValueError, TypeError):
        again = False
    return r.has_custom == extra and again == (not extra) and ("rank_a" in r) == (h_C17.EXT_A in combo)


# ---- custom content carried by a property that a REGISTERED toplevel-property-extension defines, and references given as object instances
EXT_R = "extension-definition--c04c04c0-f010-4473-83ec-1edf84858f4c"


def _fixture_r():
    from stix2 import properties as SP
    if stix2.registry.class_for_type(EXT_R, "2.1", "extensions") is None:
        @stix2.v21.CustomExtension(EXT_R, [("peer_ref", SP.ReferenceProperty(valid_types=["SDO"], spec_version="2.1")),
                                           ("peer_refs", SP.ListProperty(SP.ReferenceProperty(valid_types=["SDO", "SCO"], spec_version="2.1"))),
                                           ("sums", SP.HashesProperty(["MD5", "SHA-256"], spec_version="2.1")),
                                           ("origin", SP.EmbeddedObjectProperty(stix2.v21.ExternalReference)),
                                           ("origins", SP.ListProperty(stix2.v21.ExternalReference)), ("rank", SP.IntegerProperty())])
        class ExtR:
            extension_type = "toplevel-property-extension"
    for ver, mod in (("2.1", stix2.v21), ("2.0", stix2.v20)):
        if stix2.registry.class_for_type("x-c04-gadget", ver, "objects") is None:
            @mod.CustomObject("x-c04-gadget", [("name", SP.StringProperty())])
            class Gadget:
                pass


CARRIED = [  # (property, clean value, custom value)
    ("peer_ref", "malware--" + UU, "x-unregistered--" + UU), ("peer_refs", ["file--" + UU], ["file--" + UU, "x-unregistered--" + UU]),
    ("sums", {"MD5": "0" * 32}, {"MD5": "0" * 32, "x-foo": "zz"}), ("sums", {"SHA-256": "0" * 64}, {"x-foo": "zz", "SHA-256": "0" * 64}),
    ("origin", {"source_name": "s", "external_id": "1"}, {"source_name": "s", "external_id": "1", "x_foo": 1}),
    ("origins", [{"source_name": "s", "external_id": "1"}], [{"source_name": "s", "external_id": "1"}, {"source_name": "t", "external_id": "2", "x_foo": ""}]),
    ("peer_ref", "identity--" + UU, "x-c04-gadget--" + UU), ("rank", 0, None),
]


def extension_carried(ci: int, custom: bool, host: int, also: bool) -> bool:
    """
    pre: 0 <= ci < len(CARRIED) and 0 <= host <= 2
    post: _
    """
    ci, custom, host, also = pick(ci, len(CARRIED)), pickb(custom), pick(host, 3), pickb(also)
    with Native():
        ok = run_carried_case(ci, custom, host, also)
    V.reached()
    return ok


def run_carried_case(ci, custom, host, also):
    _fixture_r()
    prop, clean, bad = CARRIED[ci]
    if custom and bad is None:
        return True
    base = [dict(BASES[0][1]), dict(BASES[1][1]), dict(BASES[4][1])][host]          # malware, file (SCO), relationship
    doc = dict(base, extensions=dict(base.get("extensions", {}), **{EXT_R: {"extension_type": "toplevel-property-extension"}}))
    doc[prop] = copy.deepcopy(bad if custom else clean)
    if also:
        doc["rank"] = 7                                        # a second, clean extension property next to it
    try:
        stix2.parse(doc, allow_custom=False, version="2.1")
        strict = True
    except (STIXError, ValueError, TypeError):
        strict = False
    if strict != (not custom):
        return False
    try:
        o = stix2.parse(doc, allow_custom=True, version="2.1")
    except (STIXError, ValueError, TypeError):
        return False
    try:
        stix2.parse(json.loads(o.serialize()), allow_custom=False, version="2.1")
        again = True
    except (STIXError, ValueError, TypeError):
        again = False
    b = stix2.v21.Bundle(o, allow_custom=True)
    return o.has_custom == custom and again == (not custom) and b.has_custom == custom


REF_SITES = [  # (version, how the referring object is built from a referred-to OBJECT)
    ("2.1", lambda x, **k: stix2.v21.Relationship(x, "uses", "identity--" + UU, **k)), ("2.1", lambda x, **k: stix2.v21.Relationship("identity--" + UU, "uses", x, **k)),
    ("2.1", lambda x, **k: stix2.v21.Sighting(sighting_of_ref=x, **k)), ("2.1", lambda x, **k: stix2.v21.Report(name="r", published="2020-01-01T00:00:00Z", object_refs=[x], **k)),
    ("2.1", lambda x, **k: stix2.v21.Note(content="c", object_refs=["identity--" + UU, x], **k)),
    ("2.0", lambda x, **k: stix2.v20.Relationship(x, "uses", "identity--" + UU, **k)), ("2.0", lambda x, **k: stix2.v20.Sighting(sighting_of_ref=x, **k)),
    ("2.0", lambda x, **k: stix2.v20.Report(name="r", published="2020-01-01T00:00:00Z", labels=["threat-report"], object_refs=[x], **k)),
    ("2.1", lambda x, **k: stix2.v21.Relationship("identity--" + UU, "uses", "identity--" + UU.replace("3", "4"), **k).new_version(target_ref=x, **k)),
]


def references_by_instance(si: int, custom: bool) -> bool:
    """
    pre: 0 <= si < len(REF_SITES)
    post: _
    """
    si, custom = pick(si, len(REF_SITES)), pickb(custom)
    with Native():
        ok = run_ref_instance_case(si, custom)
    V.reached()
    return ok


def run_ref_instance_case(si, custom):
    """a reference may be given as the object referred to: it counts exactly as that object's id string would (a registered custom type is custom)"""
    _fixture_r()
    ver, build = REF_SITES[si]
    mod = stix2.v21 if ver == "2.1" else stix2.v20
    target = stix2.registry.class_for_type("x-c04-gadget", ver, "objects")(name="g") if custom else mod.Malware(name="m", **({"is_family": False} if ver == "2.1" else {"labels": ["x"]}))
    outcomes = []
    for given in (target, target.id):
        try:
            build(given)
            strict = True
        except (STIXError, ValueError, TypeError):
            strict = False
        try:
            o = build(given, allow_custom=True)
        except (STIXError, ValueError, TypeError):
            return False
        try:
            stix2.parse(json.loads(o.serialize()), allow_custom=False, version=ver)
            again = True
        except (STIXError, ValueError, TypeError):
            again = False
        outcomes.append((strict, o.has_custom, again))
    return outcomes[0] == outcomes[1] == (not custom, custom, not custom)


# ---- the same extra property, given as a keyword or through custom_properties, next to a toplevel-property-extension (registered or not)
def extras_next_to_toplevel_extension(reg: bool, via: int, genuinely_custom: bool, host: int) -> bool:
    """
    pre: 0 <= via <= 2 and 0 <= host <= 1
    post: _
    """
    reg, via, genuinely_custom, host = pickb(reg), pick(via, 3), pickb(genuinely_custom), pick(host, 2)
    with Native():
        ok = run_extras_case(reg, via, genuinely_custom, host)
    V.reached()
    return ok


def run_extras_case(reg, via, genuinely_custom, host):
    """flag <=> strict re-parse refused, whichever way the extra arrived.  With a REGISTERED extension its property (rank) is not custom and any
    other extra is; with an UNREGISTERED one every extra counts as the extension's"""
    _fixture_r()
    ext = EXT_R if reg else TLE
    kw = dict(name="x") if host == 0 else dict(name="f")
    cls = stix2.v21.Identity if host == 0 else stix2.v21.File
    extras = {"rank": 3}
    if genuinely_custom:
        extras["x_other"] = "v"
    base = dict(kw, extensions={ext: {"extension_type": "toplevel-property-extension"}})
    try:
        if via == 0:
            o = cls(allow_custom=True, **dict(base, **extras))
        elif via == 1:
            o = cls(custom_properties=dict(extras), **base)
        else:
            first = dict(list(extras.items())[:1])
            o = cls(allow_custom=True, custom_properties={k: v for k, v in extras.items() if k not in first}, **dict(base, **first))
    except (STIXError, ValueError, TypeError):
        return False
    try:
        stix2.parse(json.loads(o.serialize()), allow_custom=False, version="2.1")
        again = True
    except (STIXError, ValueError, TypeError):
        again = False
    expect_custom = reg and genuinely_custom
    return o.has_custom == expect_custom and again == (not expect_custom) and all(k in o for k in extras)
