"""In-memory stand-in for the os/io calls made by stix2.datastore.filesystem (probe)."""
import errno, io, os, stat as _stat, posixpath

class FakeFS:
    def __init__(self, root="/fs"):
        self.dirs = {root}; self.files = {}; self.root = root
    # os.path.*
    def exists(self, p): return p in self.dirs or p in self.files
    def isfile(self, p): return p in self.files
    def abspath(self, p): return posixpath.normpath(p)
    # os.*
    def makedirs(self, p):
        parts = p.strip("/").split("/"); cur = ""
        for x in parts:
            cur += "/" + x; self.dirs.add(cur)
    def listdir(self, p):
        if p not in self.dirs: raise OSError(errno.ENOENT, "no such dir", p)
        out = set()
        for q in list(self.dirs) + list(self.files):
            if q != p and posixpath.dirname(q) == p: out.add(posixpath.basename(q))
        return sorted(out)
    def stat(self, p):
        class S: pass
        s = S()
        if p in self.dirs: s.st_mode = _stat.S_IFDIR | 0o755
        elif p in self.files: s.st_mode = _stat.S_IFREG | 0o644
        else: raise OSError(errno.ENOENT, "no such file", p)
        return s
    def open(self, p, mode="r", encoding=None):
        fs = self
        if "w" in mode:
            class W(io.StringIO):
                def close(w):
                    fs.files[p] = w.getvalue(); io.StringIO.close(w)
                def __exit__(w, *a): w.close()
            return W()
        if p not in self.files: raise IOError(errno.ENOENT, "no such file", p)
        return io.StringIO(self.files[p])

def install(mod, fs):
    """replace the os / io names looked up by stix2.datastore.filesystem"""
    class OSPath:
        join = staticmethod(posixpath.join); splitext = staticmethod(posixpath.splitext)
        dirname = staticmethod(posixpath.dirname)
        exists = staticmethod(fs.exists); isfile = staticmethod(fs.isfile); abspath = staticmethod(fs.abspath)
    class OS:
        path = OSPath; makedirs = staticmethod(fs.makedirs); listdir = staticmethod(fs.listdir); stat = staticmethod(fs.stat)
        lstat = staticmethod(fs.stat)         # the model has no symbolic links: lstat == stat
    class IO:
        open = staticmethod(fs.open); StringIO = io.StringIO
    saved = (mod.os, mod.io)
    mod.os, mod.io = OS, IO
    return saved

