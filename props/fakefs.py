"""In-memory stand-in for the os/io calls made by stix2.datastore.filesystem (probe)."""
import errno, io, os, stat as _stat, posixpath

class FakeFS:
    """directories, regular files and symbolic links (absolute targets, resolved component by component; stat follows links, lstat does not)"""
    def __init__(self, root="/fs"):
        self.dirs = {root}; self.files = {}; self.root = root; self.links = {}
    def symlink(self, target, link):
        self.links[link] = target
    def _res(self, p, last=True):
        parts = p.strip("/").split("/"); cur = ""
        for n, x in enumerate(parts):
            cur += "/" + x
            if cur in self.links and (last or n < len(parts) - 1): cur = self.links[cur]
        return cur
    # os.path.*
    def exists(self, p): p = self._res(p); return p in self.dirs or p in self.files
    def isfile(self, p): return self._res(p) in self.files
    def abspath(self, p): return posixpath.normpath(p)
    # os.*
    def makedirs(self, p):
        parts = self._res(p).strip("/").split("/"); cur = ""
        for x in parts:
            cur += "/" + x; self.dirs.add(cur)
    def listdir(self, p):
        p = self._res(p)
        if p not in self.dirs: raise OSError(errno.ENOENT, "no such dir", p)
        out = set()
        for q in list(self.dirs) + list(self.files) + list(self.links):
            if q != p and posixpath.dirname(q) == p: out.add(posixpath.basename(q))
        return sorted(out)
    def _mode(self, p):
        class S: pass
        s = S()
        if p in self.dirs: s.st_mode = _stat.S_IFDIR | 0o755
        elif p in self.files: s.st_mode = _stat.S_IFREG | 0o644
        else: raise OSError(errno.ENOENT, "no such file", p)
        return s
    def stat(self, p): return self._mode(self._res(p))
    def lstat(self, p):
        q = self._res(p, last=False)
        if q in self.links:
            class S: pass
            s = S(); s.st_mode = _stat.S_IFLNK | 0o777
            return s
        return self._mode(q)
    def open(self, p, mode="r", encoding=None):
        p = self._res(p)
        fs = self
        if "w" in mode:
            class W(io.StringIO):
                def close(w):
                    fs.files[p] = w.getvalue(); io.StringIO.close(w)
                def __exit__(w, *a): w.close()
            return W()
        if p not in self.files: raise IOError(errno.ENOENT, "no such file", p)
        return io.StringIO(self.files[p])

def install(mod, fs):
    """replace the os / io names looked up by stix2.datastore.filesystem"""
    class OSPath:
        join = staticmethod(posixpath.join); splitext = staticmethod(posixpath.splitext)
        dirname = staticmethod(posixpath.dirname)
        exists = staticmethod(fs.exists); isfile = staticmethod(fs.isfile); abspath = staticmethod(fs.abspath)
    class OS:
        path = OSPath; makedirs = staticmethod(fs.makedirs); listdir = staticmethod(fs.listdir); stat = staticmethod(fs.stat)
        lstat = staticmethod(fs.lstat)
    class IO:
        open = staticmethod(fs.open); StringIO = io.StringIO
    saved = (mod.os, mod.io)
    mod.os, mod.io = OS, IO
    return saved

