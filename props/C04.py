"""C04 -- custom content is admitted only on request and is always detected."""
from engine.spec import CH
from props import C02, C14

H = "props.h_C04"
F = ["stix2.base._STIXBase.__init__", "stix2.properties.ListProperty.clean", "stix2.properties.EmbeddedObjectProperty.clean",
     "stix2.properties.ExtensionsProperty.clean", "stix2.properties.HashesProperty.clean", "stix2.properties.ReferenceProperty.clean",
     "stix2.properties.ObservableProperty.clean", "stix2.properties.STIXObjectProperty.clean", "stix2.parsing.dict_to_stix2",
     "stix2.parsing.parse_observable"]
FMT = "message formatting of symbolic values is opaque text (CrossHair plugin)"

META = {
    "engines": ["crosshair"],
    "level_text": "Bounded symbolic model checking of custom-content propagation as a one-step inductive argument: every container cleaner "
                  "(ListProperty over objects and over properties, EmbeddedObjectProperty, ExtensionsProperty) is executed by CrossHair with "
                  "children whose custom flag is a symbolic bool (directly built state, or consistently built children carrying real custom content "
                  "where the cleaner re-constructs them), symbolic number/order of children and symbolic allow_custom: refused iff customization is "
                  "disallowed and some child is custom, otherwise the returned flag is exactly the disjunction; hash names (12 names x pairs) and "
                  "reference types (12 types x 7 configurations) over tables; the constructor engine's own flag (C02 engine obligations); "
                  "end-to-end: every single and every ordered pair of 34 injection sites (top level, embedded objects, registered/unregistered "
                  "extensions in both orders, hash dictionaries, references, observed-data and bundle members) on 7 base objects (incl. false-y custom values and 2.0 objects referring to 2.1-only types): strict parse "
                  "refuses, permissive parse accepts and has_custom is true exactly when a strict parse of the serialization is refused; unknown "
                  "types through parse (dict and text), MemoryStore and FileSystemStore with both switch settings.",
    "level_text_more": "Also: false-y custom values ('', {}, false, 0), 2.0 objects referring to 2.1-only types, and custom properties given as null/[] (dropped, hence not custom content) at 9 sites alone or next to each injection. Registered toplevel-property extensions are not custom content through 9 routes (parse, markings, deepcopy, new_version, instance re-parse, bundle member, constructor from the finished object's values). Rounds 5-6: 2.0 objects and embedded types with an 'extensions' member; custom content inside marking definitions; reserved member names at 16 sites; content carried by the properties of a registered toplevel extension; references given as object instances.",
    "level_note": "Whole-object flag equivalence is checked on the enumerated injection table only (selector-enumerated), not for all objects. "
                  "allow_custom forwarding to the parser at every store call site is the C14 forwarding obligation (shared).",
    "technique": "CrossHair symbolic execution of the real container cleaners with symbolic child flags (z3); solver-selected injection pairs through "
                 "the real parser with strict re-parse oracle; counterexamples replayed natively",
    "outside": ["objects and injection sites outside the tables", "custom vocabulary values (open vocabularies are not custom by library policy)"],
    "assumptions": [FMT],
}


def obligations(tier):
    t = 200 if tier == "quick" else 600
    obls = [
        CH("list_of_objects_propagates", H, "prop_list", t, functions=F[1:2], stubs=[FMT], bounds="1..3 children with symbolic custom flags, symbolic allow_custom"),
        CH("list_of_properties_propagates", H, "prop_list_of_props", t, functions=F[1:2] + F[5:6], stubs=[FMT], bounds="1..2 references, each custom or not (symbolic)"),
        CH("embedded_object_propagates", H, "prop_embedded", t, functions=F[2:3], stubs=[FMT], bounds="instance with symbolic flag, or dict with/without a custom property"),
        CH("extensions_propagate", H, "prop_extensions", t * 2, functions=F[3:4], stubs=[FMT],
           bounds="two registered extensions each clean/custom and each given as dict or ready-made instance, unregistered extension, extension-definition; both orders; symbolic allow_custom"),
        CH("hash_names", H, "prop_hashes", t, mode="E1s", functions=F[4:5], bounds="12 algorithm names (spec, library-known non-spec, unknown, case variants), singles and pairs"),
        CH("flag_iff_strict_reparse_refuses", H, "flag_iff_strict_refuses", t * 2, mode="E1s", functions=F,
           bounds="none, each single and each ordered pair (same base object) of 45 injection sites on 10 base objects (2.0 objects and embedded types with an extensions member, custom content inside marking definitions)"),
        CH("reserved_member_names_switch_nothing", H, "reserved_names", t, mode="E1s", functions=F[:1] + F[2:4],
           bounds="members named allow_custom / interoperability / custom_properties / _valid_refs at 16 sites (top level, embedded objects, extensions, marking definitions, bundle and observed-data members), alone or next to a custom property: strict parse refuses"),
        CH("dropped_custom_values_do_not_flag", H, "dropped_custom_values", t, mode="E1s", functions=F[:1],
           bounds="custom property given as null / [] at 9 sites (top level, embedded, extension, bundle and observed-data members), alone or next to each injection"),
        CH("registered_toplevel_extensions_not_custom", H, "toplevel_extension_routes", t, mode="E1s", functions=F[:1] + ["stix2.versioning.new_version", "stix2.base._STIXBase.__deepcopy__"],
           bounds="6 combinations of 3 registered extensions (two toplevel-property) x with/without a genuinely custom property x 9 routes (parse, add_markings, deepcopy, "
                  "new_version, parse of an instance, bundle member, constructor from the finished object's values strict and permissive, two marking steps)"),
        CH("content_carried_by_registered_toplevel_extension", H, "extension_carried", t, mode="E1s", functions=F[:1] + F[4:6],
           bounds="8 (property, clean value, custom value) cases for the properties a registered toplevel-property-extension defines (reference, list of references, hashes in two orders, embedded object, list of embedded objects, integer) x clean/custom x 3 host objects (SDO, SCO, SRO) x with/without a second extension property: strict refusal, flag, strict re-parse and the enclosing bundle's flag agree"),
        CH("extras_next_to_a_toplevel_extension", H, "extras_next_to_toplevel_extension", t, mode="E1s", functions=F[:1],
           bounds="an extension property and optionally a genuinely custom one, given as keywords / through custom_properties / one each way, next to a registered or an unregistered toplevel-property-extension on an SDO and an SCO: flag, strict re-parse verdict and presence of the values agree"),
        CH("references_given_as_objects", H, "references_by_instance", t, mode="E1s", functions=F[5:6],
           bounds="9 sites taking a reference (relationship ends, sighting, report / note lists, new_version) of both versions x the referred-to object a standard type or a registered custom type, given as the object and as its id: same strict verdict, flag and re-parse verdict"),
        CH("unknown_types_and_store_switch", H, "stores_and_unknown_types", t, mode="E1s", functions=F[8:10],
           bounds="16 documents (unregistered type alone / with an extension entry of each of 14 kinds: toplevel-property, property, new-sdo, new-sco, new-sro, empty, unknown, non-text and look-alike extension types, a key that is not an extension-definition id; custom property) x allow_custom x 4 entry points"),
    ]
    obls += [o for o in C02.obligations(tier) if o.name.startswith("constructor_engine") or o.name == "reference_property"]
    obls += [o for o in C14.obligations(tier) if o.name.startswith("forward_")]
    return obls
