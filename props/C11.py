"""C11 -- memory and filesystem stores agree with a plain list over any history."""
from engine.spec import CH, JOB

H = "props.h_C11"
F = ["stix2.datastore.memory._add", "stix2.datastore.memory._ObjectFamily.add", "stix2.datastore.memory.MemorySource.get",
     "stix2.datastore.memory.MemorySource.all_versions", "stix2.datastore.memory.MemorySource.query", "stix2.datastore.memory.MemorySink.save_to_file",
     "stix2.datastore.memory.MemorySource.load_from_file",
     "stix2.datastore.filesystem.FileSystemSink.add", "stix2.datastore.filesystem.FileSystemSink._check_path_and_write",
     "stix2.datastore.filesystem._timestamp2filename", "stix2.datastore.filesystem.FileSystemSource.get",
     "stix2.datastore.filesystem.FileSystemSource.all_versions", "stix2.datastore.filesystem.FileSystemSource.query",
     "stix2.datastore.filesystem._search_versioned", "stix2.datastore.filesystem._search_unversioned",
     "stix2.datastore.filesystem._is_versioned_type_dir", "stix2.datastore.filesystem._check_object_from_file"]
FSS = "os/io calls of stix2.datastore.filesystem and memory replaced by an in-memory file system with POSIX semantics (props/fakefs.py)"

META = {
    "engines": ["crosshair", "pysym"],
    "level_text": "Bounded model checking of the real MemoryStore and FileSystemStore (on an in-memory file-system stub) against a list model: every "
                  "history of 3 additions drawn from 4 ids (registered lower-case id, registered upper-case id, unregistered custom type kept as a "
                  "dictionary, STIX 2.0 object) x 3 versions, in rotating input forms (object, dict, list, bundle, JSON text), and every history "
                  "of 2 additions in every pair of input forms with an unversioned object present, with and without save/load of the memory "
                  "store; after each history get / all_versions / query (with and without filters) of both stores are compared with the model "
                  "by value. _ObjectFamily latest-tracking is checked over symbolic indices into a version table.",
    "level_text_more": 'Also: three additions from 5 modified texts lying within one millisecond (one respelled) for a registered and a dict-kept type through both stores and a composite; file-name injectivity decided by pysym for every pair of instants and for every pair of modified texts with 0..6 fraction digits. Latest-version tracking of the memory family and of the composite decided by pysym over symbolic modified texts (string order != instant order); an unversioned object of the same type as versioned ones; bundlified files. Rounds 5-6: the same long-lived stores answer every lookup and 5 queries before the first and after every addition; three starting layouts; loading into a non-empty store; versions named by the caller for content without spec_version; the store read through symbolic links; versions at the two readings of an ambiguous local time.',
    "level_note": "Histories are solver-selected and concretely executed (selector-enumerated). The file system is the in-memory stub (real OS file "
                  "system, encodings, concurrent writers outside the claim). Different spellings of one instant in dictionary-kept objects are "
                  "outside the claim.",
    "technique": "CrossHair-driven bounded enumeration of add histories on the real stores over an in-memory FS stub vs a list model; AST-to-SMT "
                 "interpretation (pysym, z3) of latest-version tracking, the composite's choice and file naming over symbolic timestamp texts; counterexamples replayed natively",
    "outside": ["real OS file system", "histories longer than 3", "timestamp texts with more than 6 fraction digits"],
    "assumptions": [FSS],
}


def obligations(tier):
    t = 300 if tier == "quick" else 1200
    obls = [CH("family_latest", H, "family", t, functions=F[1:2], bounds="three additions, modified texts from a 3-element table whose string order differs from the order of the instants (symbolic indices)")]
    for p in range(4):
        obls.append(CH("histories3_p%d" % p, H, "hist3", t, mode="E1s", functions=F, stubs=[FSS], env={"VERIF_PART": str(p)},
                       bounds="first add of id %d; 3 adds from 4 ids x 3 versions; input form rotates over object/dict/list/bundle/JSON text; the same stores answer every lookup and 5 queries before the first and after every addition; 3 starting layouts (nothing, empty type directories, an object in the old flat layout)" % p))
    for p in range(5):
        obls.append(CH("histories2_forms_p%d" % p, H, "hist2_forms", t, mode="E1s", functions=F, stubs=[FSS], env={"VERIF_PART": str(p)},
                       bounds="first add in form %d; 2 adds from 4 ids x 3 versions x 5 forms; unversioned object present; with/without save+load" % p))
    for q in range(10):
        obls.append(CH("versions_within_one_millisecond_p%d" % q, H, "submillisecond_versions", t, mode="E1s", functions=F + ["stix2.datastore.CompositeDataSource.get"],
                       stubs=[FSS], env={"VERIF_PART": str(q)},
                       bounds=("registered type" if q < 5 else "dict-kept type") + ", first input form %d" % (q % 5) + "; 3 additions from 5 modified texts (three instants "
                              "within one millisecond, one respelled, one later) x input forms; both stores: all_versions = distinct instants, get = greatest, query by "
                              "instant; composite over single-version sources"))
    obls.append(CH("ambiguous_local_time_versions", H, "ambiguous_local_versions", t, mode="E1s", functions=F[1:2] + ["stix2.datastore.memory._modified_instant", "stix2.utils.deduplicate"], stubs=[FSS],
                   bounds="two versions whose modified times are the two readings (fold 0 / 1) of one ambiguous local time, added in both orders, as objects and as dictionaries: both stores, a composite over two sources and deduplicate() keep two versions and answer get() with the later instant"))
    obls.append(JOB("latest_version_by_instant", "props.j_time", "job_family_latest", 600, functions=F[1:2] + ["stix2.utils.parse_into_datetime"],
                    bounds="two dict-kept versions in both orders: every pair of canonical modified texts with %s fraction digits (symbolic fields and digits)" % (
                        "8 combinations of 0..6" if tier == "quick" else "every combination of 0..6")))
    obls.append(JOB("composite_latest_by_instant", "props.j_time", "job_composite_latest", 600, functions=["stix2.datastore.CompositeDataSource.get", "stix2.utils.parse_into_datetime"],
                    stubs=["member sources answer get() with one stored dictionary (native stub)"],
                    bounds="three members answering with dict-kept versions: every triple of canonical modified texts with %s fraction-digit combinations" % (
                        "4" if tier == "quick" else "75")))
    obls.append(JOB("version_file_name_injective", "props.j_time", "job_filename_injective", 600, functions=F[9:10] + ["stix2.utils.format_datetime"],
                    stubs=["re.sub of a literal character class modelled as a character filter", "datetime model of props/j_time.py"],
                    bounds="two stored timestamps, all fields and microseconds symbolic, millisecond/min and millisecond/exact (thorough: also any) settings"))
    return obls
