"""C05 -- new versions are strictly newer, identity-preserving and exact."""
from engine.spec import CH, JOB

H = "props.h_C05"
F = ["stix2.versioning._fudge_modified", "stix2.versioning.new_version", "stix2.versioning.revoke", "stix2.versioning._check_versionable_object",
     "stix2.versioning._is_versionable_type", "stix2.versioning._get_stix_version"]
FMT = "message formatting of symbolic values is opaque text (CrossHair plugin)"
CLOCK = "stix2.versioning.get_timestamp replaced by a symbolic clock reading (arbitrary instant in the window)"
PID = ("stix2.versioning.parse_into_datetime replaced by its truncation model (unchanged for 'min', microseconds floored to ms for 'exact') -- "
       "justified by the C15 obligations on the real function; datetime.__new__ of STIXdatetime is C code CrossHair cannot trace")

META = {
    "engines": ["crosshair", "pysym"],
    "level_text": "Bounded symbolic model checking of the real versioning code with the wall clock as a symbolic variable: _fudge_modified for every "
                  "old/new instant in a 5 s window at 1 us resolution (both version modes); new_version/revoke on dictionaries with symbolic clock, "
                  "old modified, caller-supplied modified, revoked flag and a symbolic change set (ordinary, removal, new key, each unmodifiable "
                  "property incl. removal by None); chains of 3 operations with three independent symbolic clocks; SCO-locked properties; every "
                  "versionable class of both versions as real objects and as dictionaries under 8 clock offsets x 4 old instants (selector-enumerated); "
                  "precision wiring of every modified/created slot by z3.",
    "level_text_more": 'Also: 11 object-level and granular marking operations as versioning operations (8 clock offsets x 4 old instants x object/dict x 2.0/2.1 x revoked): strictly later modified, identity and non-marking content kept, original incl. its marking lists untouched, refused on revoked objects. Objects carrying custom content in 5 ways are versionable through 6 operations; object methods as well as module functions. Rounds 5-6: change sets through custom_properties; legal changes to other objects after every SCO case (no lock survives a call); content as dict / OrderedDict / dict subclass / UserDict x revoked shapes with and without `modified`.',
    "level_note": "Stubs: symbolic clock; truncation model for parse_into_datetime inside versioning (C15 justifies it); opaque message formatting. "
                  "Instants are bounded to a 2-5 s window at microsecond resolution (arithmetic is translation-invariant but that is not proved). "
                  "Real-object obligation is selector-enumerated over tables of offsets.",
    "technique": "CrossHair symbolic execution of the real versioning functions with a symbolic clock (z3); AST-to-SMT interpretation (pysym) of the timestamp writer; solver-selected enumeration over real objects and marking operations; counterexamples replayed natively",
    "outside": ["chains longer than 3", "instants outside the window", "marking operations in chains longer than one step (C07 covers sequences)"],
    "assumptions": [CLOCK, PID, FMT],
}


def obligations(tier):
    t = 300 if tier == "quick" else 1200
    obls = [
        CH("fudge_modified", H, "fudge", t, functions=F[:1], stubs=[FMT], bounds="old, new: every microsecond in a 5 s window; both version modes"),
        CH("new_version_dict", H, "nv_dict", t * 2, functions=F, stubs=[CLOCK, PID, FMT],
           bounds="clock, old modified, caller modified: every microsecond in a 3 s window; version, revoked flag symbolic; 9 change sets"),
        CH("sco_locked_properties", H, "sco_locked", t, mode="E1s", functions=F[1:2],
           bounds="a 2.1 File made versionable by custom created/modified/revoked, object and dict, UUIDv5 or explicit id x 6 properties (4 id-contributing, 2 of them absent) x alter / add / remove; after each call four legal changes to other objects (2.1, 2.0, dict, an explicit-id File) are still applied"),
        CH("mappings_and_revoked_content_without_modified", H, "mapping_forms", t * 2, mode="E1s", functions=F[1:3] + ["stix2.versioning._get_stix_version", "stix2.versioning._check_versionable_object"],
           bounds="content as dict / OrderedDict / dict subclass / UserDict x 2.1 / 2.0 x 8 clock offsets x 4 old instants x 4 revoked shapes (with and without 'modified') x new_version / revoke / add_markings"),
        CH("change_sets_through_custom_properties", H, "through_custom_properties", t, mode="E1s", functions=F[1:2] + ["stix2.base._STIXBase.__init__"],
           bounds="5 objects (2.1 / 2.0, with and without a creator, a versionable File with a deterministic id) x 10 properties named through new_version(custom_properties=...) (id, type, created, creator, older / equal modified, revoked, a custom name, id-contributing ones) x with/without an ordinary change"),
        CH("marking_operations_version", H, "marking_ops", t * 2, mode="E1s", functions=F + ["stix2.markings.object_markings.add_markings",
           "stix2.markings.object_markings.remove_markings", "stix2.markings.object_markings.clear_markings", "stix2.markings.granular_markings.add_markings",
           "stix2.markings.granular_markings.remove_markings", "stix2.markings.granular_markings.clear_markings"],
           bounds="11 object-level/granular marking operations x 8 clock offsets x 4 old modified values x object/dict x 2.0/2.1 x revoked or not, on a Malware that "
                  "already carries object and granular markings"),
        CH("custom_content_is_versionable", H, "custom_content_versions", t, mode="E1s", functions=F + ["stix2.base._STIXBase.__init__"],
           bounds="5 ways of carrying custom content (keyword, custom_properties, false-y only, parsed, embedded only) x 6 operations (new_version, revoke, removal of a "
                  "custom property, adding one, chain, after a marking operation) x 2.0/2.1"),
        CH("every_versionable_class", H, "real_objects", t * 2, mode="E1s", functions=F,
           bounds="every versionable class of both versions (live registry) x object/dict x 8 clock offsets x 4 old instants; new_version then revoke"),
        JOB("modified_precision_wiring", "props.j_tables", "job_modified_precision", 120, engine="smt",
            functions=["stix2.properties.TimestampProperty.__init__"], bounds="every modified/created slot of every versionable class (live tables)"),
    ]
    for p in range(8):
        obls.append(CH("chain3_p%d" % p, H, "chain", t, functions=F, stubs=[CLOCK, PID, FMT], env={"VERIF_PART": str(p)},
                       bounds="%d operations (quick 2, thorough 3), independent symbolic clocks in a 2 s window;" % (2 if tier == "quick" else 3) + " version %s, revoke at step %d (3 = never)" % (
                           "2.1" if p >= 4 else "2.0", p % 4)))
    from props import C15
    # "strictly later after serialization": the writer of timestamps is canonical and truncating for every value (shared with C15)
    obls += [o for o in C15.obligations(tier) if o.name == "format_is_canonical_truncated"]
    return obls
