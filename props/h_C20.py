"""C20 harnesses: confidence scales (stix2/confidence/scales.py) against a frozen copy of STIX 2.1 Appendix A."""
from stix2.confidence import scales

from engine.hlib import V, pick, Native

# Frozen copy of STIX 2.1 Appendix A (label, value, low, high) in increasing-confidence order.
SPEC = [
    ("none_low_med_high", scales.value_to_none_low_medium_high, scales.none_low_med_high_to_value,
     [("None", 0, 0, 0), ("Low", 15, 1, 29), ("Med", 50, 30, 69), ("High", 85, 70, 100)]),
    ("zero_ten", scales.value_to_zero_ten, scales.zero_ten_to_value,
     [("0", 0, 0, 4), ("1", 10, 5, 14), ("2", 20, 15, 24), ("3", 30, 25, 34), ("4", 40, 35, 44), ("5", 50, 45, 54),
      ("6", 60, 55, 64), ("7", 70, 65, 74), ("8", 80, 75, 84), ("9", 90, 85, 94), ("10", 100, 95, 100)]),
    ("admiralty", scales.value_to_admiralty_credibility, scales.admiralty_credibility_to_value,
     [("5 - Improbable", 10, 0, 19), ("4 - Doubtful", 30, 20, 39), ("3 - Possibly True", 50, 40, 59),
      ("2 - Probably True", 70, 60, 79), ("1 - Confirmed by other sources", 90, 80, 100)]),
    ("wep", scales.value_to_wep, scales.wep_to_value,
     [("Impossible", 0, 0, 0), ("Highly Unlikely/Almost Certainly Not", 10, 1, 19), ("Unlikely/Probably Not", 30, 20, 39),
      ("Even Chance", 50, 40, 59), ("Likely/Probable", 70, 60, 79), ("Highly likely/Almost Certain", 90, 80, 99),
      ("Certain", 100, 100, 100)]),
    ("dni", scales.value_to_dni, scales.dni_to_value,
     [("Almost No Chance / Remote", 5, 0, 9), ("Very Unlikely / Highly Improbable", 15, 10, 19),
      ("Unlikely / Improbable", 30, 20, 39), ("Roughly Even Chance / Roughly Even Odds", 50, 40, 59),
      ("Likely / Probable", 70, 60, 79), ("Very Likely / Highly Probable", 85, 80, 89),
      ("Almost Certain / Nearly Certain", 95, 90, 100)]),
]
NSC = len(SPEC)
LABELS = [{row[0]: row[1] for row in sc[3]} for sc in SPEC]
RANK = [{row[0]: i for i, row in enumerate(sc[3])} for sc in SPEC]


def spec_label(sc, v):
    for label, _val, lo, hi in SPEC[sc][3]:
        if lo <= v <= hi:
            return label
    return None


def warm_up(sc, warm):
    """a deterministic history before the call under test (every in-range value and every label converted once, a few refusals): the answer
    must be the same as in a fresh process.  Being part of the harness it is repeated by the replay, so a witness that needs it reproduces."""
    if not warm:
        return
    with Native():
        for w in list(range(101)) + [-1, 101]:
            try:
                SPEC[sc][1](w)
            except (ValueError, TypeError):
                pass
        for lab in list(LABELS[sc]) + ["bogus"]:
            try:
                SPEC[sc][2](lab)
            except (ValueError, TypeError):
                pass


def value_side(sc: int, v: int, warm: bool) -> bool:
    """
    pre: 0 <= sc < NSC
    pre: 0 <= v <= 100
    post: _
    """
    sc = pick(sc, NSC)
    warm_up(sc, warm)
    got = SPEC[sc][1](v)
    V.reached()
    return got == spec_label(sc, v)


def out_of_range(sc: int, v: int, warm: bool) -> bool:
    """
    pre: 0 <= sc < NSC
    pre: v < 0 or v > 100
    post: _
    """
    sc = pick(sc, NSC)
    warm_up(sc, warm)
    try:
        SPEC[sc][1](v)
    except ValueError:
        V.reached()
        return True
    V.reached()
    return False


def monotone(sc: int, a: int, b: int) -> bool:
    """
    pre: 0 <= sc < NSC
    pre: 0 <= a <= b <= 100
    post: _
    """
    sc = pick(sc, NSC)
    la = SPEC[sc][1](a)
    lb = SPEC[sc][1](b)
    V.reached()
    rank = RANK[sc]
    return rank[la] <= rank[lb]


def label_side(sc: int, s: str, warm: bool) -> bool:
    """
    pre: 0 <= sc < NSC
    pre: len(s) <= 40
    post: _
    """
    sc = pick(sc, NSC)
    warm_up(sc, warm)
    table = LABELS[sc]
    to_value, to_label = SPEC[sc][2], SPEC[sc][1]
    try:
        v = to_value(s)
    except ValueError:
        V.reached()
        return s not in table
    V.reached()
    return s in table and v == table[s] and to_label(v) == s


def label_roundtrip(sc: int, li: int) -> bool:
    """
    pre: 0 <= sc < NSC
    pre: 0 <= li < 11
    post: _
    """
    sc = pick(sc, NSC)
    rows = SPEC[sc][3]
    if li >= len(rows):
        return True
    li = pick(li, len(rows))
    label, val, lo, hi = rows[li]
    v = SPEC[sc][2](label)
    V.reached()
    return v == val and lo <= v <= hi and SPEC[sc][1](v) == label


def label_after_history(sc1: int, li: int, sc2: int, v: int) -> bool:
    """
    pre: 0 <= sc1 < NSC and 0 <= sc2 < NSC and 0 <= li < 11 and -2 <= v <= 102
    post: _
    """
    sc1, sc2 = pick(sc1, NSC), pick(sc2, NSC)
    rows = SPEC[sc1][3]
    if li >= len(rows):
        return True
    li = pick(li, len(rows))
    label = rows[li][0]
    # history: the label is converted by its own scale and an arbitrary value by the second scale ...
    SPEC[sc1][2](label)
    try:
        SPEC[sc2][1](v)
    except ValueError:
        pass
    # ... after which the second scale must still answer from its own table only
    table = LABELS[sc2]
    try:
        got = SPEC[sc2][2](label)
    except ValueError:
        V.reached()
        return label not in table
    V.reached()
    return label in table and got == table[label]


# ---- objects that are not labels at all (absent value, numbers, bytes, containers of a label): refused like any unknown label
NON_LABELS = [None, True, False, 0, 5, 5.0, b"Low", ["Low"], ("Low",), {"Low"}, {"Low": 1}, float("nan")]
NNL = len(NON_LABELS)


def non_label_objects(sc: int, oi: int) -> bool:
    """
    pre: 0 <= sc < NSC and 0 <= oi < NNL
    post: _
    """
    sc, oi = pick(sc, NSC), pick(oi, NNL)
    try:
        SPEC[sc][2](NON_LABELS[oi])
    except (ValueError, TypeError):
        V.reached()
        return True
    V.reached()
    return False


def value_after_history(sc: int) -> bool:
    """
    pre: 0 <= sc < NSC
    post: _
    """
    sc = pick(sc, NSC)
    to_label = SPEC[sc][1]
    ok = True
    with Native():
        # history: one conversion of v1 on the same scale first; the answer for every v2 must then be the table's, whatever came before.
        # Both loops run inside the harness, in a fixed order, so that a witness does not depend on what other paths did to the process.
        for v1 in list(range(-103, 104)):
            for v2 in list(range(-103, 104)) + [-202, 202, 10 ** 6, -10 ** 6]:
                try:
                    to_label(v1)
                except ValueError:
                    pass
                try:
                    got = to_label(v2)
                    ok = ok and 0 <= v2 <= 100 and got == spec_label(sc, v2)
                except ValueError:
                    ok = ok and not (0 <= v2 <= 100)
    V.reached()
    return ok


POOL_EXTRA = ["bogus", "", "None", "none", "6 - Truth cannot be judged", "LOW", "low", "11", "-1", "05", " Low", "Certain "]


def label_pairs(sc: int) -> bool:
    """
    pre: 0 <= sc < NSC
    post: _
    """
    sc = pick(sc, NSC)
    to_value = SPEC[sc][2]
    table = LABELS[sc]
    pool = sorted({row[0] for spec in SPEC for row in spec[3]}) + POOL_EXTRA
    ok = True
    with Native():
        # two (three) label conversions in a row on the same scale -- also the same unknown label twice: every answer is the table's
        for l1 in pool:
            for l2 in pool:
                for seq in ((l1, l2), (l1, l2, l2)):
                    for lab in seq:
                        try:
                            got = to_value(lab)
                            ok = ok and lab in table and got == table[lab]
                        except ValueError:
                            ok = ok and lab not in table
    V.reached()
    return ok
