"""C03 -- every specification-valid object is accepted and its content preserved."""
from engine.spec import CH, JOB
from props import C02

H = "props.h_C03"
F = ["stix2.parsing.parse", "stix2.parsing.dict_to_stix2", "stix2.parsing.parse_observable", "stix2.base._STIXBase.__init__",
     "stix2.base._STIXBase._check_property", "stix2.utils.parse_into_datetime", "stix2.markings.utils.validate",
     "stix2.serialization.STIXJSONIncludeOptionalDefaultsEncoder.default"]
MODEL = C02.MODEL

META = {
    "engines": ["crosshair", "pysym"],
    "level_text": "Bounded model checking of acceptance and preservation: (a) the converse direction of the C02 clean() obligations -- every legal "
                  "value (every in-range unbounded int incl. 0, False, every string incl. '', every vocabulary entry) is returned unchanged; "
                  "(b) the slot model compared by z3 in the spec-accepts/impl-refuses direction for every one of ~1350 slots; (c) for every "
                  "SDO/SRO/SCO class of both versions, every embedded type and every 2.1 extension, every slot is given each legal value class of "
                  "the FROZEN model (boundary and falsy numbers, '', Unicode, every vocabulary entry, every legal reference target type, timestamp "
                  "fraction lengths allowed by the slot's precision, year 999, dictionary keys at the length bounds with falsy values) and a "
                  "granular marking addressing every present property: strict parse must accept and re-serialization with optional defaults must "
                  "reproduce every input value (timestamps as instants), adding only defaulted optionals; the same inside bundles and 2.0 "
                  "observed-data containers with forward and backward references; (d) parse_into_datetime interpreted symbolically (pysym) on every "
                  "canonical timestamp text with 0-9 fractional digits.",
    "level_text_more": 'Also: every co-constraint harness of C02 in the accepting direction; 7 documents with 12-element lists, 11 embedded objects and sibling dictionary keys that extend one another, with every JSON path as the single granular selector (marking-ref and lang, alone and in a bundle). 2.1 indicators in each of the 6 pattern languages with and without pattern_version. Rounds 5-6: the largest integers of each spec version; contents of marking definitions (empty statement, TLP, extension-defined).',
    "level_note": "Validity of a generated document is taken from the frozen model; a slot is exercised only if the base object accepts an ordinary "
                  "value there (co-constraints are not modelled generically), so rejections caused purely by a co-constraint are not detected here. "
                  "Class x slot tables are selector-enumerated. Open finding C03-frac7 excludes timestamps with 7 or more fractional digits.",
    "technique": "CrossHair-driven enumeration of (class, slot, legal value class) through the real strict parser with value preservation oracle, "
                 "SMT slot-model comparison, AST-to-SMT interpretation of timestamp parsing; counterexamples replayed natively",
    "outside": ["documents valid only through co-constraint interplay", "language-content contents", "STIX pattern texts other than one fixed literal"],
    "assumptions": [MODEL],
}


def obligations(tier):
    t = 200 if tier == "quick" else 600
    keep = ("integer_property", "float_property", "boolean_property", "string_property", "enum_openvocab_property", "list_property", "slot_model",
            "strict_id_language")
    obls = [o for o in C02.obligations(tier) if o.name in keep or o.name.startswith("cc_")]      # cc_*: satisfied co-constraints are accepted (both directions asserted)
    for p in range(8):
        obls.append(CH("slots_accept_legal_values_p%d" % p, H, "slots_accept_legal_values", t, mode="E1s", functions=F, stubs=[MODEL], env={"VERIF_PART": str(p)},
                       bounds="classes with index %% 8 == %d of 59 (SDO/SRO/SCO of both versions) x every slot x legal value classes of the frozen model; granular markings on every property" % p))
        obls.append(CH("embedded_and_extension_slots_p%d" % p, H, "embedded_slots", t, mode="E1s", functions=F, stubs=[MODEL], env={"VERIF_PART": str(p)},
                       bounds="embedded-type sites and 2.1 extensions with index %% 8 == %d of 119 x every slot x legal value classes" % p))
        obls.append(CH("containers_p%d" % p, H, "containers", t, mode="E1s", functions=F, env={"VERIF_PART": str(p)},
                       bounds="every SDO/SRO class inside a bundle; 4 observed-data 2.0 containers with forward/backward references, alone and in a bundle (index %% 8 == %d)" % p))
    obls.append(CH("marking_definition_contents", H, "marking_contents", t, mode="E1s", functions=F[:2] + ["stix2.v21.common.StatementMarking.__init__", "stix2.v20.common.StatementMarking.__init__"],
                   bounds="22 marking definitions of both versions (statements incl. the empty string, the four TLP markings, 2.1 extension-defined) x alone / in a bundle"))
    obls.append(CH("granular_markings_deep_selectors", H, "deep_selectors", t, mode="E1s", functions=F + ["stix2.markings.utils.validate", "stix2.markings.utils._evaluate_expression",
                   "stix2.markings.utils.iterpath"], bounds="7 documents (12-element lists, 11 embedded objects, sibling dictionary keys that extend one another, nested "
                   "extensions, 2.0 observed-data members) x every JSON path of the document as the single selector, marking-ref and lang, alone and in a bundle"))
    obls.append(CH("extension_entries_and_hash_vocabulary", H, "extension_entries_and_hashes", t, mode="E1s", functions=F + ["stix2.base._STIXBase.__init__",
                   "stix2.v21.common.ExternalReference._check_object_constraints"],
                   bounds="5 documents (SDO with unregistered toplevel + property extensions in either order, SCO with a registered extension next to them, artifact, "
                          "external references, PE binary extension) x each of the 8 hash algorithms alone and all together, in every place that takes hashes x alone / in a bundle"))
    obls.append(CH("indicator_pattern_languages", H, "indicator_pattern_languages", t, mode="E1s", functions=F + ["stix2.v21.sdo.Indicator.__init__"],
                   bounds="6 pattern languages of the vocabulary x pattern_version given or not x alone / in a bundle: accepted, preserved, nothing added but the STIX pattern version"))
    obls.append(JOB("timestamp_texts_accepted", "props.j_time", "job_accepts", 600, functions=F[5:6], finding="C03-frac7",
                    bounds="every canonical timestamp text with no fraction or 1..9 fractional digits, symbolic fields and digits, 3x2 precision settings"))
    return obls
