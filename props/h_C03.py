"""C03 harnesses: every specification-valid object is accepted and its content preserved."""
import json

import stix2
from stix2 import properties as P
from stix2.exceptions import STIXError

from engine.hlib import K, Native, Part, TIER, V, pick, pickb
from props import gen, specmodel

PARTNO = Part.index
NPARTS = 8
M1 = "marking-definition--613f2e26-407d-48c7-9eca-b8e91df99dc9"
_MODEL = specmodel.frozen_model()
GOOD, _SK = gen.buildable()
CLASSES = [(ver, cat, name, cls, kw) for (ver, cat, name, cls, kw) in GOOD if cat in ("objects", "observables") and not (cat == "observables" and ver == "2.0")]


def base_doc(cls, kw):
    return json.loads(cls(**kw).serialize())


def variants(name, desc, ver):
    """legal values of the slot per the FROZEN model (value classes the property statement lists)"""
    k = desc["kind"]
    if "fixed" in desc:
        return [desc["fixed"]]
    if k in ("StringProperty",):
        if name in ("pattern_version", "lang", "pattern", "name", "extension_type", "version", "schema", "key", "definition_type"):
            return []
        return ["", "x", "é\U0001F600 \"q\"\\ \n"]
    if k == "IntegerProperty":
        lo, hi = desc.get("min"), desc.get("max")
        out = {lo if lo is not None else 0, hi if hi is not None else 7, 0 if (lo is None or lo <= 0) and (hi is None or hi >= 0) else (lo or 0)}
        if hi is None:
            # the largest integers of the version: 64-bit in STIX 2.0, +-(2^53 - 1) in STIX 2.1 (and 2^53 itself, which the library also takes)
            out |= {2 ** 63 - 1, 2 ** 53, 2 ** 53 - 1} if ver == "2.0" else {2 ** 53 - 1, 2 ** 53}
        if lo is None:
            out |= {-(2 ** 63), -(2 ** 53)} if ver == "2.0" else {-(2 ** 53) + 1}
        return sorted(out)
    if k == "FloatProperty":
        lo, hi = desc.get("min"), desc.get("max")
        return sorted({float(lo) if lo is not None else 0.0, float(hi) if hi is not None else 1.5, 0.0 if (lo is None or lo <= 0) and (hi is None or hi >= 0) else float(lo)})
    if k == "BooleanProperty":
        return [False, True]
    if k == "TimestampProperty":
        if desc.get("precision") == "millisecond" and desc.get("constraint") == "exact":
            return ["2020-01-01T00:00:00.000Z", "2020-01-01T00:00:00.120Z", "0999-12-31T23:59:59.999Z"]      # exactly three digits are legal here
        if desc.get("precision") == "millisecond":
            return ["2020-01-01T00:00:00.000Z", "2020-01-01T00:00:00.120Z", "2020-01-01T00:00:00.123456Z", "0999-12-31T23:59:59.999Z"]
        return ["2020-01-01T00:00:00Z", "2020-01-01T00:00:00.1Z", "2020-01-01T00:00:00.120Z", "2020-01-01T00:00:00.123456Z", "0999-12-31T23:59:59.999Z"]
    if k == "EnumProperty":
        return list(desc["allowed"])
    if k == "OpenVocabProperty":
        return list(desc["allowed"])[:3] + ["some-other-value"]
    if k == "ReferenceProperty":
        out = []
        types = list(desc["specifics"])
        if "SDO" in desc["generics"]:
            types += ["identity", "malware", "vulnerability"]
        if "SCO" in desc["generics"]:
            types += ["file", "ipv4-addr", "url"]
        if "SRO" in desc["generics"]:
            types += ["relationship", "sighting"]
        if desc["auth"] == "black":
            types = [t for t in ("identity", "file", "relationship", "indicator") if t not in desc["specifics"]]
        for t in types:
            out.append("%s--%s" % (t, gen.UU))
        return out
    if k == "DictionaryProperty":
        keys = ["abc", "a" * 250, "A_b-9"] + ([] if ver == "2.0" else ["a"])
        return [{key: v} for key in keys for v in (0, "", False, "x")][:8]
    if k == "HexProperty":
        return ["0a", "0A1b"]
    if k == "BinaryProperty":
        return ["YWJj", "YQ=="]
    if k == "ListProperty":
        c = desc["contained"]
        if c.get("kind") == "object":
            return []
        inner = variants(name, c, ver)
        return [[v] for v in inner[:4]] + ([inner[:2]] if len(inner) >= 2 else [])
    return []


def preserved(inp, out, path="$"):
    """every input property is in the output with the same value (timestamps as the same instant)"""
    if isinstance(inp, dict):
        if not isinstance(out, dict):
            return False
        return all(k in out and preserved(v, out[k], path + "." + k) for k, v in inp.items())
    if isinstance(inp, list):
        return isinstance(out, list) and len(inp) == len(out) and all(preserved(a, b, path) for a, b in zip(inp, out))
    if isinstance(inp, str) and isinstance(out, str) and specmodel._TS.match(inp) and specmodel._TS.match(out):
        return stix2.utils.parse_into_datetime(inp) == stix2.utils.parse_into_datetime(out)
    if isinstance(inp, bool) or isinstance(out, bool):
        return inp is out
    return inp == out


def accepted_and_preserved(doc, ver, cat):
    try:
        o = stix2.parse(doc, allow_custom=False, version=ver) if cat == "objects" else stix2.parse_observable(doc, allow_custom=False, version=ver)
    except (STIXError, ValueError, TypeError):
        return False
    out = json.loads(o.serialize(include_optional_defaults=True))
    if not preserved(doc, out):
        return False
    extra = set(out) - set(doc)
    cls = type(o)
    for k in extra:
        prop = cls._properties.get(k)
        if prop is None or not hasattr(prop, "default"):
            return False                         # only optional properties at their default value may be added
    return True


NCLS = len(CLASSES)


def slots_accept_legal_values(ci: int) -> bool:
    """
    pre: 0 <= ci < NCLS and ci % NPARTS == PARTNO
    post: _
    """
    ci = pick(ci, NCLS)
    with Native():
        ok = run_class_case(ci) is True
    V.reached()
    return ok


def run_class_case(ci):
    ver, cat, name, cls, kw = CLASSES[ci]
    base = base_doc(cls, kw)
    if not accepted_and_preserved(base, ver, cat):
        return ("base", name)
    fz = _MODEL[ver][cat][name]
    for pname, desc in fz["props"].items():
        if pname in ("type", "id", "spec_version", "granular_markings", "extensions", "objects"):
            continue
        vs = variants(pname, desc, ver)
        if not vs:
            continue
        # the slot is exercised only if the base object accepts an ordinary value there (otherwise a co-constraint is in the way)
        ordinary = gen.value_for(pname, cls._properties[pname], ver) if pname in cls._properties else None
        if pname in base:
            ordinary = base[pname]
        if ordinary is None:
            continue
        try:
            probe = dict(base)
            probe[pname] = ordinary
            if not accepted_and_preserved(probe, ver, cat):
                continue
        except Exception:  # noqa: BLE001
            continue
        for v in vs:
            if name == "marking-definition" and ver == "2.0" and pname == "created":
                continue                         # 2.0 marking definitions keep the precision as written (3 digits at most)
            if desc["kind"] == "TimestampProperty" and pname in ("modified", "last_seen", "valid_until", "last_observed", "stop_time", "end", "first_observed",
                                                                 "first_seen", "valid_from", "start", "start_time"):
                continue                         # ordering co-constraints against a sibling timestamp
            if desc["kind"] == "TimestampProperty" and v.startswith("0999") and pname not in ("created",):
                continue
            doc = dict(base)
            doc[pname] = v
            if pname == "created" and "modified" in doc:
                doc["modified"] = "2021-01-01T00:00:00.000Z"
            if not accepted_and_preserved(doc, ver, cat):
                return (ver, name, pname, v)
    # granular markings addressing every present property (incl. falsy-valued ones)
    if "granular_markings" in fz["props"]:
        doc = dict(base)
        for pname, desc in fz["props"].items():
            if desc["kind"] == "BooleanProperty" and pname not in doc and pname != "revoked":
                doc[pname] = False
            if desc["kind"] == "IntegerProperty" and pname not in doc and (desc.get("min") is None or desc["min"] <= 0) and pname == "confidence":
                doc[pname] = 0
        if "description" in fz["props"]:
            doc["description"] = ""
        if not accepted_and_preserved(doc, ver, cat):
            return True                          # co-constraint in the way of the enriched object: nothing to check
        sels = [k for k in doc if k not in ("granular_markings",)]
        for k in list(sels):
            if isinstance(doc[k], list):
                sels += ["%s.[%d]" % (k, i) for i in range(len(doc[k]))]
        doc["granular_markings"] = [{"marking_ref": M1, "selectors": sels}]
        if not accepted_and_preserved(doc, ver, cat):
            return (ver, name, "granular_markings", sels)
    return True


# ---- containers: inside a bundle, and as elements of an observed-data container (forward and backward references)
def containers(i: int) -> bool:
    """
    pre: 0 <= i < NCLS + 4 and i % NPARTS == PARTNO
    post: _
    """
    i = pick(i, NCLS + 4)
    with Native():
        ok = run_container_case(i)
    V.reached()
    return ok


def run_container_case(i):
    if i < NCLS:
        ver, cat, name, cls, kw = CLASSES[i]
        if cat != "objects" or name == "bundle":
            return True
        member = base_doc(cls, kw)
        b = {"type": "bundle", "id": "bundle--" + gen.UU, "objects": [member]}
        if ver == "2.0":
            b["spec_version"] = "2.0"
        try:
            o = stix2.parse(b, allow_custom=False)
        except (STIXError, ValueError, TypeError, KeyError):
            return False
        out = json.loads(o.serialize(include_optional_defaults=True))
        return preserved(b, out) and type(o["objects"][0]) is cls
    j = i - NCLS
    objs = [
        {"0": {"type": "file", "name": "f", "parent_directory_ref": "1"}, "1": {"type": "directory", "path": "p"}},                 # forward reference
        {"0": {"type": "directory", "path": "p", "contains_refs": ["1", "2"]}, "1": {"type": "file", "name": "a"}, "2": {"type": "file", "name": ""}},
        {"1": {"type": "directory", "path": "p"}, "0": {"type": "file", "name": "f", "parent_directory_ref": "1", "size": 0, "is_encrypted": False}},
        {"0": {"type": "email-message", "is_multipart": False, "from_ref": "1", "to_refs": ["1"]}, "1": {"type": "email-addr", "value": "a@b.c"}},
    ][j]
    od = {"type": "observed-data", "id": "observed-data--" + gen.UU, "created": "2020-01-01T00:00:00.000Z", "modified": "2020-01-01T00:00:00.000Z",
          "first_observed": "2020-01-01T00:00:00Z", "last_observed": "2020-01-01T00:00:00Z", "number_observed": 1, "objects": objs}
    for wrap in (False, True):
        doc = {"type": "bundle", "id": "bundle--" + gen.UU, "spec_version": "2.0", "objects": [od]} if wrap else od
        try:
            o = stix2.parse(doc, allow_custom=False, version=None if wrap else "2.0")
        except (STIXError, ValueError, TypeError):
            return False
        if not preserved(doc, json.loads(o.serialize(include_optional_defaults=True))):
            return False
    return True


# ---- slots of embedded types and extensions, exercised inside a host object
HOSTS = {"ntfs-ext": "file", "raster-image-ext": "file", "pdf-ext": "file", "archive-ext": "file", "windows-pebinary-ext": "file",
         "http-request-ext": "network-traffic", "icmp-ext": "network-traffic", "socket-ext": "network-traffic", "tcp-ext": "network-traffic",
         "windows-process-ext": "process", "windows-service-ext": "process", "unix-account-ext": "user-account"}
EXTS = [(ver, name, cls, kw) for (ver, cat, name, cls, kw) in GOOD if cat == "extensions" and ver == "2.1" and name in HOSTS]
EMBEDDED = []          # (version, host class index, property, embedded class name, is_list)
for _i, (_ver, _cat, _name, _cls, _kw) in enumerate(CLASSES):
    for _p, _d in _MODEL[_ver][_cat][_name]["props"].items():
        if _d["kind"] == "EmbeddedObjectProperty":
            EMBEDDED.append((_ver, _i, _p, _d["class"], False))
        elif _d["kind"] == "ListProperty" and _d["contained"].get("kind") == "object":
            EMBEDDED.append((_ver, _i, _p, _d["contained"]["class"], True))
NEMB = len(EMBEDDED) + len(EXTS)


def embedded_slots(i: int) -> bool:
    """
    pre: 0 <= i < NEMB and i % NPARTS == PARTNO
    post: _
    """
    i = pick(i, NEMB)
    with Native():
        ok = run_embedded_case(i) is True
    V.reached()
    return ok


def _vary(ver, desc_props, live_cls, base_inner, rebuild):
    for pname, desc in desc_props.items():
        vs = variants(pname, desc, ver)
        if not vs or pname in ("extension_type",):
            continue
        ordinary = base_inner.get(pname)
        if ordinary is None and pname in live_cls._properties:
            ordinary = gen.value_for(pname, live_cls._properties[pname], ver)
        if ordinary is None:
            continue
        doc, cat = rebuild(dict(base_inner, **{pname: ordinary}))
        if not accepted_and_preserved(doc, ver, cat):
            continue
        for v in vs:
            if desc["kind"] == "TimestampProperty" and not v.startswith("2020-01-01T00:00:00.0") and not v == "2020-01-01T00:00:00Z":
                continue
            doc, cat = rebuild(dict(base_inner, **{pname: v}))
            if not accepted_and_preserved(doc, ver, cat):
                return (pname, v)
    return True


def run_embedded_case(i):
    if i < len(EMBEDDED):
        ver, ci, prop, ecls_name, is_list = EMBEDDED[i]
        _v, cat, name, cls, kw = CLASSES[ci]
        base = base_doc(cls, kw)
        p = cls._properties[prop]
        ecls = p.contained if is_list else p.type
        try:
            inner = json.loads(ecls(**gen.minimal(ecls, ver)).serialize())
        except Exception:  # noqa: BLE001
            return True

        def rebuild(x):
            d = dict(base)
            d[prop] = [x] if is_list else x
            return d, cat
        d0, _ = rebuild(inner)
        if not accepted_and_preserved(d0, ver, cat):
            return True                            # co-constraint of the host in the way
        r = _vary(ver, _MODEL[ver]["embedded"][ecls_name]["props"], ecls, inner, rebuild)
        return True if r is True else (ver, name, prop) + r
    ver, ename, ecls, ekw = EXTS[i - len(EMBEDDED)]
    host = HOSTS[ename]
    hcls = stix2.registry.STIX2_OBJ_MAPS[ver]["observables"][host]
    hkw = [kw for (v, c, n, cl, kw) in CLASSES if v == ver and n == host][0]
    base = base_doc(hcls, hkw)
    inner = json.loads(ecls(**ekw).serialize())

    def rebuild(x):
        d = dict(base)
        d["extensions"] = {ename: x}
        return d, "observables"
    d0, _ = rebuild(inner)
    if not accepted_and_preserved(d0, ver, "observables"):
        return (ver, ename, "base")
    r = _vary(ver, _MODEL[ver]["extensions"][ename]["props"], ecls, inner, rebuild)
    return True if r is True else (ver, ename) + r


# ---- granular markings: every path of documents with long lists and sibling keys that extend one another
def _paths(j, prefix=""):
    out = []
    if isinstance(j, dict):
        for k, v in j.items():
            p = prefix + "." + k if prefix else k
            out.append(p)
            out.extend(_paths(v, p))
    elif isinstance(j, list):
        for i, v in enumerate(j):
            p = "%s.[%d]" % (prefix, i)
            out.append(p)
            out.extend(_paths(v, p))
    return out


def _deep_docs():
    UU = gen.UU
    common21 = {"spec_version": "2.1", "created": "2020-01-01T00:00:00.000Z", "modified": "2020-01-01T00:00:00.000Z"}
    mal = dict(common21, type="malware", id="malware--" + UU, name="", is_family=False, labels=["l%d" % i for i in range(12)],
               external_references=[{"source_name": "s%d" % i, "external_id": str(i), "hashes": {"MD5": "0" * 32}} for i in range(11)],
               kill_chain_phases=[{"kill_chain_name": "k", "phase_name": "p"}] * 2)
    rep = dict(common21, type="report", id="report--" + UU, name="r", published="2020-01-01T00:00:00Z",
               object_refs=["indicator--%s" % UU] + ["malware--%s" % UU] * 11)
    nt = {"type": "network-traffic", "spec_version": "2.1", "id": "network-traffic--" + UU, "protocols": ["tcp", "http"], "src_ref": "ipv4-addr--" + UU,
          "is_active": False, "end": "2020-01-01T00:00:00Z", "src_port": 0,
          "extensions": {"http-request-ext": {"request_method": "get", "request_value": "/", "request_header": {"Accept": ["a", "b"], "Accept-Encoding": ["g"],
                                                                                                                  "Accept-": ["x"], "A": ["y"]}}}}
    em = {"type": "email-message", "spec_version": "2.1", "id": "email-message--" + UU, "is_multipart": False, "subject": "",
          "received_lines": ["r%d" % i for i in range(12)], "additional_header_fields": {"X": ["a"], "X-Y": ["b"], "X-Y-Z": ["c", "d"]}}
    f = {"type": "file", "spec_version": "2.1", "id": "file--" + UU, "name": "f", "size": 0,
         "extensions": {"ntfs-ext": {"sid": "s", "alternate_data_streams": [{"name": "a%d" % i, "size": 0} for i in range(11)]},
                        "windows-pebinary-ext": {"pe_type": "exe", "sections": [{"name": "s%d" % i, "entropy": 0.0} for i in range(11)]}}}
    od20 = {"type": "observed-data", "id": "observed-data--" + UU, "created": "2020-01-01T00:00:00.000Z", "modified": "2020-01-01T00:00:00.000Z",
            "first_observed": "2020-01-01T00:00:00Z", "last_observed": "2020-01-01T00:00:00Z", "number_observed": 1,
            "objects": {"0": {"type": "email-message", "is_multipart": False, "received_lines": ["r%d" % i for i in range(11)]},
                        "1": {"type": "file", "name": "", "size": 0}, "10": {"type": "mutex", "name": "m"}}}
    ind20 = {"type": "indicator", "id": "indicator--" + UU, "created": "2020-01-01T00:00:00.000Z", "modified": "2020-01-01T00:00:00.000Z",
             "pattern": "[a:b = 1]", "valid_from": "2020-01-01T00:00:00Z", "labels": ["x"] * 11, "revoked": False}
    return [("2.1", mal), ("2.1", rep), ("2.1", nt), ("2.1", em), ("2.1", f), ("2.0", od20), ("2.0", ind20)]


DEEP = [(ver, doc, _paths(doc)) for ver, doc in _deep_docs()]
NDEEP = len(DEEP)
MAXDEEP = max(len(p) for _, _, p in DEEP)


def deep_selectors(di: int, si: int, lang: bool) -> bool:
    """
    pre: 0 <= di < NDEEP and 0 <= si < MAXDEEP
    post: _
    """
    di = pick(di, NDEEP)
    if si >= len(DEEP[di][2]):
        return True
    si, lang = pick(si, len(DEEP[di][2])), pickb(lang)
    with Native():
        ok = run_deep_case(di, si, lang)
    V.reached()
    return ok


def run_deep_case(di, si, lang):
    ver, doc, paths = DEEP[di]
    if lang and ver == "2.0":
        return True
    sel = paths[si]
    gm = {"lang": "fr", "selectors": [sel]} if lang else {"marking_ref": M1, "selectors": [sel]}
    d = dict(doc, granular_markings=[gm])
    if not accepted_and_preserved(d, ver, "objects"):
        return False
    b = {"type": "bundle", "id": "bundle--" + gen.UU, "objects": [d]}
    if ver == "2.0":
        b["spec_version"] = "2.0"
    try:
        o = stix2.parse(b, allow_custom=False)
    except (STIXError, ValueError, TypeError):
        return False
    return preserved(b, json.loads(o.serialize(include_optional_defaults=True)))


# ---- indicators in every pattern language of the vocabulary (the pattern text itself is opaque for the non-STIX languages)
PATTERN_LANGS = [("stix", "[a:b = 1]"), ("snort", "alert tcp any any -> any any (msg:\"m\"; sid:1;)"), ("suricata", "alert http any any -> any any (sid:2;)"),
                 ("yara", "rule r { condition: true }"), ("pcre", "^a+$"), ("sigma", "title: t")]
NPL = len(PATTERN_LANGS)


def indicator_pattern_languages(pi: int, has_ver: bool, wrap: bool) -> bool:
    """
    pre: 0 <= pi < NPL
    post: _
    """
    pi, has_ver, wrap = pick(pi, NPL), pickb(has_ver), pickb(wrap)
    with Native():
        ok = run_pattern_lang_case(pi, has_ver, wrap)
    V.reached()
    return ok


def run_pattern_lang_case(pi, has_ver, wrap):
    """a 2.1 indicator is valid with any pattern_type of the vocabulary, with or without pattern_version; re-serialization adds nothing that
    was not given except pattern_version for the STIX language, whose version the specification ties to the object's spec version"""
    lang, text = PATTERN_LANGS[pi]
    d = {"type": "indicator", "spec_version": "2.1", "id": "indicator--" + gen.UU, "created": "2020-01-01T00:00:00.000Z", "modified": "2020-01-01T00:00:00.000Z",
         "pattern": text, "pattern_type": lang, "valid_from": "2020-01-01T00:00:00Z"}
    if has_ver:
        d["pattern_version"] = "2.1" if lang == "stix" else "1.0"
    doc = {"type": "bundle", "id": "bundle--" + gen.UU, "objects": [d]} if wrap else d
    try:
        o = stix2.parse(doc, allow_custom=False)
    except (STIXError, ValueError, TypeError):
        return False
    out = json.loads(o.serialize())
    if wrap:
        out = out["objects"][0]
    if not preserved(d, out):
        return False
    extra = set(out) - set(d)
    return extra <= ({"pattern_version"} if lang == "stix" else set()) and (lang != "stix" or out.get("pattern_version") == "2.1")


# ---- several extension entries in either order; hash dictionaries with every algorithm of the vocabulary in every place that takes them
HASH21 = {"MD5": "0" * 32, "SHA-1": "0" * 40, "SHA-256": "0" * 64, "SHA-512": "0" * 128, "SHA3-256": "0" * 64, "SHA3-512": "0" * 128,
          "SSDEEP": "3:AXGBicFlgVNhBGcL6wCrFQEv:AXGHsNhxLsr2C", "TLSH": "0" * 70}
HASH_KEYS = list(HASH21)
TOP_EXT = "extension-definition--12121212-f010-4473-83ec-1edf84858f4c"
PROP_EXT = "extension-definition--34343434-f010-4473-83ec-1edf84858f4c"


def extension_entries_and_hashes(kind: int, hi: int, order: int, wrap: bool) -> bool:
    """
    pre: 0 <= kind <= 4 and 0 <= hi <= 8 and 0 <= order <= 1
    post: _
    """
    kind, hi, order, wrap = pick(kind, 5), pick(hi, 9), pick(order, 2), pickb(wrap)
    with Native():
        ok = run_ext_hash_case(kind, hi, order, wrap)
    V.reached()
    return ok


def run_ext_hash_case(kind, hi, order, wrap):
    hashes = dict(HASH21) if hi == 8 else {HASH_KEYS[hi]: HASH21[HASH_KEYS[hi]]}
    common = {"spec_version": "2.1", "created": "2020-01-01T00:00:00.000Z", "modified": "2020-01-01T00:00:00.000Z"}
    ents = [(TOP_EXT, {"extension_type": "toplevel-property-extension"}), (PROP_EXT, {"extension_type": "property-extension", "q": 1})]
    if order:
        ents.reverse()
    if kind == 0:      # SDO with an unregistered toplevel-property extension (contributing ext_rank) next to an unregistered property extension
        d = dict(common, type="identity", id="identity--" + gen.UU, name="n", identity_class="individual", ext_rank=5, extensions=dict(ents),
                 external_references=[{"source_name": "s", "description": "", "hashes": hashes}])
    elif kind == 1:    # SCO: registered extension next to the unregistered ones
        d = {"type": "file", "spec_version": "2.1", "id": "file--" + gen.UU, "name": "f", "hashes": hashes, "ext_rank": 5,
             "extensions": dict(ents + [("ntfs-ext", {"sid": "s", "alternate_data_streams": [{"name": "a", "hashes": hashes}]})])}
    elif kind == 2:
        d = {"type": "artifact", "spec_version": "2.1", "id": "artifact--" + gen.UU, "url": "http://x", "hashes": hashes}
    elif kind == 3:
        d = dict(common, type="malware", id="malware--" + gen.UU, name="m", is_family=False,
                 external_references=[{"source_name": "s", "external_id": "1", "hashes": hashes}, {"source_name": "t", "url": "http://x", "hashes": hashes}])
    else:
        d = {"type": "file", "spec_version": "2.1", "id": "file--" + gen.UU, "name": "f",
             "extensions": {"windows-pebinary-ext": {"pe_type": "exe", "file_header_hashes": hashes, "sections": [{"name": "s", "hashes": hashes}]}}}
    if not accepted_and_preserved(d, "2.1", "objects"):
        return False
    if wrap:
        b = {"type": "bundle", "id": "bundle--" + gen.UU, "objects": [d]}
        try:
            o = stix2.parse(b, allow_custom=False)
        except (STIXError, ValueError, TypeError):
            return False
        return preserved(b, json.loads(o.serialize(include_optional_defaults=True)))
    return True


# ---------------------------------------------------------------- the marking objects inside marking definitions (their content is a class of its own)
def _marking_docs():
    out = []
    for ver in ("2.0", "2.1"):
        base = {"type": "marking-definition", "id": "marking-definition--" + gen.UU, "created": "2020-01-01T00:00:00.000Z"}
        if ver == "2.1":
            base["spec_version"] = "2.1"
        for st in ("", "x", "\u00e9\U0001F600 \"q\"\\ \n", "Copyright 2020", " "):
            out.append((ver, dict(base, definition_type="statement", definition={"statement": st})))
        mod = stix2.v20 if ver == "2.0" else stix2.v21
        for tlp in (mod.TLP_WHITE, mod.TLP_GREEN, mod.TLP_AMBER, mod.TLP_RED):
            out.append((ver, json.loads(tlp.serialize())))
        if ver == "2.1":
            out.append((ver, dict(base, name="n", definition_type="statement", definition={"statement": ""}, created_by_ref="identity--" + gen.UU)))
            out.append((ver, dict(base, extensions={"extension-definition--" + gen.UU: {"extension_type": "property-extension", "p": ""}})))
    return out


MARKING_DOCS = _marking_docs()


def marking_contents(i: int, bundled: bool) -> bool:
    """
    pre: 0 <= i < len(MARKING_DOCS)
    post: _
    """
    i, bundled = pick(i, len(MARKING_DOCS)), pickb(bundled)
    with Native():
        ver, doc = MARKING_DOCS[i]
        if bundled:
            b = {"type": "bundle", "id": "bundle--" + gen.UU, "objects": [doc]}
            if ver == "2.0":
                b["spec_version"] = "2.0"
            try:
                o = stix2.parse(b, allow_custom=False)
                ok = preserved(doc, json.loads(o.serialize())["objects"][0])
            except (STIXError, ValueError, TypeError):
                ok = False
        else:
            ok = accepted_and_preserved(doc, ver, "objects")
    V.reached()
    return ok
