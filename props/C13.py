"""C13 -- library operations never modify their arguments or existing objects."""
from engine.spec import CH

H = "props.h_C13"
F = ["stix2.base._STIXBase.__setattr__", "stix2.base._STIXBase.__deepcopy__", "stix2.versioning.new_version", "stix2.parsing.parse_observable",
     "stix2.properties.ObservableProperty.clean", "stix2.properties.ExtensionsProperty.clean", "stix2.properties.STIXObjectProperty.clean",
     "stix2.environment.ObjectFactory.create", "stix2.datastore.memory._add", "stix2.markings.granular_markings.add_markings",
     "stix2.markings.granular_markings.remove_markings", "stix2.markings.granular_markings.clear_markings", "stix2.markings.utils.expand_markings",
     "stix2.markings.utils.compress_markings"]
FMT = "message formatting of symbolic values is opaque text (CrossHair plugin)"

META = {
    "engines": ["crosshair"],
    "level_text": "Bounded model checking of the real code for immutability: attribute assignment with a symbolic attribute name (every string of 1-4 "
                  "characters) is refused iff the name does not start with an underscore, deletion/item assignment is refused; deep copies and "
                  "new versions of 5 container-rich objects (dictionary-typed properties, extensions, embedded objects with custom lists, "
                  "observed-data members, bundles) share no mutable container with the original (identity check over every reachable container); "
                  "16 public operations (parse, constructors, parse_observable with refs, the three container property cleaners, ObjectFactory, "
                  "Bundle, MemoryStore, new_version, revoke, every marking function, on dictionaries and on objects), each applied once or twice to "
                  "the same arguments, leave deep JSON snapshots of the arguments identical and behave the same on reuse.",
    "level_text_more": 'Also: assignment/deletion (attribute and item) of every carried name on 6 objects with custom, custom_properties and toplevel-extension properties; 12 marking operations on 5 granular-marking layouts (dict and object): input snapshot, container identity, mutation of the result. The caller\'s extensions dictionary (5 shapes) through custom classes declared with extension_name; inherited marking queries leave objects unchanged. Rounds 5-6: inputs in a form the library normalises (hash spellings, short timestamps, dict-kept objects through stores, composites, versioning, markings); timestamp objects taken from one finished object into another; dropped custom_properties entries; environments / factories / decorated classes unaffected by later calls; interoperability objects copy and version.',
    "level_note": "Operation/shape tables are selector-enumerated (E1s); only the attribute name is symbolic. Aliasing created inside C encoders is "
                  "outside the claim.",
    "technique": "CrossHair symbolic attribute names on the real __setattr__; solver-selected operation x shape cases run on the real code with "
                 "before/after snapshots and container identity checks; counterexamples replayed natively",
    "outside": ["filesystem / TAXII stores", "argument shapes beyond the 16-operation table"],
    "assumptions": [FMT],
}


def obligations(tier):
    t = 200 if tier == "quick" else 600
    extra = [CH("every_class_arguments_and_copies", H, "every_class", t * 2, mode="E1s", functions=F,
                bounds="enriched instance of every SDO/SRO/SCO class of both versions (59): parse twice from one dict, constructor, deepcopy, new_version, "
                       "revoke, add_markings, Bundle, MemoryStore; argument snapshots and container identity")] if tier == "thorough" else []
    return extra + [
        CH("setattr_refused", H, "setattr_refused", t, functions=F[:1], stubs=[FMT], bounds="attribute name: every str of 1..4 chars; value unbounded int"),
        CH("assignment_refused_for_custom_and_extension_properties", H, "setattr_any_property", t, mode="E1s", functions=F[:1],
           bounds="6 objects carrying custom / custom_properties / toplevel-extension properties (SDO 2.0/2.1, SCO, bundle, embedded) x every carried name + 7 other "
                  "names x setattr / item assignment / delattr / del item"),
        CH("delete_and_item_assignment_refused", H, "delattr_refused", t, mode="E1s", functions=F[:1], bounds="4 properties x delattr / del item / item assignment"),
        CH("deepcopy_shares_nothing", H, "deepcopy_independent", t, mode="E1s", functions=F[1:3], bounds="5 container-rich objects x (deepcopy, new_version)"),
        CH("deepcopy_every_class_equal", H, "deepcopy_every_class", t, mode="E1s", functions=F[1:3] + ["stix2.v20.common._should_set_millisecond"],
           bounds="a minimal instance of every buildable registered class (both versions) x created/modified given as 4 text forms or defaulted: the copy and the copy's copy equal the original and print the same text"),
        CH("timestamp_value_copies", H, "timestamp_copies", t, mode="E1s", functions=["stix2.utils.STIXdatetime.__reduce_ex__", "stix2.utils.format_datetime"],
           bounds="3 precisions x 2 constraints x 4 fractions x (copy, deepcopy, pickle round trip) of the library's timestamp value: equal, same class, same text, same format metadata"),
        CH("marking_operations_leave_input", H, "marking_ops_leave_input", t, mode="E1s", functions=F[2:] + ["stix2.markings.utils.expand_markings",
           "stix2.markings.utils.compress_markings", "stix2.markings.granular_markings.clear_markings", "stix2.markings.granular_markings.set_markings"],
           bounds="5 granular-marking layouts x 16 marking operations (incl. inherited queries for markings the granular level does not satisfy) x 4 selector lists x dict / library object; snapshot, container identity, mutation of the result"),
        CH("extensions_argument_unchanged", H, "extensions_argument", t, mode="E1s", functions=F[2:] + ["stix2.properties.ExtensionsProperty.clean", "stix2.custom._custom_object_builder"],
           bounds="5 shapes of a caller's extensions dictionary (empty, instances only, dictionaries, mixed, empty instance) x 4 users (custom object / observable declared "
                  "with extension_name, new_version, File) x once/twice: keys, value identities and content unchanged, an object built earlier from it unchanged"),
        CH("arguments_unchanged", H, "arguments_unchanged", t, mode="E1s", functions=F[2:], bounds="37 operations (incl. one ObjectFactory / Environment used repeatedly with per-call values given as lists and singly, Bundle(list, item), Bundle(list, list, item) in both versions; 8 with inputs in a form the library normalises: hash algorithm spellings, timestamps without millisecond digits, dict-kept objects of unregistered types through stores, composites, versioning and markings; timestamp objects taken from one finished object into another's constructor across precisions; custom_properties holding entries that are dropped) x (called once, called twice on the same arguments)"),
        CH("interoperability_objects_copy_and_version", H, "interoperability_objects", t, mode="E1s", functions=["stix2.base._STIXBase.__deepcopy__", "stix2.versioning.new_version"],
           bounds="4 objects admitted with interoperability=True (non-RFC-4122 identifiers in id / references; 2.0 and 2.1, constructor and parse) x deepcopy / new_version / revoke / object and granular marking: equal copy, same id, original unchanged"),
        CH("earlier_objects_unaffected", H, "earlier_objects_unaffected", t, mode="E1s", functions=["stix2.environment.Environment.__init__", "stix2.v21.sdo.CustomObject", "stix2.v21.observables.CustomObservable"],
           bounds="two default environments / factories (a default set on one does not appear in the other); a plain class handed to CustomObject / CustomObservable with an extension_name keeps its attributes after a refused and after a successful registration and can be registered again without the extension"),
    ]
