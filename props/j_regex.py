"""re2z3 jobs: the accept-language of every syntax check built on a regular expression, for ALL strings.

For each check the live compiled pattern (or the literal found in the using function) is translated to a z3 regex with the
semantics of the method the function actually calls (match / fullmatch, found by AST inspection), and compared with a
specification language written independently here.  Witness strings are replayed on the real using function.
"""
import ast
import inspect
import re
import textwrap
import time

import z3

from engine import re2z3
from engine.hlib import K
from engine.re2z3 import ANY
from stix2 import hashes as H
from stix2 import properties as P

LC = z3.Union(z3.Range("a", "z"), z3.Range("0", "9"))
HEX = z3.Union(z3.Range("0", "9"), z3.Range("a", "f"), z3.Range("A", "F"))
DIG = z3.Range("0", "9")


def regex_calls(fn):
    """[(method, first-arg source)] of re-style calls in fn's live source"""
    src = textwrap.dedent(inspect.getsource(fn))
    out = []
    for node in ast.walk(ast.parse(src)):
        if isinstance(node, ast.Call) and isinstance(node.func, ast.Attribute) and node.func.attr in ("match", "fullmatch", "search"):
            out.append((node.func.attr, node))
    return out


def mode_and_pattern(fn, glob, which=0):
    """the regex method used by fn and the pattern object/literal it is applied to"""
    calls = regex_calls(fn)
    if len(calls) <= which:
        raise NotImplementedError("no regex call #%d found in %s (refactored?)" % (which, fn.__qualname__))
    method, node = calls[which]
    if isinstance(node.func.value, ast.Name) and node.func.value.id == "re":
        arg = node.args[0]
    else:
        arg = node.func.value
    if isinstance(arg, ast.Constant):
        pat = arg.value
    elif isinstance(arg, ast.Name):
        pat = glob[arg.id]
    else:
        raise NotImplementedError("pattern expression %s" % ast.dump(arg))
    return method, pat


def lang_for(method, pat):
    if method == "match":
        return re2z3.match_lang(pat)
    if method == "fullmatch":
        return re2z3.fullmatch_lang(pat)
    raise NotImplementedError("regex method " + method)


def run_inclusion(name, impl, spec, replay_name, directions=("impl_not_spec", "spec_not_impl"), extra=lambda s: [], samples=(), pat=None, method="match",
                  exclude=None):
    """generic job body: returns a result dict"""
    t0 = time.time()
    re2z3.STATS["queries"] = 0
    re2z3.STATS["solver_s"] = 0.0
    cands, smp = [], []
    validated = 0
    if pat is not None and samples:
        bad = re2z3.contract_test(pat, 0, list(samples), mode=method)
        validated = len(samples)
        if bad:
            return {"verdict": "ERROR", "detail": "re2z3 translation disagrees with re on %r" % (bad,)}
    ex = exclude or (lambda s: [])
    for d, r, w in re2z3.decide(impl, spec, lambda s: list(extra(s)) + list(ex(s))):
        if d not in directions:
            continue
        smp.append({"check": name, "query": d, "result": r, "witness": w})
        if r == "sat":
            cands.append({"call": "%s(%r)" % (replay_name, w), "desc": "%s: %s witness %r" % (name, d, w)})
        elif r != "unsat":
            return {"verdict": "INCONCLUSIVE", "detail": "%s: solver returned %s for %s" % (name, r, d), "paths": 1, "decisions": 1,
                    "queries": re2z3.STATS["queries"]}
    res = {"paths": len(smp), "decisions": len(smp), "queries": re2z3.STATS["queries"], "solver_s": round(re2z3.STATS["solver_s"], 3),
           "validated": validated, "reached": True, "samples": smp, "extra": {"wall_s": round(time.time() - t0, 2)}}
    if cands:
        res.update(verdict="CANDIDATE", candidates=cands, detail="; ".join(c["desc"] for c in cands))
    else:
        res.update(verdict="HOLDS", detail="language inclusion(s) unsat")
    return res


def merge(results):
    out = {"paths": 0, "decisions": 0, "queries": 0, "solver_s": 0.0, "validated": 0, "reached": True, "samples": [], "candidates": []}
    verdict = "HOLDS"
    details = []
    for r in results:
        for k in ("paths", "decisions", "queries", "validated"):
            out[k] += r.get(k, 0)
        out["solver_s"] = round(out["solver_s"] + r.get("solver_s", 0.0), 3)
        out["samples"] += r.get("samples", [])
        out["candidates"] += r.get("candidates", [])
        if r["verdict"] in ("ERROR",):
            return r
        if r["verdict"] == "INCONCLUSIVE" and verdict == "HOLDS":
            verdict = "INCONCLUSIVE"
            details.append(r.get("detail", ""))
        if r["verdict"] == "CANDIDATE":
            verdict = "CANDIDATE"
            details.append(r.get("detail", ""))
    out["verdict"] = verdict
    out["detail"] = "; ".join(details)[:900] if details else "all language inclusions unsat"
    out["samples"] = out["samples"][:6]
    return out


# ---------------------------------------------------------------- selector syntax (C08, C02)
SEL_NAME = z3.Union(LC, z3.Re("_"), z3.Re("-"))
# nested steps address dictionary keys, which may contain upper-case letters (e.g. hash algorithm names)
SEL_KEY = z3.Union(SEL_NAME, z3.Range("A", "Z"))
SEL_STEP = z3.Union(z3.Concat(z3.Re("["), z3.Plus(DIG), z3.Re("]")), z3.Loop(SEL_KEY, 1, 250))
SEL_SPEC = z3.Union(z3.Re("id"), z3.Concat(z3.Loop(SEL_NAME, 3, 250), z3.Star(z3.Concat(z3.Re("."), SEL_STEP))))
_SEL_PY = re.compile(r"(?:id|[a-z0-9_-]{3,250}(?:\.(?:\[[0-9]+\]|[a-zA-Z0-9_-]{1,250}))*)", re.A)


def replay_selector(w):
    try:
        P.SelectorProperty().clean(w)
        got = True
    except ValueError:
        got = False
    return got == bool(_SEL_PY.fullmatch(w))


def job_selector(tier, seed):
    try:
        method, pat = mode_and_pattern(P.SelectorProperty.clean, vars(P))
        impl = lang_for(method, pat)
    except NotImplementedError as e:
        return {"verdict": "INCONCLUSIVE", "detail": str(e)}
    return run_inclusion("selector syntax", impl, SEL_SPEC, "replay_selector", pat=pat, method=method,
                         samples=["id", "id\n", "abc", "ab", "abc.[1]", "abc.[x]", "abc.d", "ABC", "abc.[1].d", "abc..d", "abc.[1]x", "abc\n"])


# ---------------------------------------------------------------- type names (C19, C02)
def _type_spec(version):
    body = z3.Union(LC, z3.Re("-"))
    if version == "2.0":
        return z3.Plus(body)
    return z3.Concat(z3.Range("a", "z"), z3.Star(body))


def replay_type_20(w):
    return _replay_type(w, "2.0")


def replay_type_21(w):
    return _replay_type(w, "2.1")


def _replay_type(w, version):
    try:
        P._validate_type(w, version)
        got = True
    except ValueError:
        got = False
    ok_chars = all(c in "abcdefghijklmnopqrstuvwxyz0123456789-" for c in w)
    ok = ok_chars and 3 <= len(w) <= 250 and (version == "2.0" or (w[:1].isascii() and w[:1].isalpha()))
    return (not got) or ok          # only "accepted => satisfies the naming rule" is demanded


def job_type_names(tier, seed):
    res = []
    try:
        for version, which in (("2.0", 0), ("2.1", 1)):
            method, pat = mode_and_pattern(P._validate_type, vars(P), which)
            impl = lang_for(method, pat)
            res.append(run_inclusion("type name %s" % version, impl, _type_spec(version), "replay_type_%s" % version.replace(".", ""),
                                     directions=("impl_not_spec",), extra=lambda s: [z3.Length(s) >= 3, z3.Length(s) <= 250], pat=pat, method=method,
                                     samples=["abc", "abc\n", "a--b", "-ab", "x-foo", "9ab", "ABC", "a_b", "ab-", "abc\n\n"]))
    except NotImplementedError as e:
        return {"verdict": "INCONCLUSIVE", "detail": str(e)}
    return merge(res)


# ---------------------------------------------------------------- dictionary keys, hex (C02)
def replay_dict_key(w):
    out = []
    for v in ("2.0", "2.1"):
        try:
            P.DictionaryProperty(spec_version=v).clean({w: 1})
            got = True
        except ValueError:
            got = False
        ok = len(w) >= 1 and all(c.isascii() and (c.isalnum() or c in "_-") for c in w)
        ok = ok and (3 <= len(w) <= 256 if v == "2.0" else len(w) <= 250)
        out.append(got == ok)
    return all(out)


def replay_hex(w):
    try:
        P.HexProperty().clean(w)
        got = True
    except ValueError:
        got = False
    return got == (len(w) >= 2 and len(w) % 2 == 0 and all(c in "0123456789abcdefABCDEF" for c in w))


def job_dict_key_hex(tier, seed):
    res = []
    try:
        method, pat = mode_and_pattern(P.DictionaryProperty.clean, vars(P))
        keych = z3.Union(z3.Range("a", "z"), z3.Range("A", "Z"), DIG, z3.Re("_"), z3.Re("-"))
        res.append(run_inclusion("dictionary key", lang_for(method, pat), z3.Plus(keych), "replay_dict_key", pat=pat, method=method,
                                 extra=lambda s: [z3.Length(s) >= 3, z3.Length(s) <= 250],
                                 samples=["abc", "abc\n", "a b", "A_b-9", "", "é"]))
        method, pat = mode_and_pattern(P.HexProperty.clean, vars(P))
        res.append(run_inclusion("hex value", lang_for(method, pat), z3.Plus(z3.Loop(HEX, 2, 2)), "replay_hex", pat=pat, method=method,
                                 samples=["0A", "0A\n", "0", "0g", "", "abcd"]))
    except NotImplementedError as e:
        return {"verdict": "INCONCLUSIVE", "detail": str(e)}
    return merge(res)


# ---------------------------------------------------------------- hash values (C02)
HASH_LEN = {"MD5": (32,), "MD6": (32, 40, 56, 64, 96, 128), "RIPEMD160": (40,), "SHA1": (40,), "SHA224": (56,), "SHA256": (64,), "SHA384": (96,),
            "SHA512": (128,), "SHA3224": (56,), "SHA3256": (64,), "SHA3384": (96,), "SHA3512": (128,), "WHIRLPOOL": (128,), "TLSH": (70,)}


def replay_hash(name, w):
    alg = H.Hash[name]
    got = H.check_hash(alg, w)
    if name == "SSDEEP":
        ok = 1 <= len(w) <= 128 and all(c.isascii() and (c.isalnum() or c in "/+:.") for c in w)
    else:
        ok = len(w) in HASH_LEN[name] and all(c in "0123456789abcdefABCDEF" for c in w)
    return got == ok


def job_hashes(tier, seed):
    res = []
    try:
        method = regex_calls(H.check_hash)[0][0]
        for alg in H.Hash:
            rx = H._HASH_REGEXES.get(alg)
            if rx is None:
                continue
            impl = lang_for(method, rx)
            if alg.name == "SSDEEP":
                ch = z3.Union(z3.Range("a", "z"), z3.Range("A", "Z"), DIG, *[z3.Re(c) for c in "/+:."])
                spec = z3.Loop(ch, 1, 128)
            else:
                spec = z3.Union(*[z3.Loop(HEX, n, n) for n in HASH_LEN[alg.name]]) if len(HASH_LEN[alg.name]) > 1 else \
                    z3.Loop(HEX, HASH_LEN[alg.name][0], HASH_LEN[alg.name][0])
            r = run_inclusion("hash %s" % alg.name, impl, spec, "replay_hash")
            for c in r.get("candidates", []):
                c["call"] = c["call"].replace("replay_hash(", "replay_hash(%r, " % alg.name, 1)
            res.append(r)
    except (NotImplementedError, IndexError) as e:
        return {"verdict": "INCONCLUSIVE", "detail": str(e)}
    return merge(res)


# ---------------------------------------------------------------- 2.1 property names (C19)
def replay_prop_name(w):
    """register a 2.1 custom object whose property is called w (on a copy of the registry): accepted iff w obeys the 2.1 naming rule"""
    import stix2
    from stix2 import registry
    saved = dict(registry.STIX2_OBJ_MAPS["2.1"]["objects"])
    try:
        try:
            @stix2.v21.CustomObject("x-prop-name-probe", [(w, P.StringProperty())])
            class Probe(object):
                pass
            got = True
        except (ValueError, stix2.exceptions.STIXError, TypeError):
            got = False
    finally:
        registry.STIX2_OBJ_MAPS["2.1"]["objects"].clear()
        registry.STIX2_OBJ_MAPS["2.1"]["objects"].update(saved)
    full = bool(re.fullmatch(r"[a-z][a-z0-9_]{2,249}", w, re.A))
    if K.open("C19-propname-chars"):
        # known open finding: only the first character is checked -- the excluded class is "starts with a-z but breaks the full rule"
        return (not got) or bool(re.match(r"[a-z]", w, re.A))
    return (not got) or full


def job_prop_names(tier, seed):
    """names accepted by the 2.1 property-name check satisfy the specification's rule (a-z first, then a-z 0-9 _, 3..250 chars)"""
    from stix2 import registration
    try:
        method, pat = mode_and_pattern(registration._validate_props, vars(registration))
        impl = lang_for(method, pat)
    except NotImplementedError as e:
        return {"verdict": "INCONCLUSIVE", "detail": str(e)}
    body = z3.Union(z3.Range("a", "z"), DIG, z3.Re("_"))
    full = z3.Concat(z3.Range("a", "z"), z3.Loop(body, 2, 249))
    weak = z3.Concat(z3.Range("a", "z"), z3.Star(ANY))
    spec = weak if K.open("C19-propname-chars") else full
    r = run_inclusion("2.1 property name", impl, spec, "replay_prop_name", directions=("impl_not_spec",), pat=pat, method=method,
                      samples=["abc", "aB", "a", "9ab", "_ab", "a-b", "abc\n", "x_foo"])
    r.setdefault("extra", {})["excluded_known_class"] = "starts with a-z but contains other characters / too short" if K.open("C19-propname-chars") else None
    return r


# ---------------------------------------------------------------- pattern path steps (C10): printed unquoted iff a grammar identifier
IDENT_SPEC = z3.Concat(z3.Union(z3.Range("a", "z"), z3.Range("A", "Z"), z3.Re("_")),
                       z3.Star(z3.Union(z3.Range("a", "z"), z3.Range("A", "Z"), z3.Range("0", "9"), z3.Re("_"))))
_IDENT_PY = re.compile(r"[a-zA-Z_][a-zA-Z0-9_]*")


def replay_path_step(w):
    """quote_if_needed prints a step name bare exactly when the grammar's IdentifierWithoutHyphen admits it (a name that already starts with a
    quote is taken as quoted by the caller: excluded)"""
    import stix2.patterns as PT
    if w.startswith("'"):
        return True
    return (PT.quote_if_needed(w) == w) == bool(_IDENT_PY.fullmatch(w))


def job_path_step(tier, seed):
    """C10: the set of step names printed without quotes equals the grammar's IdentifierWithoutHyphen ([a-zA-Z_][a-zA-Z0-9_]*), over ALL strings"""
    import stix2.patterns as PT
    try:
        method, pat = mode_and_pattern(PT.quote_if_needed, vars(PT))
        impl = lang_for(method, pat)
    except NotImplementedError as e:
        return {"verdict": "INCONCLUSIVE", "detail": str(e)}
    return run_inclusion("path step printed bare", impl, IDENT_SPEC, "replay_path_step", pat=pat, method=method,
                         samples=["a", "a1", "_a", "1a", "a-b", "a b", "", "a\n", "clé", "a.b", "A_9", "'a'"])


# ---------------------------------------------------------------- every check terminates quickly: no repetition whose body can be read as one or as several rounds (C19, C17)
def _compiled_patterns():
    """[(module name, attribute, pattern object)]: every compiled pattern the library keeps at module level (and the per-algorithm hash table)"""
    import importlib
    out = []
    for mn in ("stix2.properties", "stix2.utils", "stix2.hashes", "stix2.datastore.filters", "stix2.patterns", "stix2.pattern_visitor",
               "stix2.equivalence.pattern.transform.specials", "stix2.registration", "stix2.versioning", "stix2.markings.utils"):
        try:
            m = importlib.import_module(mn)
        except ImportError:
            continue
        for k, v in sorted(vars(m).items()):
            if isinstance(v, re.Pattern):
                out.append((mn, k, v))
            elif isinstance(v, dict) and v and all(isinstance(x, (str, re.Pattern)) for x in v.values()) and any("^" in (x if isinstance(x, str) else x.pattern) for x in v.values()):
                for kk, x in sorted(v.items(), key=lambda kv: str(kv[0])):
                    out.append((mn, "%s[%s]" % (k, kk), re.compile(x) if isinstance(x, str) else x))
    return out


def _ambiguous_loops(pat):
    """unbounded repetitions whose body itself repeats: for each, a z3 query 'some text is one round of the body and also two or more rounds'"""
    import sre_constants as C
    import sre_parse
    p = sre_parse.parse(pat.pattern, pat.flags)
    fl = pat.flags | p.state.flags
    t = re2z3.T(bool(fl & re.I), bool(fl & re.A), bool(fl & re.S))
    found = []

    def has_repeat(items):
        for op, av in items:
            if op in (C.MAX_REPEAT, C.MIN_REPEAT) and av[1] != av[0]:
                return True
            if op is C.SUBPATTERN and has_repeat(av[3]):
                return True
            if op is C.BRANCH and any(has_repeat(b) for b in av[1]):
                return True
        return False

    def walk(items):
        for op, av in items:
            if op in (C.MAX_REPEAT, C.MIN_REPEAT):
                lo, hi, sub = av
                if hi is C.MAXREPEAT and has_repeat(sub):
                    found.append(t.plain(sub))
                walk(sub)
            elif op is C.SUBPATTERN:
                walk(av[3])
            elif op is C.BRANCH:
                for b in av[1]:
                    walk(b)
    walk(list(p))
    return found


def replay_regex_time(module, attr, w, pre=""):
    """False (reproduced) when matching pre + 26 repetitions of w + a character no pattern accepts does not finish within 5 s in a fresh interpreter"""
    import subprocess
    import sys
    code = ("import importlib,re\nm=importlib.import_module(%r)\nk=%r\n"
            "v=vars(m)[k.split('[')[0]]\n"
            "if '[' in k:\n    key=k.split('[')[1][:-1]\n    v=[x for kk,x in v.items() if str(kk)==key][0]\n"
            "v=re.compile(v) if isinstance(v,str) else v\nv.match(%r+%r*26+'\\x00')\n" % (module, attr, pre, w))
    try:
        subprocess.run([sys.executable, "-c", code], timeout=5, check=True, env=dict(__import__("os").environ))
        return True
    except subprocess.TimeoutExpired:
        return False


def job_regex_ambiguity(tier, seed):
    t0 = time.time()
    re2z3.STATS["queries"] = 0
    re2z3.STATS["solver_s"] = 0.0
    smp, cands, npat = [], [], 0
    for mn, attr, pat in _compiled_patterns():
        npat += 1
        try:
            loops = _ambiguous_loops(pat)
        except NotImplementedError as e:
            smp.append({"check": "%s.%s" % (mn, attr), "result": "skipped", "why": str(e)[:80]})
            continue
        for body in loops:
            r, w = re2z3.witness(lambda s: [z3.InRe(s, body), z3.InRe(s, z3.Concat(body, z3.Plus(body))), z3.Length(s) >= 1, z3.Length(s) <= 12], timeout_ms=30000)
            w = re2z3.unescape(w) if w is not None else None
            smp.append({"check": "%s.%s" % (mn, attr), "query": "one round = several rounds", "result": r, "witness": w})
            if r == "sat":
                # a text the whole pattern accepts in which w occurs twice in a row: what precedes it leads the matcher into the repetition
                full = re2z3.match_lang(pat)
                r2, m = re2z3.witness(lambda s: [z3.InRe(s, full), z3.Contains(s, z3.StringVal(w + w)), z3.Length(s) <= 40], timeout_ms=30000)
                m = re2z3.unescape(m) if m is not None else ""
                pre = m[:m.index(w + w)] if r2 == "sat" and (w + w) in m else ""
                cands.append({"call": "replay_regex_time(%r, %r, %r, %r)" % (mn, attr, w, pre),
                              "desc": "%s.%s: repetition body matches %r as one round and as several" % (mn, attr, w)})
            elif r != "unsat":
                return {"verdict": "INCONCLUSIVE", "detail": "%s.%s: solver returned %s" % (mn, attr, r), "paths": npat, "queries": re2z3.STATS["queries"]}
    res = {"paths": npat, "decisions": len(smp), "queries": re2z3.STATS["queries"], "solver_s": round(re2z3.STATS["solver_s"], 3), "validated": 0, "reached": npat > 5,
           "samples": smp, "extra": {"wall_s": round(time.time() - t0, 2), "patterns": npat}}
    if cands:
        res.update(verdict="CANDIDATE", candidates=cands, detail="; ".join(c["desc"] for c in cands))
    else:
        res.update(verdict="HOLDS", detail="%d compiled patterns; no nested repetition is ambiguous" % npat)
    return res
