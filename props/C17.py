"""C17 -- bad input is reported only through the library's error family."""
from engine.spec import CH

H = "props.h_C17"
F = ["stix2.parsing.parse", "stix2.parsing.dict_to_stix2", "stix2.parsing.parse_observable", "stix2.base._STIXBase.__init__",
     "stix2.base._STIXBase._check_property", "stix2.utils._get_dict", "stix2.utils.detect_spec_version"]
FMT = "message formatting of symbolic values is opaque text (CrossHair plugin)"

META = {
    "engines": ["crosshair"],
    "level_text": "Bounded model checking of parse()/parse_observable() on corrupted input: (i) a valid 2.1 Identity with one of 17 slots replaced by "
                  "junk of 10 JSON shapes whose content (int, string <= 3 chars) is symbolic, both allow_custom settings -- bug hunting where paths "
                  "realise in C code; (ii) every registered SDO/SRO/SCO/marking class of both versions (live registries) x every property slot plus "
                  "extensions/custom/spec_version x 19 junk values of every JSON kind or deletion, and 35 nested sites (embedded objects, "
                  "extensions, observed-data members, bundle members), through parse with named version, parse with detection and parse of JSON "
                  "text: only STIXError/ValueError/TypeError may escape and the registries must be unchanged.",
    "level_text_more": "Also: junk that is hostile to message formatting ('{x}', '%s', keys '{0.x}', '{1}', '%(a)s'); an identity carrying combinations of three registered extensions (two toplevel-property) x 20 slots x junk, with a registry snapshot that includes every class's property tables and a behavioural check afterwards. Values nested deeper than the recursion limit, as object and as JSON text. Rounds 5-6: every ordered pair of timestamp / integer slots in relation (all classes incl. 2.0 observables, 2-4 routes); refused MemoryStore additions leave the store unchanged and printable; 23 versioning change sets; marking definitions that also carry an extension; paired faults in classes with constructor logic of their own; caller-supplied reference scopes of 18 shapes; stored files of 18 contents.",
    "level_note": "Selector-enumerated over tables for (ii) (CrossHair chooses the case, the real code runs concretely); termination is bounded by "
                  "the per-path timeout (a timeout is inconclusive). Two simultaneous corruptions and deeper nesting are outside the claim.",
    "technique": "CrossHair symbolic execution of parse on junk-injected documents (symbolic junk content; enumerated class x slot x junk tables); "
                 "counterexamples replayed natively",
    "outside": ["two or more simultaneous corruptions", "junk nested deeper than 3 levels", "store add paths (C11/C14)"],
    "assumptions": [FMT],
}


def obligations(tier):
    t = 300 if tier == "quick" else 900
    obls = [CH("identity_symbolic_junk", H, "symbolic_junk", 60 if tier == "quick" else 600, mode="E1h", functions=F, stubs=[FMT],
               bounds="17 slots x 10 junk shapes, int unbounded / str <= 3 symbolic, allow_custom symbolic (bug hunting: inconclusive is expected)")]
    obls.append(CH("dictionary_keys_symbolic", H, "symbolic_keys", 90 if tier == "quick" else 600, mode="E1h", plugin="none", functions=F + ["stix2.exceptions.DictionaryKeyError.__str__"],
                   bounds="5 dictionary-typed sites x key: str <= 4 symbolic (real message formatting, no stub) x allow_custom (bug hunting: inconclusive is expected)"))
    for p in range(8):
        obls.append(CH("all_classes_slots_junk_p%d" % p, H, "table_junk", t, mode="E1s", functions=F, env={"VERIF_PART": str(p)},
                       bounds="cases with index %% 8 == %d of (class, slot/nested site) x 43 junk values (every JSON kind, nested, marking-shaped, format-hostile text and keys, deeper than the recursion limit) + deletion x allow_custom" % p))
    obls.append(CH("registered_toplevel_extensions_intact", H, "toplevel_extension_registry", t, mode="E1s", functions=F + ["stix2.registry.class_for_type"],
                   bounds="identity carrying 6 combinations of 3 registered extensions (two toplevel-property) x 20 slots x 43 junk values (quick: a third) x allow_custom: "
                          "registry incl. every class's property tables unchanged, and single-extension objects behave as before"))
    obls.append(CH("factory_unchanged_by_failed_construction", H, "factory_after_failure", t, mode="E1s", functions=["stix2.environment.ObjectFactory.create"] + F[:1],
                   bounds="every junk value as external_references / object_marking_refs / created_by_ref through an ObjectFactory and an Environment whose defaults are lists: "
                          "family error or success, and the next valid construction equals the one before"))
    for p in range(8):
        obls.append(CH("two_slots_in_relation_p%d" % p, H, "slot_relations", t, mode="E1s", functions=F, env={"VERIF_PART": str(p)},
                       bounds="classes with index %% 8 == %d of all SDO/SRO/SCO classes of both versions (2.0 observables included) x every ordered pair of timestamp slots (earlier/later/equal) and of integer slots x 2-4 routes x allow_custom" % p))
    obls.append(CH("stores_unchanged_by_refused_additions", H, "store_refusals", t, mode="E1s", functions=["stix2.datastore.memory._add", "stix2.datastore.memory._ObjectFamily.add"],
                   bounds="21 junk additions (no type, no id, junk modified, non-objects, nested lists, bundles of junk) x store / sink / environment / source constructor x allow_custom x empty or preloaded store; state compared before/after and still printable"))
    obls.append(CH("versioning_refusals_are_library_errors", H, "versioning_refusals", t, mode="E1s", functions=["stix2.versioning.new_version", "stix2.versioning.revoke"],
                   bounds="23 change sets of every JSON kind naming present and absent properties (unmodifiable ones, modified, custom_properties, flags) x object / dictionary x 2.1 / 2.0 x new_version / revoke"))
    obls.append(CH("paired_faults_in_own_constructors", H, "paired_faults", t * 2, mode="E1s", functions=F + ["stix2.v21.common.MarkingDefinition.__init__", "stix2.v21.sro.Relationship.__init__"],
                   bounds="classes with constructor / constraint logic of their own (marking definitions, relationships, sightings, indicators, bundles, observed-data, ...) x every ordered pair of up to 8 slots: the first removed or kept, the second removed or one of 9 JSON kinds x parse / constructor x allow_custom"))
    obls.append(CH("reference_scopes_of_any_shape", H, "reference_scopes", t, mode="E1s", functions=["stix2.base._Observable._check_ref", "stix2.parsing.parse_observable"],
                   bounds="18 values for the reference scope of a 2.0 observable (every JSON kind; entries that are type names, objects, dictionaries with / without / with a junk 'type', null) x parse_observable / constructor x 3 referring types"))
    obls.append(CH("stored_files_of_any_content", H, "stored_file_junk", t, mode="E1s", functions=["stix2.datastore.filesystem._check_object_from_file", "stix2.datastore.filesystem.FileSystemSource.query"],
                   stubs=["os/io calls of stix2.datastore.filesystem replaced by an in-memory file system (props/fakefs.py)"],
                   bounds="18 file contents (bundles without / with empty / with junk objects, JSON of every kind, text that is not JSON, the empty file) x 3 places in the store layout x allow_custom x get / all_versions / 3 queries / get with a named version"))
    obls.append(CH("deep_structures_outside_the_slot_table", H, "deep_structures", t, mode="E1s", functions=F + ["stix2.utils.detect_spec_version", "stix2.markings.utils.iterpath"],
                   bounds="5 documents nested 3000 deep where the slot table does not reach (bundles inside bundles, a deep custom value next to a granular marking, deep list elements, a deep bundle member) x parse / parse with a version / constructor x allow_custom"))
    obls.append(CH("plain_python_subclasses", H, "plain_subclass", t, mode="E1s", functions=F + ["stix2.v21.sro.Relationship._check_object_constraints", "stix2.v21.sro.Sighting._check_object_constraints"],
                   bounds="an empty Python subclass of every buildable registered class (both versions): builds from the base's arguments to the same text, and with each of 43 junk values "
                          "in one argument raises only from the family (no RecursionError from super() through self.__class__)"))
    if tier == "thorough":
        for p in range(8):
            obls.append(CH("two_corruptions_p%d" % p, H, "table_junk_pairs", t * 2, mode="E1s", functions=F, env={"VERIF_PART": str(p)},
                           bounds="cases with index %% 8 == %d x 10 second corruptions (extensions, granular_markings, custom_properties, spec_version, id, ...) x 43 junk values x allow_custom" % p))
    return obls
