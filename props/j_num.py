"""pysym jobs on the RFC 8785 kernels: convert2Es6Format (numbers) and the member-sort key function -- C16 (and C06.e).

Environment stubs:
  float(x)/str(float): the shortest round-trip digits D (1..17 significant digits, no trailing zero) and decimal point position k are
      symbolic/enumerated; str() renders them by CPython's float_repr_style='short' rule (fixed notation iff -4 <= k-1 < 16, exponent with at
      least two digits).  Contract-tested against the real repr on random doubles each run.  Digit generation itself (C dtoa) is trusted.
  str.encode('utf-16_be'): BMP code point -> one 16-bit unit, astral -> surrogate pair, big-endian bytes; bytes compare lexicographically.
"""
import ast
import inspect
import random
import struct
import textwrap
import time

import z3

from engine import xcheck

from engine.pysym import Engine, Frame, Interp, SBool, SInt, SStr, SymRaise, Unsupported, lift_c, mk, sb
from stix2.canonicalization import Canonicalize as C
from stix2.canonicalization import NumberToJson as N

NPARTS_QUICK = 4
NPARTS_THOROUGH = 16


def py_repr_chars(neg, D, k):
    """CPython float.__repr__: digits D (char terms), value = 0.D * 10^k"""
    n = len(D)
    e10 = k - 1
    out = [ord("-")] if neg else []
    if -4 <= e10 < 16:
        if k <= 0:
            out += [ord("0"), ord(".")] + [ord("0")] * (-k) + D
        elif k >= n:
            out += D + [ord("0")] * (k - n) + [ord("."), ord("0")]
        else:
            out += D[:k] + [ord(".")] + D[k:]
    else:
        out += D[:1] + ([ord(".")] + D[1:] if n > 1 else [])
        out += [ord("e"), ord("+") if e10 >= 0 else ord("-")] + [ord(c) for c in "%02d" % abs(e10)]
    return out


def es6_chars(neg, D, k):
    """ECMA-262 Number::toString(x, 10) for x = 0.D * 10^k (the spec's n is k here, the spec's k is len(D)); written from the spec text"""
    nd = len(D)
    out = [ord("-")] if neg else []
    if nd <= k <= 21:
        out += D + [ord("0")] * (k - nd)
    elif 0 < k <= 21:
        out += D[:k] + [ord(".")] + D[k:]
    elif -6 < k <= 0:
        out += [ord("0"), ord(".")] + [ord("0")] * (-k) + D
    else:
        e = k - 1
        out += D[:1] + ([ord(".")] + D[1:] if nd > 1 else [])
        out += [ord("e"), ord("+") if e >= 0 else ord("-")] + [ord(c) for c in str(abs(e))]
    return out


class F:
    """model of a non-zero finite double: sign, shortest digits, decimal point position"""
    __pysym_model__ = True

    def __init__(self, neg, D, k):
        self.neg, self.D, self.k = neg, D, k

    def __pysym_float__(self):
        return self

    def __pysym_str__(self):
        return mk(py_repr_chars(self.neg, self.D, self.k))

    def __eq__(self, o):
        return False if o == 0 else NotImplemented

    def __ne__(self, o):
        return True if o == 0 else NotImplemented

    __hash__ = None


def decomp(x):
    """(digits, k) of a finite non-zero double from its real repr"""
    r = repr(abs(x))
    if "e" in r:
        m, e = r.split("e")
        e = int(e)
    else:
        m, e = r, 0
    ip, _, fp = m.partition(".")
    if fp == "0":
        fp = ""
    alld = ip + fp
    lead = len(alld) - len(alld.lstrip("0"))
    digs = alld.lstrip("0").rstrip("0")
    k = len(ip) + e - lead
    return digs, k


def es6_py(x):
    """independent ES6 Number::toString for a python float (uses repr only for the shortest digits)"""
    if x == 0:
        return "0"
    if x != x or x in (float("inf"), float("-inf")):
        raise ValueError("not finite")
    digs, k = decomp(x)
    return "".join(chr(c) for c in es6_chars(x < 0, [ord(c) for c in digs], k))


def replay_num(text):
    """real convert2Es6Format on float(text) vs the independent ES6 formatter"""
    x = float(text)
    return N.convert2Es6Format(x) == es6_py(x)


def replay_special():
    for bad in (float("nan"), float("inf"), float("-inf")):
        try:
            N.convert2Es6Format(bad)
            return False
        except ValueError:
            pass
    return N.convert2Es6Format(0.0) == "0" and N.convert2Es6Format(-0.0) == "0" and N.convert2Es6Format(0) == "0"


def validate(seed, n):
    """stub contract test (repr model vs real repr) and translator validation (interpreted vs real convert2Es6Format)"""
    rnd = random.Random(seed)
    I = Interp({})
    eng = Engine()
    Engine.cur = eng
    ok = 0
    xs = [1e21, 1e-7, 1e-6, 1e16, 1.5, 0.1 + 0.2, 5e-324, 1.7976931348623157e308, 123456789012345680000.0, 2.0 ** 53 + 2, 1e22, 9.999999999999999e20,
          -1e-5, 100.0, 0.000001234, 1234567.0]
    while len(xs) < n:
        x = struct.unpack("<d", struct.pack("<Q", rnd.getrandbits(64)))[0]
        if x != x or x in (float("inf"), float("-inf")) or x == 0:
            continue
        xs.append(x)
    for x in xs:
        digs, k = decomp(x)
        D = [ord(c) for c in digs]
        got = "".join(chr(c) for c in py_repr_chars(x < 0, D, k))
        if got != repr(x):
            raise AssertionError("repr stub contract: %r vs %r" % (got, repr(x)))
        mine = I.call_function(N.convert2Es6Format, [F(x < 0, D, k)], {})
        real = N.convert2Es6Format(x)
        if mine != real:
            raise AssertionError("translator validation: %r -> interpreted %r, real %r" % (x, mine, real))
        ok += 2
    return ok


def shapes(tier):
    ns = range(1, 18)
    if tier == "quick":
        ks = sorted(set(range(-12, 27)) | {-330, -323, -100, -30, 40, 100, 308, 310})
    else:
        ks = range(-330, 311)
    return [(neg, n, k) for neg in (False, True) for n in ns for k in ks]


def _num_part(tier, seed, part, nparts):
    t0 = time.time()
    validated = validate(seed + part, 150 if tier == "quick" else 600)
    if not replay_special():
        return {"verdict": "CANDIDATE", "candidates": [{"call": "replay_special()", "desc": "zero/nan/inf handling"}], "paths": 1,
                "decisions": 1, "queries": 0, "reached": True}
    I = Interp({})
    eng = Engine()
    todo = shapes(tier)[part::nparts]
    bad, cands, samples, asserting = 0, [], [], 0
    try:
        for (neg, n, k) in todo:
            def body(eng):
                D = []
                for i in range(n):
                    d = z3.Int("d%d" % i)
                    lo = 1 if (i == 0 or i == n - 1) else 0
                    eng.assume(z3.And(d >= lo, d <= 9))
                    D.append(48 + d)
                return D, I.call_function(N.convert2Es6Format, [F(neg, D, k)], {})
            for pc, (kind, val) in eng.explore(body):
                asserting += 1
                if kind != "return":
                    bad += 1
                    cands.append({"call": "replay_num(%r)" % ("%s0.%se%d" % ("-" if neg else "", "1" * n, k)),
                                  "desc": "convert2Es6Format raised %r on shape %r" % (val, (neg, n, k))})
                    continue
                D, out = val
                out = SStr.of(out)
                exp = es6_chars(neg, D, k)
                if len(exp) != len(out.chars):
                    post = z3.BoolVal(False)
                else:
                    post = z3.simplify(z3.And([lift_c(a) == lift_c(b) for a, b in zip(out.chars, exp)] + [z3.BoolVal(True)]))
                if z3.is_true(post):
                    if len(samples) < 3:
                        samples.append({"shape": {"negative": neg, "digits": n, "point_position": k}, "result": "output == ES6 text (syntactically)"})
                    continue
                s = z3.Solver()
                s.add(*pc)
                s.add(z3.Not(post))
                eng.queries += 1
                ts = time.time()
                r = xcheck.check(s)
                eng.solver_time += time.time() - ts
                if r == "unsat":
                    continue
                if r != "sat":
                    return {"verdict": "INCONCLUSIVE", "detail": "solver %s on shape %r" % (r, (neg, n, k))}
                bad += 1
                m = s.model()
                digs = "".join(chr(m.eval(lift_c(c), model_completion=True).as_long()) for c in D)
                cands.append({"call": "replay_num(%r)" % ("%s0.%se%d" % ("-" if neg else "", digs, k)),
                              "desc": "number text differs from ES6 Number::toString on shape %r" % ((neg, n, k),)})
    except Unsupported as e:
        return {"verdict": "INCONCLUSIVE", "detail": "translator does not cover: %s" % e, "paths": eng.paths, "decisions": eng.decisions,
                "queries": eng.queries}
    res = {"paths": eng.paths, "queries": eng.queries, "decisions": max(eng.decisions, eng.paths), "solver_s": round(eng.solver_time, 3),
           "validated": validated, "samples": samples, "reached": asserting > 0,
           "extra": {"shapes": len(todo), "functions_interpreted": I.sources, "wall_s": round(time.time() - t0, 1)}}
    if cands:
        # keep the witnesses that denote doubles (|k| small enough) first
        cands.sort(key=lambda c: abs(int(c["call"].rsplit("e", 1)[1].rstrip("')"))))
        seen, out = set(), []
        for c in cands:
            if c["call"] not in seen:
                seen.add(c["call"])
                out.append(c)
        res.update(verdict="CANDIDATE", candidates=out[:3], detail="%d violating path(s)" % bad)
    else:
        res.update(verdict="HOLDS", detail="all %d paths of %d shapes discharged" % (asserting, len(todo)))
    return res


def _mk_part(i):
    def job(tier, seed):
        n = NPARTS_QUICK if tier == "quick" else NPARTS_THOROUGH
        if i >= n:
            return {"verdict": "HOLDS", "paths": 0, "decisions": 0, "queries": 0, "reached": True, "detail": "partition unused in this tier"}
        return _num_part(tier, seed, i, n)
    return job


for _i in range(NPARTS_THOROUGH):
    globals()["job_num_%d" % _i] = _mk_part(_i)


# ---------------------------------------------------------------- member order (UTF-16 code units)
class SBytes:
    """concrete-length list of byte terms with Python's lexicographic bytes ordering"""
    __pysym_model__ = True

    def __init__(self, bs):
        self.bs = list(bs)

    def lt_expr(self, o):
        return _lex_lt([lift_c(b) for b in self.bs], [lift_c(b) for b in o.bs])

    def __lt__(self, o):
        return sb(self.lt_expr(o))

    def __gt__(self, o):
        return sb(o.lt_expr(self))

    def __eq__(self, o):
        if len(self.bs) != len(o.bs):
            return False
        return sb(z3.And([lift_c(a) == lift_c(b) for a, b in zip(self.bs, o.bs)] + [z3.BoolVal(True)]))

    __hash__ = None


def _lex_lt(a, b):
    """a <lex b for term lists of concrete (possibly different) lengths"""
    if not b:
        return z3.BoolVal(False)
    if not a:
        return z3.BoolVal(True)
    return z3.Or(a[0] < b[0], z3.And(a[0] == b[0], _lex_lt(a[1:], b[1:])))


class KeyStr(SStr):
    """symbolic key: list of code point terms, each with a concrete 'astral' flag decided by forking"""

    def encode(self, enc="utf-8", errors="strict"):
        if enc.lower().replace("-", "_") not in ("utf_16_be", "utf_16be"):
            raise Unsupported("encode(%r)" % enc)
        eng = Engine.cur
        out = []
        for c in self.chars:
            c = lift_c(c)
            if eng.decide(c >= 0x10000):
                v = c - 0x10000
                for u in (0xD800 + v / 1024, 0xDC00 + v % 1024):
                    out += [u / 256, u % 256]
            else:
                out += [c / 256, c % 256]
        return SBytes(out)

    def lt_expr(self, o):
        return _lex_lt([lift_c(c) for c in self.chars], [lift_c(c) for c in o.chars])

    def __lt__(self, o):
        return sb(self.lt_expr(o))

    def __gt__(self, o):
        return sb(o.lt_expr(self))


def find_sort_key():
    """locate the key= lambda of the sorted(...) call inside _iterencode_dict by AST inspection of the live source"""
    src = textwrap.dedent(inspect.getsource(C._make_iterencode))
    tree = ast.parse(src)
    for node in ast.walk(tree):
        if isinstance(node, ast.Call) and isinstance(node.func, ast.Name) and node.func.id == "sorted":
            for kw in node.keywords:
                if kw.arg == "key" and isinstance(kw.value, ast.Lambda):
                    return kw.value, ast.unparse(node)
            return None, ast.unparse(node)
    return None, None


def units_expr(cps, astral):
    out = []
    for c, a in zip(cps, astral):
        if a:
            v = c - 0x10000
            out += [0xD800 + v / 1024, 0xDC00 + v % 1024]
        else:
            out.append(c)
    return out


def replay_keys(k1, k2):
    """real canonicalize on a two-member object: member order must be UTF-16 code-unit order, for both insertion orders"""
    want = sorted([k1, k2], key=lambda s: [int.from_bytes(s.encode("utf-16-be")[i:i + 2], "big") for i in range(0, 2 * len(s.encode("utf-16-be")) // 2, 2)])
    for d in ({k1: 1, k2: 2}, {k2: 2, k1: 1}):
        text = C.canonicalize(d, utf8=False)
        import json
        got = list(json.loads(text).keys())
        if got != want:
            return False
    return True


def job_keyorder(tier, seed):
    """C16.b: the sort key used for object members orders any two keys by UTF-16 code units (keys of 1..2 code points, all of Unicode)."""
    t0 = time.time()
    lam, call_src = find_sort_key()
    if call_src is None:
        return {"verdict": "INCONCLUSIVE", "detail": "no sorted(...) call found in _make_iterencode (refactored?)"}
    eng = Engine()
    I = Interp({})
    bad, cands, asserting, samples = 0, [], 0, []
    maxlen = 2 if tier == "quick" else 3
    try:
        for l1 in range(1, maxlen + 1):
            for l2 in range(1, maxlen + 1):
                def body(eng):
                    ks = []
                    for name, ln in (("a", l1), ("b", l2)):
                        cs = []
                        for i in range(ln):
                            c = z3.Int("%s%d" % (name, i))
                            eng.assume(z3.And(c >= 0, c <= 0x10FFFF, z3.Or(c < 0xD800, c > 0xDFFF)))
                            cs.append(c)
                        ks.append(KeyStr(cs))
                    if lam is None:
                        kv = [k for k in ks]          # sorted() without key: compares the (key, value) tuples -> the keys themselves
                    else:
                        fr = Frame(I, C._make_iterencode.__globals__, {})
                        kv = []
                        for k in ks:
                            fr.env[lam.args.args[0].arg] = (k, 0)
                            kv.append(fr.ev(lam.body))
                    astral = [[bool(eng.decide(lift_c(c) >= 0x10000)) for c in k.chars] for k in ks]
                    return ks, kv, astral
                for pc, (kind, val) in eng.explore(body):
                    if kind != "return":
                        return {"verdict": "INCONCLUSIVE", "detail": "key function raised %r" % (val,)}
                    ks, kv, astral = val
                    asserting += 1
                    if not hasattr(kv[0], "lt_expr"):
                        return {"verdict": "INCONCLUSIVE", "detail": "key function returns an unmodelled value %r" % type(kv[0])}
                    impl_lt = kv[0].lt_expr(kv[1])
                    u1 = units_expr([lift_c(c) for c in ks[0].chars], astral[0])
                    u2 = units_expr([lift_c(c) for c in ks[1].chars], astral[1])
                    spec_lt = _lex_lt(u1, u2)
                    s = z3.Solver()
                    s.add(*pc)
                    s.add(impl_lt != spec_lt)
                    eng.queries += 1
                    ts = time.time()
                    r = xcheck.check(s)
                    eng.solver_time += time.time() - ts
                    if r == "unsat":
                        if len(samples) < 3:
                            samples.append({"key_lengths": [l1, l2], "astral_flags": astral, "query": "impl_lt(k1,k2) != utf16_lt(k1,k2)", "result": "unsat"})
                        continue
                    if r != "sat":
                        return {"verdict": "INCONCLUSIVE", "detail": "solver %s" % r}
                    bad += 1
                    m = s.model()
                    k1 = "".join(chr(m.eval(lift_c(c), model_completion=True).as_long()) for c in ks[0].chars)
                    k2 = "".join(chr(m.eval(lift_c(c), model_completion=True).as_long()) for c in ks[1].chars)
                    cands.append({"call": "replay_keys(%r, %r)" % (k1, k2), "desc": "member sort key does not order by UTF-16 code units"})
    except Unsupported as e:
        return {"verdict": "INCONCLUSIVE", "detail": "translator does not cover: %s" % e}
    res = {"paths": eng.paths, "queries": eng.queries, "decisions": eng.decisions, "solver_s": round(eng.solver_time, 3), "reached": asserting > 0,
           "samples": samples, "validated": 0, "extra": {"sorted_call": call_src, "wall_s": round(time.time() - t0, 1)}}
    if cands:
        res.update(verdict="CANDIDATE", candidates=cands[:8], detail="%d violating path(s)" % bad)
    else:
        res.update(verdict="HOLDS", detail="%d paths discharged" % asserting)
    return res


# ---------------------------------------------------------------- string escaping (RFC 8785 section 3.2.2.2)
def rfc_escape_char(o):
    two = {0x08: "\\b", 0x09: "\\t", 0x0A: "\\n", 0x0C: "\\f", 0x0D: "\\r", 0x22: '\\"', 0x5C: "\\\\"}
    if o in two:
        return two[o]
    if o < 0x20:
        return "\\u%04x" % o
    return chr(o)


def replay_escape(text):
    want = '"' + "".join(rfc_escape_char(ord(ch)) for ch in text) + '"'
    return C.py_encode_basestring(text) == want and C.encode_basestring(text) == want and C.canonicalize(text, utf8=False) == want and \
        C.canonicalize([text], utf8=False) == "[" + want + "]" and C.canonicalize({text: 0}, utf8=False) == "{" + want + ":0}"


def job_escape(tier, seed):
    """C16.d: the set of characters the module escapes (live ESCAPE pattern, translated to a z3 regex) is exactly the RFC 8785 set, for
    every code point (one symbolic character); the replacement table is the RFC table (finite, 34 entries); the C encoder that actually
    runs is tied to py_encode_basestring by an exhaustive single-code-point contract test (enumeration of an environment component)."""
    from engine import re2z3
    t0 = time.time()
    cands = []
    impl = re2z3.match_lang(C.ESCAPE)
    spec_set = z3.Union(z3.Range(chr(0), chr(0x1F)), z3.Re("\\"), z3.Re('"'))
    spec = z3.Concat(spec_set, z3.Star(re2z3.ANY))
    q = 0
    for d, r, w in re2z3.decide(impl, spec, lambda s: [z3.Length(s) == 1]):
        q += 1
        if r == "sat":
            cands.append({"call": "replay_escape(%r)" % w, "desc": "ESCAPE character class differs from RFC 8785 (%s)" % d})
        elif r != "unsat":
            return {"verdict": "INCONCLUSIVE", "detail": "solver %s" % r}
    # replacement table, finite check against the independent table
    n_tab = 0
    for o in list(range(0x20)) + [0x22, 0x5C]:
        n_tab += 1
        if C.ESCAPE_DCT.get(chr(o)) != rfc_escape_char(o):
            cands.append({"call": "replay_escape(%r)" % chr(o), "desc": "ESCAPE_DCT[%r] = %r" % (chr(o), C.ESCAPE_DCT.get(chr(o)))})
    # contract test of the C encoder actually used vs the python one: every single code point, plus seeded multi-character strings
    n_contract = 0
    for o in range(0x110000):
        ch = chr(o)
        n_contract += 1
        if C.encode_basestring(ch) != '"' + rfc_escape_char(o) + '"':
            cands.append({"call": "replay_escape(%r)" % ch, "desc": "encode_basestring(%r) = %r" % (ch, C.encode_basestring(ch))})
            break
    rnd = random.Random(seed)
    pool = [chr(c) for c in (0, 1, 8, 9, 10, 12, 13, 0x1f, 0x20, 0x22, 0x5c, 0x2f, 0x7f, 0x80, 0xe9, 0x20ac, 0xd7ff, 0xe000, 0xfb33, 0xffff, 0x10000, 0x1f600, 0x10ffff)]
    for _ in range(2000):
        t = "".join(rnd.choice(pool) for _ in range(rnd.randint(0, 6)))
        n_contract += 1
        if not replay_escape(t):
            cands.append({"call": "replay_escape(%r)" % t, "desc": "multi-character string not escaped character-wise"})
            break
    bad = re2z3.contract_test(C.ESCAPE, 0, ["a", "\n", "\\", '"', "\x00", "\x1f", " ", "\x7f", "é", "/", "\b", "\f"])
    if bad:
        return {"verdict": "ERROR", "detail": "re2z3 translation disagrees with re on %r" % bad}
    res = {"paths": 2 + n_tab, "queries": q, "decisions": 2 + n_tab, "solver_s": round(re2z3.STATS["solver_s"], 3), "reached": True,
           "validated": n_contract + 12,
           "samples": [{"query": "exists c: (ESCAPE matches c) != (c in {00..1F, backslash, quote})", "result": "unsat" if not cands else "sat"}],
           "extra": {"pattern": C.ESCAPE.pattern, "c_encoder_contract_test_cases": n_contract, "wall_s": round(time.time() - t0, 1)}}
    if cands:
        res.update(verdict="CANDIDATE", candidates=cands[:8], detail="escaping differs from RFC 8785")
    else:
        res.update(verdict="HOLDS", detail="character class and table equal the RFC 8785 set")
    return res
