"""re2z3 job: the identifier accept-language of strict mode vs the canonical RFC 4122 textual form, for all strings (C14.b / C02)."""
import inspect
import random
import re
import time
import uuid

import z3

from engine import re2z3
from engine.re2z3 import ANY
from stix2 import properties as P

HEXL = z3.Union(z3.Range("0", "9"), z3.Range("a", "f"), z3.Range("A", "F"))
HEXLOW = z3.Union(z3.Range("0", "9"), z3.Range("a", "f"))


def canon(version):
    """canonical text: 8-4-4-4-12 hex (upper or lower case accepted on input), RFC 4122 variant; version 4 for STIX 2.0"""
    var = z3.Union(*[z3.Re(c) for c in "89abAB"])
    ver = z3.Re("4") if version == "2.0" else HEXL
    return z3.Concat(z3.Loop(HEXL, 8, 8), z3.Re("-"), z3.Loop(HEXL, 4, 4), z3.Re("-"), ver, z3.Loop(HEXL, 3, 3), z3.Re("-"),
                     var, z3.Loop(HEXL, 3, 3), z3.Re("-"), z3.Loop(HEXL, 12, 12))


def uuid_model():
    """strings uuid.UUID(s) parses (CPython: remove 'urn:' and 'uuid:', strip braces, remove hyphens, then exactly 32 hex digits).
    Over-approximated as: optional prefixes/braces around hex digits and hyphens in any arrangement -- used only to FIND candidate
    witnesses, every witness is replayed on the real _validate_id."""
    body = z3.Plus(z3.Union(HEXL, z3.Re("-")))
    pre = z3.Union(z3.Re(""), z3.Re("urn:"), z3.Re("uuid:"), z3.Re("urn:uuid:"))
    return z3.Concat(z3.Star(z3.Union(z3.Re("{"), z3.Re("}"))), pre, body, z3.Star(z3.Union(z3.Re("{"), z3.Re("}"))))


def replay_id(text, version):
    """real _validate_id in strict mode accepts exactly canonical-form RFC 4122 identifiers"""
    try:
        P._validate_id(text, version, "identity--", False)
        got = True
    except ValueError:
        got = False
    m = re.fullmatch(r"identity--([0-9a-fA-F]{8})-([0-9a-fA-F]{4})-([0-9a-fA-F]{4})-([0-9a-fA-F]{4})-([0-9a-fA-F]{12})", text, re.A)
    ok = bool(m) and m.group(4)[0] in "89abAB" and (version != "2.0" or m.group(3)[0] == "4")
    return got == ok


def job_id_language(tier, seed):
    t0 = time.time()
    re2z3.STATS["queries"] = 0
    re2z3.STATS["solver_s"] = 0.0
    src = inspect.getsource(P._check_uuid)
    cands, samples = [], []
    # contract test of the uuid.UUID model on boundary probes: every probe the real uuid.UUID accepts must be in the model
    probes = ["311b2d2d-f010-4473-83ec-1edf84858f4c", "{311b2d2d-f010-4473-83ec-1edf84858f4c}", "urn:uuid:311b2d2d-f010-4473-83ec-1edf84858f4c",
              "311b2d2df010447383ec1edf84858f4c", "311B2D2D-F010-4473-83EC-1EDF84858F4C", "3-1-1b2d2d-f010-4473-83ec-1edf84858f4c", "zz", ""]
    L = uuid_model()
    validated = 0
    for p in probes:
        try:
            uuid.UUID(p)
            real = True
        except ValueError:
            real = False
        validated += 1
        if real and not re2z3.member(p, L):
            return {"verdict": "ERROR", "detail": "uuid.UUID model misses %r" % p}
    # candidate witnesses: strings the uuid model accepts with the right digit count that are not canonical text
    for version in ("2.0", "2.1"):
        spec = canon(version)
        shapes = [
            ("braces", z3.Concat(z3.Re("{"), spec, z3.Re("}"))),
            ("urn", z3.Concat(z3.Re("urn:uuid:"), spec)),
            ("no hyphens", z3.Concat(z3.Loop(HEXL, 12, 12), z3.Re("4"), z3.Loop(HEXL, 3, 3), z3.Re("8"), z3.Loop(HEXL, 15, 15))),
            ("moved hyphen", z3.Concat(z3.Loop(HEXL, 7, 7), z3.Re("-"), HEXL, z3.Loop(HEXL, 4, 4), z3.Re("-4"), z3.Loop(HEXL, 3, 3), z3.Re("-8"),
                                       z3.Loop(HEXL, 3, 3), z3.Re("-"), z3.Loop(HEXL, 12, 12))),
            ("trailing newline", z3.Concat(spec, z3.Re("\n"))),
            ("wrong variant", z3.Concat(z3.Loop(HEXL, 8, 8), z3.Re("-"), z3.Loop(HEXL, 4, 4), z3.Re("-4"), z3.Loop(HEXL, 3, 3), z3.Re("-c"),
                                        z3.Loop(HEXL, 3, 3), z3.Re("-"), z3.Loop(HEXL, 12, 12))),
        ]
        for name, lang in shapes:
            r, w = re2z3.witness(lambda s: [z3.InRe(s, lang), z3.Not(z3.InRe(s, spec))])
            samples.append({"version": version, "shape": name, "query": "in shape and not canonical", "result": r})
            if r == "sat":
                w = re2z3.unescape(w)
                if not replay_id("identity--" + w, version):
                    cands.append({"call": "replay_id(%r, %r)" % ("identity--" + w, version), "desc": "non-canonical identifier (%s) accepted" % name})
            # canonical identifiers must be accepted (C03 direction)
        r, w = re2z3.witness(lambda s: [z3.InRe(s, spec)])
        if r == "sat":
            validated += 1
            if not replay_id("identity--" + re2z3.unescape(w), version):
                cands.append({"call": "replay_id(%r, %r)" % ("identity--" + re2z3.unescape(w), version), "desc": "canonical identifier refused"})
    # interoperability (relaxed) pattern: documented as a plain 8-4-4-4-12 hex check -- compare the live pattern with that language
    try:
        method = "match"
        impl = re2z3.match_lang(P.ID_REGEX_interoperability)
        plain = z3.Concat(z3.Loop(HEXL, 8, 8), z3.Re("-"), z3.Loop(HEXL, 4, 4), z3.Re("-"), z3.Loop(HEXL, 4, 4), z3.Re("-"), z3.Loop(HEXL, 4, 4),
                          z3.Re("-"), z3.Loop(HEXL, 12, 12))
        for d, r, w in re2z3.decide(impl, plain):
            samples.append({"check": "interoperability pattern", "query": d, "result": r, "witness": w})
            if r == "sat":
                cands.append({"call": "replay_interop(%r)" % w, "desc": "interoperability id pattern differs from 8-4-4-4-12 hex (%s)" % d})
    except NotImplementedError as e:
        samples.append({"check": "interoperability pattern", "result": "not translated: %s" % e})
    res = {"paths": len(samples), "decisions": len(samples), "queries": re2z3.STATS["queries"], "solver_s": round(re2z3.STATS["solver_s"], 3),
           "validated": validated, "reached": True, "samples": samples[:6], "extra": {"wall_s": round(time.time() - t0, 2), "_check_uuid_len": len(src)}}
    if cands:
        res.update(verdict="CANDIDATE", candidates=cands[:4], detail="; ".join(c["desc"] for c in cands[:4]))
    else:
        res.update(verdict="HOLDS", detail="no non-canonical identifier shape is accepted; canonical identifiers accepted")
    return res


def replay_interop(w):
    got = bool(P._check_uuid(w, "2.1", True))
    ok = bool(re.fullmatch(r"[0-9a-fA-F]{8}-[0-9a-fA-F]{4}-[0-9a-fA-F]{4}-[0-9a-fA-F]{4}-[0-9a-fA-F]{12}", w, re.A))
    return got == ok
