"""C13 harnesses: library operations never modify their arguments or existing objects."""
import copy
import json

import stix2
from stix2 import markings, versioning
from stix2 import properties as P
from stix2.base import _STIXBase
from stix2.datastore.memory import MemoryStore
from stix2.environment import ObjectFactory
from stix2.exceptions import ImmutableError, STIXError

from engine.hlib import Native, V, pick, pickb
from props import gen

M1 = "marking-definition--613f2e26-407d-48c7-9eca-b8e91df99dc9"
UU = "311b2d2d-f010-4473-83ec-1edf84858f4c"


def _obj():
    return stix2.v21.Identity(id="identity--" + UU, name="x", identity_class="individual", created="2020-01-01T00:00:00.000Z",
                              modified="2020-01-01T00:00:00.000Z")


def setattr_refused(name: str, v: int) -> bool:
    """
    pre: 1 <= len(name) <= 4
    post: _
    """
    o = _obj()
    try:
        type(o).__setattr__(o, name, v)      # (the setattr() builtin itself rejects CrossHair's symbolic str before the library's method runs)
    except ImmutableError:
        V.reached()
        return not name.startswith("_")
    except (AttributeError, TypeError, ValueError):
        # only a private name can get as far as object.__setattr__ (which rejects CrossHair's symbolic str: an artefact of the engine)
        V.reached()
        return name.startswith("_")
    V.reached()
    return name.startswith("_") and o.serialize() == _obj().serialize()


def _custom_objects():
    ext_id = "extension-definition--" + UU
    return [
        stix2.v21.Identity(id="identity--" + UU, name="x", identity_class="individual", x_foo="bar", x_list=[1], allow_custom=True),
        stix2.v20.Malware(id="malware--" + UU, name="m", labels=["l"], custom_properties={"x_foo": "bar", "zzz": 0}),
        stix2.v21.Campaign(id="campaign--" + UU, name="c", rank=5, toplevel="t",
                           extensions={ext_id: {"extension_type": "toplevel-property-extension"}}),
        stix2.v21.File(name="f", x_foo="bar", allow_custom=True),
        stix2.v21.Bundle(objects=[_obj()], x_foo=1, allow_custom=True),
        stix2.v21.ExternalReference(source_name="s", external_id="1", x_foo="bar", allow_custom=True),
    ]


NCUST = 6
EXTRA_NAMES = ["absent", "x_new", "name", "type", "serialize", "properties_populated", "object_properties"]


def setattr_any_property(oi: int, ni: int, how: int) -> bool:
    """
    pre: 0 <= oi < NCUST and 0 <= ni < 16 and 0 <= how < 4
    post: _
    """
    oi, ni, how = pick(oi, NCUST), pick(ni, 16), pick(how, 4)
    with Native():
        ok = run_setattr_case(oi, ni, how)
    V.reached()
    return ok


def run_setattr_case(oi, ni, how):
    """attribute/item assignment and deletion are refused for every property an instance carries -- specification, custom, extension -- and for
    names it does not carry; reads and the serialization are unchanged afterwards"""
    o = _custom_objects()[oi]
    names = list(o.keys()) + EXTRA_NAMES
    if ni >= len(names):
        return True
    name = names[ni]
    before = o.serialize()
    reads = {k: getattr(o, k) for k in o.keys()}
    try:
        if how == 0:
            setattr(o, name, "changed")
        elif how == 1:
            o[name] = "changed"
        elif how == 2:
            delattr(o, name)
        else:
            del o[name]
        refused = False
    except (ImmutableError, AttributeError, TypeError):
        refused = True
    if not refused:
        return False
    return o.serialize() == before and all(getattr(o, k) == v for k, v in reads.items()) and list(o.keys()) == list(reads)


def delattr_refused(pi: int) -> bool:
    """
    pre: 0 <= pi <= 3
    post: _
    """
    pi = pick(pi, 4)
    with Native():
        ok = run_del_case(pi)
    V.reached()
    return ok


def run_del_case(pi):
    o = _obj()
    name = ("name", "id", "created", "identity_class")[pi]
    before = o.serialize()
    for action in (lambda: delattr(o, name), lambda: o.__delitem__(name), lambda: o.__setitem__(name, 1), lambda: o._inner.__class__):
        try:
            action()
        except (ImmutableError, AttributeError, TypeError):
            pass
    return o.serialize() == before and name in o


# ---- deep copies share no mutable state
def containers(x, acc, path="$"):
    """every mutable container reachable from x (dict / list / _STIXBase inner), with its path"""
    if isinstance(x, _STIXBase):
        acc.append((path, x._inner))
        for k, v in x._inner.items():
            containers(v, acc, path + "." + k)
    elif isinstance(x, dict):
        acc.append((path, x))
        for k, v in x.items():
            containers(v, acc, path + "." + str(k))
    elif isinstance(x, list):
        acc.append((path, x))
        for i, v in enumerate(x):
            containers(v, acc, "%s[%d]" % (path, i))
    return acc


def rich_objects():
    proc = stix2.v21.Process(pid=1, environment_variables={"A": "b"}, extensions={"windows-process-ext": {"aslr_enabled": True, "startup_info": {"k": "v"}}})
    mal = stix2.v21.Malware(name="m", is_family=False, labels=["a"], external_references=[{"source_name": "s", "external_id": "1", "hashes": {"MD5": "0" * 32},
                                                                                            "x_tags": ["t1"]}],
                            x_list=[1, [2]], x_dict={"k": {"j": [3]}}, allow_custom=True,
                            granular_markings=[{"marking_ref": M1, "selectors": ["name"]}])
    od = stix2.v20.ObservedData(first_observed="2020-01-01T00:00:00Z", last_observed="2020-01-01T00:00:00Z", number_observed=1,
                                objects={"0": {"type": "file", "name": "f", "extensions": {"ntfs-ext": {"alternate_data_streams": [{"name": "a"}]}}},
                                         "1": {"type": "email-message", "is_multipart": False, "additional_header_fields": {"X-Hdr": ["y"]}}})
    net = stix2.v21.NetworkTraffic(protocols=["tcp"], src_ref="ipv4-addr--" + UU,
                                   extensions={"http-request-ext": {"request_method": "get", "request_value": "/", "request_header": {"H": ["v"]}}})
    bun = stix2.v21.Bundle(objects=[mal, _obj()], allow_custom=True)
    return [proc, mal, od, net, bun]


NRICH = 5


def deepcopy_independent(oi: int, how: int) -> bool:
    """
    pre: 0 <= oi < NRICH and 0 <= how <= 1
    post: _
    """
    oi, how = pick(oi, NRICH), pick(how, 2)
    with Native():
        ok = run_deepcopy_case(oi, how)
    V.reached()
    return ok


def run_deepcopy_case(oi, how):
    o = rich_objects()[oi]
    before = o.serialize()
    if how == 0:
        c = copy.deepcopy(o)
        if c != o or c.serialize() != before:
            return False
    else:
        if not {"created", "modified"} <= set(o._properties) or "revoked" not in o._properties:
            return True
        c = o.new_version(name="other") if "name" in o._properties else o.new_version()
    mine = {id(x): p for p, x in containers(o, [])}
    for p, x in containers(c, []):
        if id(x) in mine:
            return False            # a mutable container is shared between the original and the copy / new version
    return o.serialize() == before


# ---- a deep copy of an instance of every class equals its original and prints the same text, whatever form its timestamps were given in
BUILDABLE = gen.buildable()[0]
NBUILD = len(BUILDABLE)
CREATED_FORMS = [None, "2020-01-01T00:00:00Z", "2020-01-01T00:00:00.000Z", "2020-01-01T00:00:00.120000Z", "2020-01-01T00:00:00.123456Z"]


def deepcopy_every_class(bi: int) -> bool:
    """
    pre: 0 <= bi < NBUILD
    post: _
    """
    bi = pick(bi, NBUILD)
    with Native():
        ok = all(run_deepcopy_class_case(bi, f) for f in range(len(CREATED_FORMS)))
    V.reached()
    return ok


def run_deepcopy_class_case(bi, fi):
    ver, cat, name, cls, kw = BUILDABLE[bi]
    kw = copy.deepcopy(kw)
    if CREATED_FORMS[fi] is not None:
        if "created" not in cls._properties:
            return True
        kw["created"] = CREATED_FORMS[fi]
        if "modified" in cls._properties:
            kw["modified"] = CREATED_FORMS[fi]
    o = cls(**kw)
    before = o.serialize()
    c = copy.deepcopy(o)
    c2 = copy.deepcopy(c)
    return type(c) is type(o) and c == o and c.serialize() == before and c2.serialize() == before and o.serialize() == before


def timestamp_copies(pi: int, ci: int, us: int, how: int) -> bool:
    """
    pre: 0 <= pi <= 2 and 0 <= ci <= 1 and 0 <= us <= 3 and 0 <= how <= 2
    post: _
    """
    import pickle
    from stix2.utils import STIXdatetime, format_datetime
    pi, ci, us, how = pick(pi, 3), pick(ci, 2), pick(us, 4), pick(how, 3)
    with Native():
        x = STIXdatetime(2020, 1, 2, 3, 4, 5, [0, 120000, 123000, 123456][us], precision=["any", "second", "millisecond"][pi], precision_constraint=["exact", "min"][ci])
        c = copy.copy(x) if how == 0 else copy.deepcopy(x) if how == 1 else pickle.loads(pickle.dumps(x))
        ok = c == x and type(c) is type(x) and format_datetime(c) == format_datetime(x) and c.precision == x.precision and c.precision_constraint == x.precision_constraint
    V.reached()
    return ok


# ---- arguments are value-identical before and after every public operation
def arg_cases():
    od20 = {"type": "observed-data", "id": "observed-data--" + UU, "created": "2020-01-01T00:00:00.000Z", "modified": "2020-01-01T00:00:00.000Z",
            "first_observed": "2020-01-01T00:00:00Z", "last_observed": "2020-01-01T00:00:00Z", "number_observed": 1,
            "objects": {"0": {"type": "file", "name": "f", "extensions": {"ntfs-ext": {"alternate_data_streams": [{"name": "a"}]}}},
                        "1": {"type": "directory", "path": "p", "contains_refs": ["0"]}}}
    mal = {"type": "malware", "spec_version": "2.1", "id": "malware--" + UU, "created": "2020-01-01T00:00:00.000Z", "modified": "2020-01-01T00:00:00.000Z",
           "name": "m", "is_family": False, "labels": ["a", "b"], "external_references": [{"source_name": "s", "external_id": "1", "hashes": {"MD5": "0" * 32}}],
           "granular_markings": [{"marking_ref": M1, "selectors": ["name", "labels.[0]"]}], "object_marking_refs": [M1]}
    f21 = {"type": "file", "id": "file--" + UU, "name": "f", "extensions": {"ntfs-ext": {"sid": "s", "alternate_data_streams": [{"name": "a", "hashes": {"MD5": "0" * 32}}]}}}
    email = {"type": "email-addr", "value": "a@b.c", "belongs_to_ref": "0"}
    return od20, mal, f21, email


OPS = 37


def CompositeLatest(dicts):
    from stix2.datastore import CompositeDataSource
    from stix2.datastore.memory import MemorySource
    c = CompositeDataSource()
    c.add_data_sources([MemorySource([d], allow_custom=True) for d in dicts])
    return c.get(dicts[0]["id"]), c.all_versions(dicts[0]["id"]), c.query([])


def arguments_unchanged(op: int, twice: bool) -> bool:
    """
    pre: 0 <= op < OPS
    post: _
    """
    op = pick(op, OPS)
    twice = bool(twice)
    with Native():
        ok = run_arg_case(op, twice)
    V.reached()
    return ok


def run_arg_case(op, twice):
    od20, mal, f21, email = arg_cases()
    refs = {"0": "user-account"}
    kw = {"name": "m", "is_family": False, "labels": ["a"], "external_references": [{"source_name": "s", "external_id": "1"}]}
    objs9 = [mal, od20]
    objs10 = [mal, dict(mal, modified="2020-01-02T00:00:00.000Z")]
    sel13 = ["labels.[1]", "name"]
    sel14 = ["name"]
    obj = stix2.parse(json.loads(json.dumps(mal)))
    dflt8 = [{"source_name": "d", "external_id": "2"}]
    marks8 = [M1]
    factory8 = ObjectFactory(created_by_ref="identity--" + UU, external_references=dflt8, object_marking_refs=marks8, list_append=True)
    env8 = stix2.Environment(factory=ObjectFactory(external_references=dflt8))
    objs16 = [mal]
    rel16 = {"type": "relationship", "spec_version": "2.1", "id": "relationship--" + UU, "created": "2020-01-01T00:00:00.000Z", "modified": "2020-01-01T00:00:00.000Z",
             "relationship_type": "uses", "source_ref": mal["id"], "target_ref": "identity--" + UU}
    table = {
        0: ([od20], lambda: stix2.parse(od20, version="2.0")),
        1: ([mal], lambda: stix2.parse(mal)),
        2: ([mal], lambda: stix2.v21.Malware(**mal)),
        3: ([email, refs], lambda: stix2.parse_observable(email, refs, version="2.0")),
        4: ([email], lambda: stix2.v20.EmailAddress(**email)),          # a dangling reference must be refused every time
        5: ([od20["objects"]], lambda: P.ObservableProperty(spec_version="2.0").clean(od20["objects"], False)),
        6: ([f21["extensions"]], lambda: P.ExtensionsProperty(spec_version="2.1").clean(f21["extensions"], False)),
        7: ([mal], lambda: P.STIXObjectProperty(spec_version="2.1").clean(mal, False)),
        8: ([kw, dflt8, marks8], lambda: factory8.create(stix2.v21.Malware, object_marking_refs=[M2], **kw)),     # ONE factory, used repeatedly
        9: ([objs9], lambda: stix2.v21.Bundle(objects=objs9)),
        10: ([objs10], lambda: MemoryStore(objs10).query()),
        11: ([mal], lambda: versioning.new_version(mal, name="n", labels=None)),
        12: ([mal], lambda: versioning.revoke(mal)),
        13: ([mal, sel13], lambda: markings.add_markings(mal, M1, sel13)),
        14: ([mal, sel14], lambda: (markings.remove_markings(mal, M1, sel14), markings.clear_markings(mal, ["labels.[0]"]),
                                    markings.set_markings(mal, "en", sel14))),
        15: ([obj], lambda: (markings.add_markings(obj, M1, ["labels.[1]"]), obj.new_version(name="z"), obj.revoke(), copy.deepcopy(obj),
                             markings.remove_markings(obj, M1), stix2.v21.Bundle(obj), MemoryStore([obj]).query())),
    }
    table.update({
        16: ([objs16, rel16], lambda: stix2.v21.Bundle(objs16, rel16)),                        # a list the caller keeps, then a single item
        17: ([objs16, rel16], lambda: stix2.v21.Bundle(objs16, rel16, objects=[dict(rel16, id="relationship--" + UU.replace("3", "4"))])),
        18: ([objs16, rel16], lambda: MemoryStore(objs16).add(rel16)),
        19: ([kw, dflt8], lambda: env8.create(stix2.v21.Malware, **kw)),
    })
    ind20 = {"type": "indicator", "id": "indicator--" + UU, "created": "2020-01-01T00:00:00.000Z", "modified": "2020-01-01T00:00:00.000Z",
             "pattern": "[file:name = 'x']", "valid_from": "2020-01-01T00:00:00Z", "labels": ["benign"]}
    ind20b = dict(ind20, id="indicator--" + UU.replace("3", "4"))
    objs20 = [od20]
    one20, one21 = [ind20], [rel16]
    rel16b = dict(rel16, id="relationship--" + UU.replace("3", "5"))
    kw24 = dict(kw)
    del kw24["external_references"]
    table.update({
        20: ([objs20, ind20], lambda: stix2.v20.Bundle(objs20, ind20)),
        21: ([objs20, ind20, ind20b], lambda: stix2.v20.Bundle(objs20, ind20, objects=[ind20b])),
        22: ([objs20, one20, ind20b], lambda: stix2.v20.Bundle(objs20, one20, ind20b)),
        23: ([objs16, one21, rel16b], lambda: stix2.v21.Bundle(objs16, one21, rel16b)),
        # ONE factory with list defaults, per-call values given singly (appended to the defaults)
        24: ([kw24, dflt8, marks8], lambda: factory8.create(stix2.v21.Malware, object_marking_refs=M2, external_references={"source_name": "e", "external_id": "3"}, **kw24)),
    })
    # inputs that are NOT in the form the library would write: spellings it normalises (hash algorithm names, timestamps without the
    # millisecond digits, dict-kept objects of unregistered types) -- normalising is done on the library's copy, never on the caller's
    h25 = {"sha256": "0" * 64, "md5": "0" * 32}
    er26 = [{"source_name": "s", "external_id": "1", "hashes": {"sha-1": "0" * 40}}]
    mal26 = dict(mal, external_references=[{"source_name": "s", "external_id": "1", "hashes": {"md5": "0" * 32, "SHA256": "0" * 64}}], created="2020-01-01T00:00:00Z",
                 modified="2020-01-01T00:00:00.5Z")
    unreg = {"type": "x-unreg", "spec_version": "2.1", "id": "x-unreg--" + UU, "created": "2020-01-01T00:00:00Z", "modified": "2020-01-01T00:00:00.5Z", "x_h": {"md5": "0"}}
    unreg_b = {"type": "bundle", "id": "bundle--" + UU, "objects": [unreg, dict(unreg, modified="2020-01-02T00:00:00Z")]}
    od26 = json.loads(json.dumps(od20))
    od26["objects"]["0"]["hashes"] = {"md5": "0" * 32}
    od26["first_observed"] = "2020-01-01T00:00:00.000000Z"
    table.update({
        25: ([h25], lambda: (stix2.v21.File(name="f", hashes=h25), stix2.v20.File(name="f", hashes=h25), stix2.v21.ExternalReference(source_name="s", hashes=h25))),
        26: ([mal26, er26], lambda: (stix2.parse(mal26), stix2.v21.Identity(name="i", external_references=er26), versioning.new_version(mal26, external_references=er26))),
        27: ([unreg], lambda: (MemoryStore(allow_custom=True).add(unreg), MemoryStore([unreg], allow_custom=True).query(), stix2.Environment(store=MemoryStore(allow_custom=True)).add(unreg))),
        28: ([unreg_b], lambda: (MemoryStore(allow_custom=True).add(unreg_b), stix2.parse(unreg_b, allow_custom=True), stix2.v21.Bundle(unreg, allow_custom=True).serialize())),
        29: ([od26], lambda: (stix2.parse(od26, version="2.0"), MemoryStore([od26], version="2.0").query())),
        30: ([unreg], lambda: CompositeLatest([unreg, dict(unreg, modified="2020-01-01T00:00:00.500Z")])),
        31: ([unreg], lambda: (versioning.new_version(unreg, x_h={"sha1": "1"}), versioning.revoke(unreg), markings.add_markings(unreg, M1))),
        32: ([mal26], lambda: (markings.add_markings(mal26, M1, ["external_references.[0].hashes.md5"]), markings.get_markings(mal26, "external_references.[0].hashes"))),
    })
    # a value taken out of one finished object and handed to the constructor of another: the first object is an argument's owner and stays as it was
    donor_ms = stix2.v21.Identity(name="d", created="2020-01-01T00:00:00.000Z", modified="2020-01-01T00:00:00.100Z")           # millisecond / min values
    donor_any = stix2.v21.Indicator(pattern="[a:b = 1]", pattern_type="stix", valid_from="2020-01-01T00:00:00Z", valid_until="2021-01-01T00:00:00.5Z")   # precision any
    donor_20 = stix2.v20.Identity(name="d", identity_class="individual", created="2020-01-01T00:00:00.000Z", modified="2020-01-01T00:00:00.120Z")
    cp33 = {"x_keep": 1, "x_none": None, "x_empty": [], "x_zero": 0}
    table.update({
        33: ([donor_ms, donor_any], lambda: (stix2.v21.Indicator(pattern="[a:b = 1]", pattern_type="stix", valid_from=donor_ms.created, valid_until=donor_ms.modified),
                                            stix2.v21.Note(content="c", object_refs=[donor_ms.id], created=donor_any.valid_from, modified=donor_any.valid_until),
                                            stix2.v21.Campaign(name="c", first_seen=donor_ms.created, last_seen=donor_ms.modified))),
        34: ([donor_ms, donor_any, donor_20], lambda: (donor_ms.new_version(modified=donor_any.valid_until), stix2.v20.Campaign(name="c", first_seen=donor_20.created),
                                                      stix2.v21.Identity(name="e", created=donor_20.created, modified=donor_20.modified),
                                                      stix2.v20.Identity(name="e", identity_class="individual", created=donor_any.valid_from, modified=donor_any.valid_until),
                                                      MemoryStore([donor_ms, donor_any]).query(), stix2.utils.parse_into_datetime(donor_ms.created), stix2.utils.format_datetime(donor_ms.modified))),
        35: ([cp33], lambda: (stix2.v21.Identity(name="i", custom_properties=cp33), stix2.v20.Identity(name="i", identity_class="individual", custom_properties=cp33),
                              stix2.v21.Identity(name="j").new_version(custom_properties=cp33), ObjectFactory().create(stix2.v21.Identity, name="k", custom_properties=cp33))),
        36: ([dict(mal, custom_properties=cp33), cp33], lambda: (stix2.parse(dict(mal, custom_properties=cp33), allow_custom=True), MemoryStore(allow_custom=True).add(dict(mal, custom_properties=cp33)))),
    })
    args, fn = table[op]

    def dump():
        return json.dumps([a.serialize() if hasattr(a, "serialize") else a for a in args], sort_keys=True, default=str)
    snap = dump()
    outcomes = []
    results = []
    for _ in range(2 if twice else 1):
        try:
            results.append(fn())
            outcomes.append("ok")
        except (STIXError, ValueError, TypeError) as e:
            outcomes.append(type(e).__name__)
        if op == 3:
            # the sequence the property is about: the same dictionary reused afterwards must behave like a pristine one
            try:
                stix2.v20.EmailAddress(**email)
                outcomes.append("reuse-accepted")
            except STIXError:
                outcomes.append("reuse-refused")
        if dump() != snap:
            return False
    if op in (8, 24) and len(results) == 2:
        # a factory's defaults are the factory's: the second object is built from the same defaults as the first
        strip = lambda o: {k: v for k, v in json.loads(o.serialize()).items() if k not in ("id", "created", "modified")}   # noqa: E731
        if strip(results[0]) != strip(results[1]) or len(results[0]["external_references"]) != 2 or len(results[0]["object_marking_refs"]) != 2:
            return False
    if op == 3 and "reuse-accepted" in outcomes:
        return False
    return len(set(outcomes[::2] if op == 3 else outcomes)) == 1      # the same call on the same input gives the same outcome


# ---- marking operations on every layout of granular markings, dict and object inputs
M2 = "marking-definition--34098fce-860f-48ae-8e50-ebd3cc5e41da"
GM_LAYOUTS = [
    [{"marking_ref": M1, "selectors": ["name"]}],                                                       # one selector, one marking
    [{"marking_ref": M1, "selectors": ["name"]}, {"lang": "en", "selectors": ["description"]}],
    [{"marking_ref": M1, "selectors": ["name", "labels.[0]"]}],
    [{"marking_ref": M1, "selectors": ["name"]}, {"marking_ref": M2, "selectors": ["name"]}, {"marking_ref": M1, "selectors": ["labels"]}],
    [{"lang": "fr", "selectors": ["name"]}, {"lang": "fr", "selectors": ["name"]}],
]
MARK_OPS = [
    lambda o, sel: markings.add_markings(o, M2, sel), lambda o, sel: markings.add_markings(o, M1, sel), lambda o, sel: markings.remove_markings(o, M1, sel),
    lambda o, sel: markings.clear_markings(o, sel), lambda o, sel: markings.set_markings(o, M2, sel), lambda o, sel: markings.set_markings(o, "de", sel),
    lambda o, sel: markings.get_markings(o, sel, inherited=True, descendants=True), lambda o, sel: markings.is_marked(o, M1, sel),
    lambda o, sel: markings.is_marked(o, M2, sel, inherited=True), lambda o, sel: markings.is_marked(o, [M1, M2], sel, inherited=True, descendants=True),
    lambda o, sel: markings.is_marked(o, "marking-definition--f88d31f6-486f-44da-b317-01333bde0b82", sel, inherited=True),
    lambda o, sel: (markings.is_marked(o, M2, sel, inherited=True), markings.is_marked(o, M2, sel, inherited=True), markings.get_markings(o, sel, inherited=True)),
    lambda o, sel: markings.add_markings(o, M2), lambda o, sel: markings.remove_markings(o, M1), lambda o, sel: markings.clear_markings(o),
    lambda o, sel: markings.set_markings(o, [M2]),
]
SELS = [["name"], ["description"], ["labels"], ["name", "labels.[0]"]]
NGL, NMO, NSL = len(GM_LAYOUTS), len(MARK_OPS), len(SELS)


def marking_ops_leave_input(gi: int, oi: int, si: int, form: int) -> bool:
    """
    pre: 0 <= gi < NGL and 0 <= oi < NMO and 0 <= si < NSL and 0 <= form < 2
    post: _
    """
    gi, oi, si, form = pick(gi, NGL), pick(oi, NMO), pick(si, NSL), pick(form, 2)
    with Native():
        ok = run_marking_input_case(gi, oi, si, form)
    V.reached()
    return ok


def run_marking_input_case(gi, oi, si, form):
    """the object given to a marking function -- dict or library object -- and the selector list are exactly as before, whatever the outcome,
    and what is returned shares no mutable container with the input"""
    d = {"type": "malware", "spec_version": "2.1", "id": "malware--" + UU, "created": "2020-01-01T00:00:00.000Z", "modified": "2020-01-01T00:00:00.000Z",
         "name": "m", "description": "d", "is_family": False, "labels": ["a", "b"], "object_marking_refs": [M1],
         "granular_markings": copy.deepcopy(GM_LAYOUTS[gi])}
    o = d if form == 0 else stix2.parse(d)
    sel = list(SELS[si])
    snap = json.dumps(d, sort_keys=True) if form == 0 else o.serialize()
    before_ids = {id(c) for _, c in containers(o, [])}
    try:
        out = MARK_OPS[oi](o, sel)
    except (STIXError, ValueError, TypeError, KeyError):
        out = None
    after = json.dumps(d, sort_keys=True) if form == 0 else o.serialize()
    if after != snap or sel != SELS[si]:
        return False
    if out is not None and out is not o and isinstance(out, (dict, _STIXBase)):
        if any(id(c) in before_ids for _, c in containers(out, [])):
            return False
        # the result can be changed (dict form) without the input noticing
        if isinstance(out, dict) and out.get("granular_markings"):
            for g in out["granular_markings"]:
                if isinstance(g, dict):
                    g["selectors"].append("zzz")
            if json.dumps(d, sort_keys=True) != snap:
                return False
    return True


# ---- the extensions dictionary a caller hands in (all shapes) stays the caller's, also for custom classes that add their own extension entry
def extensions_argument(shape: int, user: int, twice: bool) -> bool:
    """
    pre: 0 <= shape < 5 and 0 <= user < 4
    post: _
    """
    shape, user, twice = pick(shape, 5), pick(user, 4), pickb(twice)
    with Native():
        ok = run_extensions_argument(shape, user, twice)
    V.reached()
    return ok


def run_extensions_argument(shape, user, twice):
    from stix2 import registry
    saved = {k: dict(v) for k, v in registry.STIX2_OBJ_MAPS["2.1"].items()}
    try:
        EXT = "extension-definition--dddddddd-f010-4473-83ec-1edf84858f4c"
        OWN = "extension-definition--eeeeeeee-f010-4473-83ec-1edf84858f4c"

        @stix2.v21.CustomExtension(EXT, [("k", P.StringProperty())])
        class PropExt:
            extension_type = "property-extension"

        @stix2.v21.CustomObject("x-asset", [("name", P.StringProperty(required=True))], extension_name=OWN)
        class Asset:
            pass

        @stix2.v21.CustomObservable("x-probe", [("name", P.StringProperty(required=True))], ["name"], extension_name=OWN.replace("eeeeeeee", "ffffffff"))
        class Probe:
            pass
        exts = [{}, {EXT: PropExt(k="v")}, {EXT: {"extension_type": "property-extension", "k": "v"}},
                {EXT: PropExt(k="v"), "extension-definition--" + UU: {"extension_type": "property-extension", "q": 1}}, {EXT: PropExt()}][shape]
        snap_keys, snap_ids, snap = list(exts), [id(v) for v in exts.values()], json.dumps({k: (v.serialize() if hasattr(v, "serialize") else v) for k, v in exts.items()}, sort_keys=True)
        earlier = stix2.v21.Identity(name="n", identity_class="individual", extensions=exts) if exts else None
        earlier_text = earlier.serialize() if earlier else None
        for _ in range(2 if twice else 1):
            if user == 0:
                Asset(name="a", extensions=exts)
            elif user == 1:
                Probe(name="p", extensions=exts)
            elif user == 2:
                versioning.new_version(stix2.v21.Identity(name="n", identity_class="individual", created="2020-01-01T00:00:00.000Z",
                                                          modified="2020-01-01T00:00:00.000Z"), extensions=exts) if exts else None
            else:
                stix2.v21.File(name="f", extensions=exts) if exts else stix2.v21.File(name="f")
        now = json.dumps({k: (v.serialize() if hasattr(v, "serialize") else v) for k, v in exts.items()}, sort_keys=True)
        if list(exts) != snap_keys or [id(v) for v in exts.values()] != snap_ids or now != snap:
            return False
        return earlier is None or earlier.serialize() == earlier_text
    finally:
        for k, v in saved.items():
            registry.STIX2_OBJ_MAPS["2.1"][k].clear()
            registry.STIX2_OBJ_MAPS["2.1"][k].update(v)


# ---- thorough: every class of both versions (enriched instance): argument snapshots and copy independence
def _class_docs():
    from props import h_C01, h_C03
    out = []
    for ver, cat, name, cls, kw in h_C03.CLASSES:
        try:
            doc = h_C01.enrich(ver, cat, name, cls, h_C03.base_doc(cls, kw), 2)
            if "revoked" in doc:
                doc["revoked"] = False
            out.append((ver, cat, name, cls, doc))
        except Exception:  # noqa: BLE001
            continue
    return out


_DOCS = []
NCLS13 = 59


def every_class(ci: int) -> bool:
    """
    pre: 0 <= ci < NCLS13
    post: _
    """
    ci = pick(ci, NCLS13)
    with Native():
        ok = run_every_class_case(ci)
    V.reached()
    return ok


def run_every_class_case(ci):
    if not _DOCS:
        _DOCS.extend(_class_docs())
    if ci >= len(_DOCS):
        return True
    ver, cat, name, cls, doc = _DOCS[ci]
    arg = json.loads(json.dumps(doc))
    snap = json.dumps(arg, sort_keys=True)

    def parse_it():
        return stix2.parse(arg, version=ver) if cat == "objects" else stix2.parse_observable(arg, version=ver)
    o = parse_it()
    o2 = parse_it()                                 # the same dictionary reused
    if json.dumps(arg, sort_keys=True) != snap or o != o2:
        return False
    cls(**arg)
    if json.dumps(arg, sort_keys=True) != snap:
        return False
    before = o.serialize()
    c = copy.deepcopy(o)
    mine = {id(x) for _, x in containers(o, [])}
    if c != o or any(id(x) in mine for _, x in containers(c, [])):
        return False
    if {"created", "modified", "revoked"} <= set(cls._properties):
        n = o.new_version()
        if any(id(x) in mine for _, x in containers(n, [])):
            return False
        o.revoke()
        if hasattr(o, "add_markings"):
            m = o.add_markings(M1)
            if any(id(x) in mine for _, x in containers(m, [])):
                return False
    if name != "bundle":
        stix2.v21.Bundle(o, allow_custom=True) if ver == "2.1" else stix2.v20.Bundle(o, allow_custom=True)
        if "id" in o:
            MemoryStore([o]).query()
    return o.serialize() == before and json.dumps(arg, sort_keys=True) == snap


# ---- objects the library handed out earlier keep their behaviour: environments do not share defaults, decorated classes are left as they were
def earlier_objects_unaffected(case: int) -> bool:
    """
    pre: 0 <= case <= 3
    post: _
    """
    case = pick(case, 4)
    with Native():
        ok = run_earlier_case(case)
    V.reached()
    return ok


def run_earlier_case(case):
    from stix2 import properties as SP
    creator = "identity--" + UU
    if case == 0:
        e1, e2 = stix2.Environment(), stix2.Environment()
        before = e2.create(stix2.v21.Identity, name="n")
        e1.set_default_creator(creator)
        e1.set_default_external_refs([{"source_name": "s", "external_id": "1"}])
        after = e2.create(stix2.v21.Identity, name="n")
        fresh = stix2.Environment().create(stix2.v21.Identity, name="n")
        return all("created_by_ref" not in o and "external_references" not in o for o in (before, after, fresh))
    if case == 1:
        f1, f2 = ObjectFactory(), ObjectFactory()
        f1.set_default_creator(creator)
        return "created_by_ref" not in f2.create(stix2.v21.Identity, name="n")
    # a class handed to a registration decorator is the caller's: it keeps exactly the attributes it had (also when the registration is refused),
    # and can be registered again under another name
    ext = "extension-definition--d13d13d1-f010-4473-83ec-1edf8485%04x" % (case * 7 + len(stix2.registry.STIX2_OBJ_MAPS["2.1"]["extensions"]))

    class Plain:
        pass
    attrs = set(vars(Plain))
    deco = stix2.v21.CustomObject if case == 2 else stix2.v21.CustomObservable
    taken = "identity" if case == 2 else "file"
    try:
        deco(taken, [("p", SP.StringProperty())], extension_name=ext)(Plain)
        return False
    except (STIXError, ValueError):
        pass
    if set(vars(Plain)) != attrs:
        return False
    name = "x-c13-%s-%d" % ("obj" if case == 2 else "sco", len(stix2.registry.STIX2_OBJ_MAPS["2.1"]["extensions"]))
    good = deco(name, [("p", SP.StringProperty())], extension_name=ext)(Plain)
    if set(vars(Plain)) != attrs:
        return False
    plain_name = name + "b"
    again = deco(plain_name, [("p", SP.StringProperty())])(Plain)          # the same class, no extension this time
    try:
        a, b = good(p="v"), again(p="v")
    except Exception:  # noqa: BLE001
        return False
    ok = ext in a.get("extensions", {}) and "extensions" not in b
    for cat in ("objects", "observables"):
        for n in (name, plain_name):
            stix2.registry.STIX2_OBJ_MAPS["2.1"][cat].pop(n, None)
    stix2.registry.STIX2_OBJ_MAPS["2.1"]["extensions"].pop(ext, None)
    return ok


# ---- objects admitted in interoperability mode (identifiers that are not RFC 4122 UUIDs) are copied and versioned like any other
def interoperability_objects(case: int, op: int) -> bool:
    """
    pre: 0 <= case <= 3 and 0 <= op <= 4
    post: _
    """
    case, op = pick(case, 4), pick(op, 5)
    with Native():
        ok = run_interop_case(case, op)
    V.reached()
    return ok


def run_interop_case(case, op):
    weird = "identity--00000000-0000-0000-0000-000000000001"
    mk = [lambda: stix2.v20.Identity(id=weird, name="n", identity_class="individual", interoperability=True),
          lambda: stix2.v21.Identity(id="identity--aaaaaaaa-0000-0000-0000-000000000001", name="n", interoperability=True),
          lambda: stix2.parse({"type": "identity", "spec_version": "2.1", "id": weird, "created": "2020-01-01T00:00:00.000Z", "modified": "2020-01-01T00:00:00.000Z", "name": "n",
                               "created_by_ref": "identity--00000000-0000-0000-0000-000000000009"}, interoperability=True),
          lambda: stix2.v21.Relationship(weird, "uses", "malware--00000000-0000-0000-0000-000000000002", interoperability=True)][case]
    o = mk()
    before = o.serialize()
    try:
        if op == 0:
            r = copy.deepcopy(o)
            ok = r == o and r.serialize() == before
        elif op == 1:
            r = o.new_version(labels=["x"]) if case != 3 else o.new_version(description="d")
            ok = r.id == o.id and r.created == o.created and r.modified > o.modified
        elif op == 2:
            r = o.revoke()
            ok = r.revoked is True and r.id == o.id
        elif op == 3:
            r = markings.add_markings(o, M1)
            ok = r.object_marking_refs == [M1] and r.id == o.id
        else:
            r = markings.add_markings(o, M1, ["id"])
            ok = markings.is_marked(r, M1, ["id"]) and r.id == o.id
    except (STIXError, ValueError, TypeError):
        return False
    return ok and o.serialize() == before
