"""SMT jobs over the LIVE property tables (introspected on every run)."""
import time

import z3

from props import gen
from stix2 import properties as P
from stix2.utils import Precision, PrecisionConstraint, to_enum


def replay_modified_precision(version, category, name):
    """real class: modified/created carry the precision new_version assumes for the spec version, observed through a real object:
    a sub-millisecond modified survives (2.1) / is truncated to exactly 3 digits (2.0) on serialization"""
    import json
    from stix2 import registry
    cls = registry.STIX2_OBJ_MAPS[version][category][name]
    kw = dict(gen.minimal(cls, version), created="2020-01-01T00:00:00.000Z", modified="2020-01-01T00:00:00.123456Z")
    got = json.loads(cls(**kw).serialize())["modified"]
    return got == ("2020-01-01T00:00:00.123456Z" if version == "2.1" else "2020-01-01T00:00:00.123Z")


def job_modified_precision(tier, seed):
    """C05.L2: for every versionable class of both registries the live TimestampProperty of 'modified' (and 'created') has precision
    millisecond with constraint 'min' (2.1) / 'exact' (2.0) -- exactly what new_version/_fudge_modified assume.  One z3 query per slot:
    exists (p, c). impl(p, c) and not spec(p, c) over the enumerations."""
    t0 = time.time()
    q, cands, samples, n = 0, [], [], 0
    for ver, cat, name, cls in gen.all_classes():
        props = cls._properties
        if not {"created", "modified", "revoked"} <= set(props):
            continue
        for slot in ("modified", "created"):
            prop = props[slot]
            n += 1
            if not isinstance(prop, P.TimestampProperty):
                cands.append({"call": "replay_modified_precision(%r, %r, %r)" % (ver, cat, name), "desc": "%s.%s is not a timestamp" % (name, slot)})
                continue
            ip = to_enum(prop.precision, Precision).value
            ic = to_enum(prop.precision_constraint, PrecisionConstraint).value
            sp, sc = Precision.MILLISECOND.value, (PrecisionConstraint.MIN if ver == "2.1" else PrecisionConstraint.EXACT).value
            p, c = z3.Ints("p c")
            s = z3.Solver()
            s.add(z3.And(p == ip, c == ic), z3.Not(z3.And(p == sp, c == sc)))
            q += 1
            r = str(s.check())
            if r == "sat":
                cands.append({"call": "replay_modified_precision(%r, %r, %r)" % (ver, cat, name),
                              "desc": "%s %s.%s has precision %s/%s" % (ver, name, slot, prop.precision, prop.precision_constraint)})
            elif len(samples) < 3:
                samples.append({"slot": "%s %s.%s" % (ver, name, slot), "query": "impl(p,c) and not spec(p,c)", "result": r})
    res = {"paths": n, "decisions": n, "queries": q, "solver_s": round(time.time() - t0, 3), "reached": n > 0, "samples": samples, "validated": 0}
    if cands:
        res.update(verdict="CANDIDATE", candidates=cands[:4], detail="; ".join(c["desc"] for c in cands[:4]))
    else:
        res.update(verdict="HOLDS", detail="%d timestamp slots agree with the versioning assumptions" % n)
    return res
