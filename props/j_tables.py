"""SMT jobs over the LIVE property tables (introspected on every run)."""
import time

import z3

from props import gen
from stix2 import properties as P
from stix2.utils import Precision, PrecisionConstraint, to_enum


def replay_modified_precision(version, category, name):
    """real class: modified/created carry the precision new_version assumes for the spec version, observed through a real object:
    a sub-millisecond modified survives (2.1) / is truncated to exactly 3 digits (2.0) on serialization"""
    import json
    from stix2 import registry
    cls = registry.STIX2_OBJ_MAPS[version][category][name]
    kw = dict(gen.minimal(cls, version), created="2020-01-01T00:00:00.000Z", modified="2020-01-01T00:00:00.123456Z")
    got = json.loads(cls(**kw).serialize())["modified"]
    return got == ("2020-01-01T00:00:00.123456Z" if version == "2.1" else "2020-01-01T00:00:00.123Z")


def job_modified_precision(tier, seed):
    """C05.L2: for every versionable class of both registries the live TimestampProperty of 'modified' (and 'created') has precision
    millisecond with constraint 'min' (2.1) / 'exact' (2.0) -- exactly what new_version/_fudge_modified assume.  One z3 query per slot:
    exists (p, c). impl(p, c) and not spec(p, c) over the enumerations."""
    t0 = time.time()
    q, cands, samples, n = 0, [], [], 0
    for ver, cat, name, cls in gen.all_classes():
        props = cls._properties
        if not {"created", "modified", "revoked"} <= set(props):
            continue
        for slot in ("modified", "created"):
            prop = props[slot]
            n += 1
            if not isinstance(prop, P.TimestampProperty):
                cands.append({"call": "replay_modified_precision(%r, %r, %r)" % (ver, cat, name), "desc": "%s.%s is not a timestamp" % (name, slot)})
                continue
            ip = to_enum(prop.precision, Precision).value
            ic = to_enum(prop.precision_constraint, PrecisionConstraint).value
            sp, sc = Precision.MILLISECOND.value, (PrecisionConstraint.MIN if ver == "2.1" else PrecisionConstraint.EXACT).value
            p, c = z3.Ints("p c")
            s = z3.Solver()
            s.add(z3.And(p == ip, c == ic), z3.Not(z3.And(p == sp, c == sc)))
            q += 1
            r = str(s.check())
            if r == "sat":
                cands.append({"call": "replay_modified_precision(%r, %r, %r)" % (ver, cat, name),
                              "desc": "%s %s.%s has precision %s/%s" % (ver, name, slot, prop.precision, prop.precision_constraint)})
            elif len(samples) < 3:
                samples.append({"slot": "%s %s.%s" % (ver, name, slot), "query": "impl(p,c) and not spec(p,c)", "result": r})
    res = {"paths": n, "decisions": n, "queries": q, "solver_s": round(time.time() - t0, 3), "reached": n > 0, "samples": samples, "validated": 0}
    if cands:
        res.update(verdict="CANDIDATE", candidates=cands[:4], detail="; ".join(c["desc"] for c in cands[:4]))
    else:
        res.update(verdict="HOLDS", detail="%d timestamp slots agree with the versioning assumptions" % n)
    return res


# ---------------------------------------------------------------- C02.b / C03.b: every slot vs the frozen specification model (SMT)
def _slot_formula(desc, v_int, v_str, v_kind, present, cls_of):
    """accept-set of one slot as a z3 term over a value descriptor (kind tag, integer value, string value, presence)"""
    K = desc["kind"]
    conds = []
    if "fixed" in desc and isinstance(desc["fixed"], str):
        conds.append(v_str == z3.StringVal(desc["fixed"]))
    if K in ("IntegerProperty", "FloatProperty"):
        if desc.get("min") is not None:
            conds.append(v_int >= int(desc["min"]))
        if desc.get("max") is not None:
            conds.append(v_int <= int(desc["max"]))
    if K == "EnumProperty":
        conds.append(z3.Or([v_str == z3.StringVal(a) for a in desc["allowed"]] or [z3.BoolVal(False)]))
    if K == "TimestampProperty":
        conds.append(v_str == z3.StringVal("%s/%s" % (desc.get("precision"), desc.get("constraint"))))
    if K == "ReferenceProperty":
        member = z3.Or([v_str == z3.StringVal(s) for s in desc["specifics"]] + [cls_of(v_str) == z3.StringVal(g) for g in desc["generics"]] +
                       [z3.BoolVal(False)])
        conds.append(member if desc["auth"] == "white" else z3.Not(member))
    if K == "ObjectReferenceProperty" and desc.get("valid_types"):
        conds.append(z3.Or([v_str == z3.StringVal(s) for s in desc["valid_types"]]))
    if K == "HashesProperty":
        conds.append(z3.Or([v_str == z3.StringVal(a) for a in desc["hash_names"]] or [z3.BoolVal(False)]))
    if K == "IDProperty":
        conds.append(v_str == z3.StringVal(desc["prefix"]))
    if desc.get("spec_version") is not None and K in ("DictionaryProperty", "ExtensionsProperty", "HashesProperty", "ObservableProperty",
                                                        "STIXObjectProperty", "IDProperty", "TypeProperty", "ReferenceProperty"):
        conds.append(v_kind == z3.StringVal("sv:" + str(desc["spec_version"])))
    ok_value = z3.And(conds) if conds else z3.BoolVal(True)
    # absent is acceptable iff the property is not required (a default supplies the value)
    return z3.If(present, ok_value, z3.BoolVal(not desc["required"]))


def _shape(desc):
    """structural signature that must agree exactly (kind, nesting, optional-default bookkeeping)"""
    d = {k: desc.get(k) for k in ("kind", "has_default", "class")}
    if "contained" in desc:
        d["contained"] = _shape(desc["contained"]) if "kind" in desc["contained"] and desc["contained"]["kind"] != "object" else desc["contained"]
    if "fixed" in desc and not isinstance(desc["fixed"], str):
        d["fixed"] = desc["fixed"]
    return d


def replay_slot(ver, cat, typ, pname):
    """live slot vs frozen model, observed through the REAL property object: boundary probes derived from both descriptions are cleaned
    by the live property and judged by the independent validator of the frozen description; acceptance must agree."""
    from props import gen, specmodel
    from stix2 import registry
    frozen = specmodel.frozen_model()
    fdesc = frozen[ver][cat][typ]["props"].get(pname)
    cls = registry.STIX2_OBJ_MAPS[ver][cat][typ] if cat != "embedded" else None
    if cls is None:
        live = specmodel.live_model()[ver][cat].get(typ, {}).get("props", {}).get(pname)
        return live == fdesc
    prop = cls._properties.get(pname)
    if (prop is None) != (fdesc is None):
        return False
    ldesc = specmodel.describe(prop)
    if _shape(ldesc) != _shape(fdesc) or ldesc["required"] != fdesc["required"]:
        return False
    probes = []
    for d in (ldesc, fdesc, ldesc.get("contained") or {}, fdesc.get("contained") or {}):
        for k in ("min", "max"):
            if d.get(k) is not None:
                probes += [d[k] - 1, d[k], d[k] + 1]
        probes += list(d.get("allowed") or [])
        for t in (d.get("specifics") or []):
            probes.append("%s--%s" % (t, gen.UU))
    if fdesc["kind"] in ("IntegerProperty", "FloatProperty") or (fdesc.get("contained") or {}).get("kind") in ("IntegerProperty",):
        probes += [-1, 0, 100, 101, 65535, 65536]
    if fdesc["kind"] == "ReferenceProperty" or (fdesc.get("contained") or {}).get("kind") == "ReferenceProperty":
        probes += ["%s--%s" % (t, gen.UU) for t in gen.REF_PREF]
    elem = fdesc.get("contained") if fdesc["kind"] == "ListProperty" else None
    for v in probes:
        val = [v] if elem is not None else v
        try:
            prop.clean(val, False)
            got = True
        except Exception:  # noqa: BLE001
            got = False
        try:
            specmodel.check_value(fdesc, val, frozen, ver, pname)
            want = True
            if (elem or fdesc)["kind"] == "ReferenceProperty":
                want = _ref_accepts(elem or fdesc, v)
        except specmodel.Invalid:
            want = False
        if got != want:
            return False
    return ldesc == fdesc


def _ref_accepts(desc, value):
    """frozen reference rule evaluated on a concrete id (type classes from the frozen model's own registries)"""
    from props import specmodel
    m = specmodel.frozen_model()
    t = value.split("--", 1)[0]
    ver = desc.get("spec_version") or "2.1"
    cls = None
    if t in m[ver]["observables"]:
        cls = "SCO"
    elif t in ("relationship", "sighting"):
        cls = "SRO"
    elif t in m[ver]["objects"] and t not in ("bundle", "marking-definition", "language-content", "extension-definition"):
        cls = "SDO"
    member = t in desc["specifics"] or (cls in desc["generics"])
    return member if desc["auth"] == "white" else not member


def job_slot_model(tier, seed):
    """C02.b / C03.b: for every slot of every class of both registries (and embedded types) the LIVE Property instance is introspected and its
    accept-set compared with the frozen specification model by z3: exists v. impl(v) and not spec(v) (C02) and the converse (C03)."""
    from props import specmodel
    t0 = time.time()
    frozen, live = specmodel.frozen_model(), specmodel.live_model()
    v_int, present = z3.Int("v"), z3.Bool("present")
    v_str, v_kind = z3.String("s"), z3.String("k")
    cls_of = z3.Function("cls_of", z3.StringSort(), z3.StringSort())
    q, n, cands, samples = 0, 0, [], []
    for ver in sorted(frozen):
        for cat in sorted(frozen[ver]):
            for typ in sorted(set(frozen[ver][cat]) | set(live.get(ver, {}).get(cat, {}))):
                fz = frozen[ver][cat].get(typ)
                lv = live.get(ver, {}).get(cat, {}).get(typ)
                if fz is None or lv is None:
                    if fz is not None:          # a class disappeared from the live registry
                        cands.append({"call": "replay_slot(%r, %r, %r, 'type')" % (ver, cat, typ), "desc": "%s %s %s missing from live registry" % (ver, cat, typ)})
                    continue                    # classes only in the live registry are custom registrations (C19)
                if fz["order"] != lv["order"]:
                    first = next((a for a, b in zip(fz["order"] + [None], lv["order"] + [None]) if a != b), None)
                    cands.append({"call": "replay_slot(%r, %r, %r, %r)" % (ver, cat, typ, first or fz["order"][0]),
                                  "desc": "%s %s: property set/order differs from the specification order at %r" % (ver, typ, first)})
                for pname in fz["order"]:
                    fd, ld = fz["props"][pname], lv["props"].get(pname)
                    n += 1
                    if ld is None:
                        continue
                    if _shape(fd) != _shape(ld):
                        cands.append({"call": "replay_slot(%r, %r, %r, %r)" % (ver, cat, typ, pname), "desc": "%s %s.%s: kind/structure differs" % (ver, typ, pname)})
                        continue
                    pairs = [(fd, ld)]
                    if "contained" in fd and fd["contained"].get("kind") != "object":
                        pairs.append((fd["contained"], ld["contained"]))
                    for f_, l_ in pairs:
                        impl = _slot_formula(l_, v_int, v_str, v_kind, present, cls_of)
                        spec = _slot_formula(f_, v_int, v_str, v_kind, present, cls_of)
                        for direction, a, b in (("C02 impl accepts, spec refuses", impl, spec), ("C03 spec accepts, impl refuses", spec, impl)):
                            s = z3.Solver()
                            s.add(a, z3.Not(b))
                            q += 1
                            r = str(s.check())
                            if r == "sat":
                                cands.append({"call": "replay_slot(%r, %r, %r, %r)" % (ver, cat, typ, pname),
                                              "desc": "%s %s.%s: %s (witness %s)" % (ver, typ, pname, direction, str(s.model())[:120])})
                            elif r != "unsat":
                                return {"verdict": "INCONCLUSIVE", "detail": "solver %s on %s.%s" % (r, typ, pname)}
                            elif len(samples) < 3 and direction.startswith("C02") and ("min" in f_ or "allowed" in f_):
                                samples.append({"slot": "%s %s.%s" % (ver, typ, pname), "query": "impl(v) and not spec(v)", "result": "unsat"})
    seen, out = set(), []
    for c in cands:
        if c["call"] not in seen:
            seen.add(c["call"])
            out.append(c)
    res = {"paths": n, "decisions": n, "queries": q, "solver_s": round(time.time() - t0, 2), "reached": n > 0, "validated": 0, "samples": samples,
           "extra": {"slots": n, "classes": sum(len(frozen[v][c]) for v in frozen for c in frozen[v]), "wall_s": round(time.time() - t0, 1)}}
    if out:
        res.update(verdict="CANDIDATE", candidates=out[:40], detail="%d slot(s) differ from the frozen model: %s" % (len(out), "; ".join(c["desc"] for c in out[:3])))
    else:
        res.update(verdict="HOLDS", detail="%d slots agree with the frozen specification model" % n)
    return res
