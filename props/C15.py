"""C15 -- timestamps are written in canonical form, truncated, order-preserving."""
from engine.spec import CH, JOB
from props.j_time import STUB_NOTES

M = "props.j_time"
F = ["stix2.utils.format_datetime", "stix2.utils.parse_into_datetime", "stix2.utils.to_enum"]

META = {
    "engines": ["pysym", "crosshair"],
    "level_text": "Bounded symbolic model checking of the real format_datetime / parse_into_datetime source (AST re-read from /repo on every run, "
                  "interpreted over z3 integers and per-character symbolic strings): every year 1-9999, every field value, all 10^6 microsecond "
                  "values, naive and UTC-aware, 3 precisions x 2 constraints, input fraction length 0-9 with symbolic digits; one QF_LIA query per "
                  "feasible path against an independent integer-arithmetic formatter. Right level: the kernels are digit manipulation, where "
                  "boundary values (year < 1000, 999999 us, trailing zeros) are what a sample misses and a solver query covers.",
    "level_text_more": 'Also: 7 non-zero UTC offsets x 6 instants x 3 tz implementations and plain dates (enumerated, independent days-from-civil arithmetic). Ambiguous local times of a fold-aware tzinfo (fold 0/1) through 4 routes; deep copies and re-reads write the same text. Rounds 5-6: the process`s local UTC offset is a symbolic variable of the format_datetime model (naive values must not be read in the local zone); witnesses replayed under TZ.',
    "level_note": "Stubs (contract-tested each run): glibc strftime (unpadded %Y), canonical-width strptime, pytz localize/astimezone for UTC, "
                  "STIXdatetime metadata. Non-zero UTC offsets and date inputs are covered only by enumerated cases (C astimezone/combine cannot be modelled); Feb 29 in the symbolic model, "
                  "non-canonical-width input text.",
    "technique": "AST-to-SMT symbolic interpretation of the real functions (pysym over z3, QF_LIA), per-path unsat queries; witnesses replayed natively",
    "outside": ["non-zero UTC offsets and dates beyond the enumerated table", "leap days in the symbolic model", "input text with 1-digit month/day/time fields (strptime accepts them)"],
    "assumptions": STUB_NOTES,
}


def obligations(tier):
    return [
        JOB("format_is_canonical_truncated", M, "job_format", 300, functions=F[:1], stubs=STUB_NOTES,
            bounds="years 1..9999, all field values, all 10^6 microsecond values (symbolic digits), naive / pytz.utc / other zero-offset tzinfo, 3x2 precision settings"),
        JOB("parse_format_fixed_point", M, "job_parse_format", 900, functions=F, stubs=STUB_NOTES,
            bounds="every canonical text with no fraction or 0..8 (quick) / 0..9 (thorough) fraction digits, symbolic digits and fields, 3x2 settings"),
        JOB("timestamp_property_clean", M, "job_property_clean", 600, functions=["stix2.properties.TimestampProperty.clean"] + F[:2], stubs=STUB_NOTES,
            bounds="6 property settings x (plain datetime or STIXdatetime carrying any of 6 other settings) x naive/UTC-aware; all fields symbolic"),
        CH("nonzero_offsets_enumerated", "props.h_C15", "offsets", 300, mode="E1s", functions=F[:2],
           bounds="7 UTC offsets (-12:00..+14:00 incl. +05:45, -05:30), each also with 5 sub-second / half-minute additions, x 8 instants (day/year rollover, leap day, year 999/1/9999) x 6 settings x 3 tz kinds; "
                  "independent calendar arithmetic (days-from-civil); enumeration, the symbolic model does not cover C astimezone"),
        CH("ambiguous_local_times", "props.h_C15", "fold_inputs", 300, mode="E1s", functions=["stix2.utils.STIXdatetime.__new__", "stix2.utils.parse_into_datetime",
           "stix2.utils.format_datetime", "stix2.properties.TimestampProperty.clean"],
           bounds="6 local times around a fall-back transition of a fold-aware tzinfo (fold 0 / 1) x 6 settings x 4 routes (STIXdatetime, parse_into_datetime, property, object)"),
        CH("timestamp_objects_into_constructors", "props.h_C15", "timestamp_objects", 300, mode="E1s", functions=F[1:2] + ["stix2.v20.common._should_set_millisecond"],
           bounds="STIXdatetime values carrying each of the 6 precision settings x 4 microsecond patterns into 6 constructors (2.0/2.1 marking definition, identity, "
                  "sighting): write/read/write fixed point; deep copies write what the original wrote; a created time given as an ObjectFactory / Environment default is written as when given directly"),
        CH("date_inputs_enumerated", "props.h_C15", "dates", 300, mode="E1s", functions=F[1:2], bounds="8 dates x 6 settings (midnight UTC)"),
        JOB("order_preserved", M, "job_order", 60, engine="smt", functions=F[1:2],
            bounds="all pairs of microsecond values 0..999999, 3x2 settings (z3 Int, no bound on the arithmetic)"),
    ]
