"""C15 -- timestamps are written in canonical form, truncated, order-preserving."""
from engine.spec import JOB
from props.j_time import STUB_NOTES

M = "props.j_time"
F = ["stix2.utils.format_datetime", "stix2.utils.parse_into_datetime", "stix2.utils.to_enum"]

META = {
    "engines": ["pysym"],
    "level_text": "Bounded symbolic model checking of the real format_datetime / parse_into_datetime source (AST re-read from /repo on every run, "
                  "interpreted over z3 integers and per-character symbolic strings): every year 1-9999, every field value, all 10^6 microsecond "
                  "values, naive and UTC-aware, 3 precisions x 2 constraints, input fraction length 0-9 with symbolic digits; one QF_LIA query per "
                  "feasible path against an independent integer-arithmetic formatter. Right level: the kernels are digit manipulation, where "
                  "boundary values (year < 1000, 999999 us, trailing zeros) are what a sample misses and a solver query covers.",
    "level_note": "Stubs (contract-tested each run): glibc strftime (unpadded %Y), canonical-width strptime, pytz localize/astimezone for UTC, "
                  "STIXdatetime metadata. Outside the claim: non-zero UTC offsets and date (not datetime) inputs (C astimezone/combine), Feb 29, "
                  "non-canonical-width input text.",
    "technique": "AST-to-SMT symbolic interpretation of the real functions (pysym over z3, QF_LIA), per-path unsat queries; witnesses replayed natively",
    "outside": ["non-zero UTC offsets, date inputs", "leap days", "input text with 1-digit month/day/time fields (strptime accepts them)"],
    "assumptions": STUB_NOTES,
}


def obligations(tier):
    return [
        JOB("format_is_canonical_truncated", M, "job_format", 300, functions=F[:1], stubs=STUB_NOTES,
            bounds="years 1..9999, all field values, all 10^6 microsecond values (symbolic digits), naive / pytz.utc / other zero-offset tzinfo, 3x2 precision settings"),
        JOB("parse_format_fixed_point", M, "job_parse_format", 900, functions=F, stubs=STUB_NOTES,
            bounds="every canonical text with no fraction or 0..8 (quick) / 0..9 (thorough) fraction digits, symbolic digits and fields, 3x2 settings"),
        JOB("timestamp_property_clean", M, "job_property_clean", 600, functions=["stix2.properties.TimestampProperty.clean"] + F[:2], stubs=STUB_NOTES,
            bounds="6 property settings x (plain datetime or STIXdatetime carrying any of 6 other settings) x naive/UTC-aware; all fields symbolic"),
        JOB("order_preserved", M, "job_order", 60, engine="smt", functions=F[1:2],
            bounds="all pairs of microsecond values 0..999999, 3x2 settings (z3 Int, no bound on the arithmetic)"),
    ]
