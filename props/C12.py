"""C12 -- queries return exactly the objects satisfying every filter."""
from engine.spec import CH, JOB

H = "props.h_C12"
FF = ["stix2.datastore.filters.Filter._check_property", "stix2.datastore.filters._check_filter", "stix2.datastore.filters.apply_common_filters",
      "stix2.datastore.filters.FilterSet.add"]
FO = ["stix2.datastore.filesystem._find_search_optimizations", "stix2.datastore.filesystem._update_allow", "stix2.datastore.filesystem.AuthSet.__init__",
      "stix2.datastore.filesystem._get_matching_dir_entries", "stix2.datastore.filesystem.FileSystemSource.query",
      "stix2.datastore.filesystem._search_versioned", "stix2.datastore.filesystem._check_object_from_file"]
FM = ["stix2.datastore.memory.MemorySource.query", "stix2.datastore.CompositeDataSource.query"]
FMT = "message formatting of symbolic values is opaque text (CrossHair plugin)"
FSS = "os/io calls of stix2.datastore.filesystem replaced by an in-memory file system with POSIX semantics (props/fakefs.py)"

META = {
    "engines": ["crosshair", "pysym"],
    "level_text": "Bounded symbolic model checking of the real filter code: every operator on scalar, list-valued and dotted (nested dict / list of "
                  "dicts) properties with unbounded symbolic integers and strings <= 2 chars against the documented semantics; conjunction = "
                  "intersection and monotonicity with two symbolic filters; timestamp-string filters in every legal spelling vs datetime-valued "
                  "properties compared as instants; the filesystem search optimiser for every set of 2 (quick) / 3 (thorough) type/id filters "
                  "(=, !=, in) both for soundness (no matching object is skipped) and exactness (FileSystemSource.query on an in-memory file "
                  "system = MemorySource.query = naive evaluation); the three filter routes through a composite of two memory sources.",
    "level_text_more": 'Also: every triple of allow filters (=, in, in []) on type or id, as query argument and split over the three routes into a FileSystemSource; contains on strings, dictionary keys/values, lists and dotted paths in 4 forms. Timestamp-text filters decided by pysym for 6 operators over symbolic texts; all_versions/get under attached filters incl. a filter that separates the versions of an id; query argument as list, FilterSet, single filter. Rounds 5-6: two symbolic filters naming the same property (scalar, list, dotted path); FilterSet under add / remove / detach-all histories; the interleaved store histories of C11; get() under filters is the newest passing version.',
    "level_note": "Operator semantics for 'contains' on list-valued properties is not asserted (undocumented). File system is the in-memory stub. "
                  "Optimiser/route obligations are selector-enumerated over small tables (3 types x 4 ids, 4 filters x 4 placements).",
    "technique": "CrossHair symbolic execution of the real filter/optimiser functions (z3), AST-to-SMT interpretation (pysym) of timestamp-text comparison, "
                 "enumerated filter sets on an in-memory FS stub; counterexamples replayed natively",
    "outside": ["TAXII filters", "real OS file system", "operators applied to a property kind they are not defined for (raise TypeError)"],
    "assumptions": [FMT, FSS],
}


def obligations(tier):
    t = 200 if tier == "quick" else 900
    obls = [
        CH("scalar_operators", H, "scalar", t, functions=FF[:2], stubs=[FMT], bounds="6 comparison operators, property and filter value: unbounded ints; property absent"),
        CH("list_valued_any", H, "list_any", t, functions=FF[:2], stubs=[FMT], bounds="lists of 1-2 unbounded ints"),
        CH("in_operator", H, "membership", t, functions=FF[:2], stubs=[FMT], bounds="unbounded ints, scalar and list-valued"),
        CH("string_operators", H, "strings", t, functions=FF[:2], stubs=[FMT], bounds="=, !=, contains on strings <= 2 chars"),
        CH("dotted_paths", H, "dotted", t, functions=FF[:2], stubs=[FMT], bounds="list of 1-2 dicts and nested dict, depth 2-3, unbounded ints, missing key"),
        CH("conjunction_is_intersection", H, "conjunction", t, functions=FF[:3], stubs=[FMT], bounds="two symbolic filters over two objects, unbounded ints"),
        CH("optimiser_unusual_values", H, "optimiser_odd", t, mode="E1s", functions=FO, stubs=[FSS],
           bounds="17 type/id filters whose value is not what the shortcut expects (text given to 'in', numbers, mixed lists, ids without a type part) alone or with one ordinary type/id filter in either order: "
                  "filesystem (plain and symlinked), memory and a scan give the same objects, and no error other than at filter construction"),
        CH("timestamp_strings_as_instants", H, "timestamps", t, mode="E1s", functions=FF[:2] + FM[:1],
           bounds="5 instants x every spelling of the filter string x 6 operators x (direct, MemorySource.query), and "in" over 5 lists of timestamp texts / datetimes / other text, on a parsed object and a dictionary-kept one"),
        JOB("timestamp_texts_compared_as_instants", "props.j_time", "job_filter_timestamp_texts", 600, functions=["stix2.datastore.filters.Filter._check_property", "stix2.utils.parse_into_datetime"],
            stubs=["_TIMESTAMP_RE.match answers true (the generated texts are canonical timestamps by construction)"],
            bounds="6 operators x every pair of canonical timestamp texts with %s fraction-digit combinations (symbolic fields and digits), property value and filter value both text" % (
                "4" if tier == "quick" else "25")),
        CH("contains_on_every_property_kind", H, "contains_kinds", t, mode="E1s", functions=FF[:2] + FM[:1],
           bounds="26 (document, path, value) cases: strings (substring), dictionaries (key; value for a dict filter value), lists (any element), dotted paths through "
                  "dictionaries and lists x dict / library object / MemorySource / FileSystemStore x with a contradicting second filter"),
        CH("filters_on_defaulted_properties", H, "defaulted_properties", t, mode="E1s", functions=FF[:2] + ["stix2.datastore.filesystem._check_object_from_file"], stubs=[FSS],
           bounds="7 filters on revoked / defanged / is_family, singly and in pairs, over 5 objects of which 3 hold the default implicitly x files written by the sink / by hand "
                  "(defaults absent) x query argument / attached / composite; filesystem = memory = naive"),
        CH("composite_filter_routes", H, "routes", t * 2, mode="E1s", functions=FM + FF[2:],
           bounds="2 filters from 5 (one separating the versions of an id) x 4 placements each (query, member A, member B, composite) x member order x 3 partitions of the population; query, all_versions and get of members and composite"),
    ]
    for q, kind in enumerate(("scalar", "list of 1-2", "dotted path through a list of 1-2 dictionaries")):
        obls.append(CH("conjunction_same_property_p%d" % q, H, "conjunction_same_property", t, functions=FF[:3], stubs=[FMT], env={"VERIF_PART": str(q)},
                       bounds="two symbolic filters naming the same property (" + kind + "), unbounded ints, both orders, as list and as FilterSet, a filter given twice"))
    for q in range(4):
        obls.append(CH("fs_optimiser_three_allow_filters_p%d" % q, H, "optimiser3_allow", t * 2, mode="E1s", functions=FO + FM[:1] + ["stix2.datastore.filesystem.FileSystemSource.query"],
                   stubs=[FSS], env={"VERIF_PART": str(q)}, bounds="property " + ("type" if q < 2 else "id") + ", " + ("three routes" if q % 2 else "query argument") + "; every triple of allow filters (=, in, in []) on the same property (type or id) x values; all as query argument, or attached / argument / handed down"))
    for q in range(4):
        obls.append(CH("sources_queried_between_additions_p%d" % q, "props.h_C11", "hist3", t * 2, mode="E1s", functions=FO[3:] + FM[:1], stubs=[FSS], env={"VERIF_PART": str(q)},
                       bounds="first add of id %d; 3 additions from 4 ids x 3 versions; the same long-lived filesystem and memory stores answer 5 queries, get and all_versions before the first and "
                              "after every addition (shared with C11); starting layouts: nothing, empty type directories, an object in the old flat layout" % q))
    obls.append(CH("filterset_under_add_remove_histories", H, "filterset_history", t * 2, mode="E1s", functions=FF[3:] + ["stix2.datastore.filters.FilterSet.remove"] + FM[:1],
                   bounds="every history of 3 steps followed by re-attaching the first filter (add a new equal instance / remove / detach everything, also by handing the set to its own remove()) over 4 filters: after each step the set holds the model's filters and an attached / passed set filters a MemorySource like the naive evaluation"))
    if tier == "quick":
        obls.append(CH("fs_optimiser_k2", H, "optimiser2", t, mode="E1s", functions=FO + FM[:1], stubs=[FSS],
                       bounds="every pair of type/id filters (=, !=, in, in []) over 3 types x 4 ids; soundness and exactness vs naive and MemorySource, also through a view of the store made of symbolic links"))
    else:
        for p in range(32):
            obls.append(CH("fs_optimiser_k3_p%02d" % p, H, "optimiser3", t, mode="E1s", functions=FO + FM[:1], stubs=[FSS], env={"VERIF_PART": str(p)},
                           bounds="every triple of type/id filters with first filter #%d" % p))
    return obls
