"""C12 harnesses: queries return exactly the objects satisfying every filter."""
import datetime as dt
import itertools

import pytz

import stix2
from stix2.datastore import CompositeDataSource
from stix2.datastore import filesystem as fs
from stix2.datastore.filters import Filter, FilterSet, _check_filter, apply_common_filters
from stix2.datastore.memory import MemorySource

from engine.hlib import K, Native, Part, TIER, V, pick, pickb
from props import fakefs

OPS = ['=', '!=', '>', '<', '>=', '<=']
PARTNO = Part.index


def ref_eval(op, pv, fv):
    if op == '=':
        return pv == fv
    if op == '!=':
        return pv != fv
    if op == '>':
        return pv > fv
    if op == '<':
        return pv < fv
    if op == '>=':
        return pv >= fv
    return pv <= fv


def scalar(opi: int, pv: int, fv: int, present: bool) -> bool:
    """
    pre: 0 <= opi < 6
    post: _
    """
    op = OPS[opi]
    obj = {"type": "x"}
    if present:
        obj["confidence"] = pv
    got = _check_filter(Filter("confidence", op, fv), obj)
    V.reached()
    return got == (present and ref_eval(op, pv, fv))


def list_any(opi: int, a: int, b: int, fv: int, n: int) -> bool:
    """
    pre: 0 <= opi < 6 and 1 <= n <= 2
    post: _
    """
    op = OPS[opi]
    vals = [a, b][:n]
    got = _check_filter(Filter("nums", op, fv), {"type": "x", "nums": vals})
    V.reached()
    return got == (ref_eval(op, a, fv) or (n == 2 and ref_eval(op, b, fv)))


def membership(pv: int, f1: int, f2: int, lst: bool, q: int) -> bool:
    """
    post: _
    """
    obj = {"type": "x", "n": [pv, q] if lst else pv}
    got_in = _check_filter(Filter("n", "in", [f1, f2]), obj)
    V.reached()
    exp = (pv == f1 or pv == f2) or (lst and (q == f1 or q == f2))
    return got_in == exp


def strings(s: str, t: str, opi: int) -> bool:
    """
    pre: len(s) <= 2 and len(t) <= 2 and 0 <= opi <= 2
    post: _
    """
    opi = pick(opi, 3)
    obj = {"type": "x", "name": s}
    if opi == 0:
        got = _check_filter(Filter("name", "=", t), obj)
        exp = s == t
    elif opi == 1:
        got = _check_filter(Filter("name", "!=", t), obj)
        exp = s != t
    else:
        got = _check_filter(Filter("name", "contains", t), obj)
        exp = t in s
    V.reached()
    return got == exp


# ---- contains on every property kind: substring of a string, key of a dictionary, value of a dictionary (dict filter value), any element of a list
_F21 = {"type": "file", "spec_version": "2.1", "id": "file--311b2d2d-f010-4473-83ec-1edf84858f4c", "name": "f.txt", "hashes": {"MD5": "0" * 32, "SHA-256": "1" * 64},
        "extensions": {"pdf-ext": {"version": "1.7", "is_optimized": False}, "ntfs-ext": {"sid": "1.7"}}}
_M21 = {"type": "malware", "spec_version": "2.1", "id": "malware--311b2d2d-f010-4473-83ec-1edf84858f4c", "created": "2020-01-01T00:00:00.000Z",
        "modified": "2020-01-01T00:00:00.000Z", "name": "mal", "is_family": False, "labels": ["alpha", "b"],
        "external_references": [{"source_name": "src", "external_id": "1"}, {"source_name": "other", "url": "http://x"}]}
CONTAINS = [  # (document, property path, filter value)
    (_F21, "hashes", "MD5"), (_F21, "hashes", "0" * 32), (_F21, "hashes", "SHA-1"), (_F21, "hashes", "MD"), (_F21, "extensions", "pdf-ext"),
    (_F21, "extensions", "version"), (_F21, "extensions", {"sid": "1.7"}), (_F21, "extensions", {"sid": "1.8"}), (_F21, "extensions", "1.7"),
    (_F21, "extensions.pdf-ext", "version"), (_F21, "extensions.pdf-ext", "1.7"), (_F21, "extensions.pdf-ext.version", "1."), (_F21, "name", ".txt"), (_F21, "name", "F"),
    (_M21, "labels", "alpha"), (_M21, "labels", "lph"), (_M21, "labels", "z"), (_M21, "labels", ""), (_M21, "name", "al"), (_M21, "name", "mal "),
    (_M21, "external_references", "source_name"), (_M21, "external_references", "src"), (_M21, "external_references", "url"),
    (_M21, "external_references.source_name", "the"), (_M21, "external_references.external_id", "2"), (_M21, "external_references.url", "x"),
]
NCONT = len(CONTAINS)


def _ref_contains(pv, fv):
    if isinstance(pv, list):
        return any(_ref_contains(e, fv) for e in pv)
    if isinstance(fv, dict):
        return isinstance(pv, dict) and any(v == fv for v in pv.values())
    return fv in pv           # substring of a string, key of a dictionary


def _ref_path(doc, path, fv):
    head, _, rest = path.partition(".")
    if not isinstance(doc, dict) or head not in doc:
        return False
    v = doc[head]
    if not rest:
        return _ref_contains(v, fv)
    if isinstance(v, list):
        return any(_ref_path(e, rest, fv) for e in v)
    return _ref_path(v, rest, fv)


def contains_kinds(ci: int, form: int, neg: bool) -> bool:
    """
    pre: 0 <= ci < NCONT and 0 <= form < 4
    post: _
    """
    ci, form, neg = pick(ci, NCONT), pick(form, 4), pickb(neg)
    with Native():
        ok = run_contains_case(ci, form, neg)
    V.reached()
    return ok


def run_contains_case(ci, form, neg):
    doc, path, fv = CONTAINS[ci]
    want = _ref_path(doc, path, fv)
    flt = [Filter(path, "contains", fv)] + ([Filter("type", "!=", doc["type"])] if neg else [])
    want = want and not neg
    if form == 0:
        got = len(list(apply_common_filters([doc], flt)))                      # kept as a dictionary
    elif form == 1:
        got = len(list(apply_common_filters([stix2.parse(doc)], flt)))         # library object
    elif form == 2:
        got = len(MemorySource([doc, _M21 if doc is _F21 else _F21]).query(flt))
    else:
        ffs = fakefs.FakeFS()
        saved = fakefs.install(fs, ffs)
        try:
            store = fs.FileSystemStore("/fs", allow_custom=False)
            store.add([doc, _M21 if doc is _F21 else _F21])
            got = len(store.query(flt))
        finally:
            fs.os, fs.io = saved
    return got == (1 if want else 0)


def dotted(opi: int, a: int, b: int, has_b: bool, fv: int, deep: bool) -> bool:
    """
    pre: 0 <= opi < 6
    post: _
    """
    op = OPS[opi]
    refs = [{"source_name": "x", "n": a, "d": {"m": a}}]
    if has_b:
        refs.append({"source_name": "y", "n": b, "d": {"m": b}})
    obj = {"type": "x", "external_references": refs, "one": {"n": a, "d": {"m": a}}, "tags": ["t", "u"]}
    exp = ref_eval(op, a, fv) or (has_b and ref_eval(op, b, fv))
    path = "external_references.d.m" if deep else "external_references.n"
    got = _check_filter(Filter(path, op, fv), obj)
    got1 = _check_filter(Filter("one.d.m" if deep else "one.n", op, fv), obj)
    got_missing = _check_filter(Filter("external_references.zz", op, fv), obj)
    # a path that steps INTO a scalar (a number, text, a list of text) addresses nothing: the filter does not hold, whatever the operator
    into_scalar = [_check_filter(Filter(pth, op, fv), obj) for pth in ("one.n.x", "type.x", "one.d.m.k.j", "external_references.source_name.x", "tags.x")]
    V.reached()
    return got == exp and got1 == ref_eval(op, a, fv) and got_missing is False and not any(into_scalar)


def conjunction(o1: int, v1: int, o2: int, v2: int, x: int, y: int, x2: int) -> bool:
    """
    pre: 0 <= o1 < 6 and 0 <= o2 < 6
    post: _
    """
    f1 = Filter("x", OPS[o1], v1)
    f2 = Filter("y", OPS[o2], v2)
    objs = [{"type": "t", "x": x, "y": y, "k": 0}, {"type": "t", "x": x2, "y": y, "k": 1}]
    both = [o["k"] for o in apply_common_filters(objs, [f1, f2])]
    one = [o["k"] for o in apply_common_filters(objs, [f1])]
    two = [o["k"] for o in apply_common_filters(objs, [f2])]
    none = [o["k"] for o in apply_common_filters(objs, [])]
    V.reached()
    exp = [o["k"] for o in objs if ref_eval(OPS[o1], o["x"], v1) and ref_eval(OPS[o2], o["y"], v2)]
    return both == exp and both == [k for k in one if k in two] and none == [0, 1] and all(k in one for k in both)


def conjunction_same_property(o1: int, v1: int, o2: int, v2: int, a: int, b: int, n: int, kind: int) -> bool:
    """
    pre: 0 <= o1 < 6 and 0 <= o2 < 6 and 1 <= n <= 2 and kind == PARTNO
    post: _
    """
    # two (or three) filters naming the SAME property: scalar, list-valued, or a dotted path through a list of dictionaries.  A conjunction
    # is the intersection of its parts whatever the filters look like together (two '=' with different values are satisfiable on a list).
    vals = [a, b][:n]
    if kind == 0:
        obj, path = {"type": "t", "x": a, "k": 0}, "x"
        vals = [a]
    elif kind == 1:
        obj, path = {"type": "t", "x": vals, "k": 0}, "x"
    else:
        obj, path = {"type": "t", "refs": [{"n": v} for v in vals], "k": 0}, "refs.n"
    other = {"type": "t", "k": 1}
    f1, f2 = Filter(path, OPS[o1], v1), Filter(path, OPS[o2], v2)
    both = [o["k"] for o in apply_common_filters([obj, other], [f1, f2])]
    swapped = [o["k"] for o in apply_common_filters([obj, other], [f2, f1])]
    twice = [o["k"] for o in apply_common_filters([obj, other], [f1, f1])]
    fset = FilterSet([f1, f2])
    through_set = [o["k"] for o in apply_common_filters([obj, other], fset)]
    V.reached()
    e1 = any(ref_eval(OPS[o1], x, v1) for x in vals)
    e2 = any(ref_eval(OPS[o2], x, v2) for x in vals)
    exp = [0] if (e1 and e2) else []
    return both == exp and swapped == exp and through_set == exp and twice == ([0] if e1 else [])


# ---- timestamp strings are compared as instants (object property is a datetime, filter value a string in any legal spelling)
INSTANTS = [(0, 0), (0, 500000), (0, 935000), (1, 0), (0, 100)]        # (second, microsecond)
SPELL = ["2020-03-01T12:00:0%d%sZ"]


def spellings(sec, us):
    out = []
    frac = ("%06d" % us).rstrip("0")
    for f in sorted({frac, (frac + "000")[:max(3, len(frac))], ("%06d" % us)}):
        out.append("2020-03-01T12:00:0%d%sZ" % (sec, "." + f if f else ""))
    if us == 0:
        out.append("2020-03-01T12:00:0%d.0Z" % sec)
    return out


TSF = [(i, s) for i, (sec, us) in enumerate(INSTANTS) for s in spellings(sec, us)]
NTSF = len(TSF)


def timestamps(fi: int, oi: int, opi: int, form: int) -> bool:
    """
    pre: 0 <= fi < NTSF and 0 <= oi < 5 and 0 <= opi < 6 and 0 <= form <= 1
    post: _
    """
    fi, oi, opi, form = pick(fi, NTSF), pick(oi, 5), pick(opi, 6), pick(form, 2)
    with Native():
        ok = run_ts_case(fi, oi, opi, form)
    V.reached()
    return ok


def inst(i):
    sec, us = INSTANTS[i]
    return dt.datetime(2020, 3, 1, 12, 0, sec, us, tzinfo=pytz.utc)


def run_ts_case(fi, oi, opi, form):
    finst, ftext = TSF[fi]
    ind = stix2.v21.Indicator(id="indicator--311b2d2d-f010-4473-83ec-1edf84858f4c", pattern="[a:b = 1]", pattern_type="stix",
                              valid_from=inst(oi), created=inst(oi), modified=inst(oi))
    op = OPS[opi]
    exp = ref_eval(op, inst(oi), inst(finst))
    for prop in ("valid_from", "modified"):
        if form == 0:
            got = _check_filter(Filter(prop, op, ftext), ind)
        else:
            got = bool(MemorySource([ind]).query([Filter(prop, op, ftext)]))
        if got != exp:
            return False
    # a datetime-valued filter behaves the same
    if _check_filter(Filter("modified", op, inst(finst)), ind) != exp:
        return False
    # objects of unregistered custom types are kept as dictionaries: their timestamps are strings, and must still compare as instants
    if K.open("C12-dict-kept-timestamp-strings"):
        return True
    custom = {"type": "x-acme-widget", "spec_version": "2.1", "id": "x-acme-widget--311b2d2d-f010-4473-83ec-1edf84858f4c",
              "created": stix2.utils.format_datetime(inst(oi)), "modified": stix2.utils.format_datetime(inst(oi))}
    if bool(MemorySource([custom], allow_custom=True).query([Filter("modified", op, ftext)])) != exp:
        return False
    if opi == 0:
        # 'in' over timestamp texts / datetimes: a member exactly when some element denotes the object's instant
        oinst, otext = TSF[(fi + 7) % NTSF]
        for vals, insts in (([ftext], [finst]), ([otext, ftext], [oinst, finst]), ([inst(finst)], [finst]), ([otext], [oinst]), ([otext, inst(finst), "x"], [oinst, finst])):
            exp_in = any(inst(i) == inst(oi) for i in insts)
            for target in (ind, custom):
                if bool(MemorySource([target], allow_custom=True).query([Filter("modified", "in", vals)])) != exp_in:
                    return False
    return True


# ---- filesystem search optimisation: sound and exact
TYPES = ["identity", "malware", "tool"]
IDS = ["identity--311b2d2d-f010-4473-83ec-1edf84858f4c", "identity--411b2d2d-f010-4473-83ec-1edf84858f4c",
       "malware--511b2d2d-f010-4473-83ec-1edf84858f4c", "tool--611b2d2d-f010-4473-83ec-1edf84858f4c"]


def mkf(p, o, v):
    if p == 0:
        val, nxt, prop = TYPES[v % 3], TYPES[(v + 1) % 3], "type"
    else:
        val, nxt, prop = IDS[v], IDS[(v + 1) % 4], "id"
    if o == 0:
        return Filter(prop, "=", val)
    if o == 1:
        return Filter(prop, "!=", val)
    if o == 3:
        return Filter(prop, "in", [])
    return Filter(prop, "in", [val, nxt])


def admits(auth, value):
    if auth.auth_type == fs.AuthSet.WHITE:
        return value in auth.values
    return value not in auth.values


def population():
    objs = []
    for i, id_ in enumerate(IDS):
        t = id_.split("--")[0]
        base = {"type": t, "spec_version": "2.1", "id": id_, "created": "2019-01-01T00:00:00.000Z", "name": "n%d" % i}
        if t == "identity":
            base["identity_class"] = "individual"
        if t == "malware":
            base["is_family"] = False
        for m in ("2020-01-01T00:00:00.000Z", "2020-01-02T00:00:00.000Z")[:1 + (i % 2)]:
            objs.append(dict(base, modified=m))
    return objs


POP = population()
_FS_STATE = {}


def fs_source():
    if "src" not in _FS_STATE:
        ffs = fakefs.FakeFS()
        saved = fakefs.install(fs, ffs)
        try:
            store = fs.FileSystemStore("/fs", allow_custom=False)
            for o in POP:
                store.add(o)
        finally:
            fs.os, fs.io = saved
        # a second view of the same data through symbolic links: a linked type directory, a linked per-id directory, a linked file
        ffs.makedirs("/view")
        for t in ffs.listdir("/fs"):
            if t == "identity":
                ffs.symlink("/fs/identity", "/view/identity")                     # whole type directory is a link
            else:
                ffs.makedirs("/view/" + t)
                for e in ffs.listdir("/fs/" + t):
                    ffs.symlink("/fs/%s/%s" % (t, e), "/view/%s/%s" % (t, e))     # each per-id directory / flat file is a link
        _FS_STATE["src"] = (ffs, store)
    return _FS_STATE["src"]


def run_opt_case(spec, route=0):
    return run_opt_filters([mkf(*s) for s in spec], route)


# filter values of another kind than the shortcut expects: text given to "in" (substring semantics), numbers, mixed lists
ODD = [("type", "in", "xidentityx"), ("type", "in", "identity"), ("type", "in", "identity,malware"), ("id", "in", "x" + IDS[0] + "y"), ("id", "in", IDS[2]),
       ("id", "=", 5), ("id", "in", [5]), ("id", "in", [IDS[0], 5]), ("type", "in", ["identity", 5]), ("id", "!=", 5), ("type", "!=", 5), ("type", "=", 5),
       ("id", "in", [IDS[0], "nodashes"]), ("id", "=", "nodashes"), ("type", "in", [("identity",)]), ("id", "=", True), ("type", "in", {"identity": 1})]
NODD = len(ODD)


def optimiser_odd(oi: int, p: int, o: int, v: int, first: bool) -> bool:
    """
    pre: 0 <= oi < NODD and 0 <= p <= 1 and 0 <= o <= 4 and 0 <= v <= 3
    post: _
    """
    oi, p, o, v, first = pick(oi, NODD), pick(p, 2), pick(o, 5), pick(v, 4), pickb(first)
    with Native():
        try:
            odd = Filter(*ODD[oi])
        except (ValueError, TypeError):
            odd = None                      # refused when the filter is built
        ok = True
        if odd is not None:
            fl = [odd] if o == 4 else ([odd, mkf(p, o, v)] if first else [mkf(p, o, v), odd])
            ok = run_opt_filters(fl, 0)
    V.reached()
    return ok


def run_opt_filters(filters, route=0):
    at, ai = fs._find_search_optimizations(filters)
    for o in POP:
        matches = next(apply_common_filters([o], filters), None) is not None
        if matches and not (admits(at, o["type"]) and admits(ai, o["id"])):
            return False            # the shortcut would skip a matching object
    ffs, store = fs_source()
    saved = fakefs.install(fs, ffs)
    try:
        if route:
            # the same conjunction reaching the source by its three routes: attached, query argument, handed down by a composite
            src = fs.FileSystemSource("/fs", allow_custom=False)
            src.filters.add(filters[0])
            rest = filters[1:]
            handed = FilterSet()
            handed.add(rest[-1:])
            r = sorted((o["id"], str(stix2.utils.parse_into_datetime(stix2.utils.format_datetime(o["modified"])))) for o in
                       src.query(rest[:-1], _composite_filters=handed))
            w = sorted((o["id"], str(stix2.utils.parse_into_datetime(o["modified"]))) for o in apply_common_filters(POP, filters))
            if r != w:
                return False
        # the same query through the view made of symbolic links gives the same objects
        linked = sorted((o["id"], str(stix2.utils.parse_into_datetime(stix2.utils.format_datetime(o["modified"])))) for o in
                        fs.FileSystemSource("/view", allow_custom=False).query(filters))
        if linked != sorted((o["id"], str(stix2.utils.parse_into_datetime(o["modified"]))) for o in apply_common_filters(POP, filters)):
            return False
        got = sorted((o["id"], str(o["modified"])) for o in store.source.query(filters))
        want = sorted((o["id"], str(stix2.utils.parse_into_datetime(o["modified"]))) for o in apply_common_filters(POP, filters))
        got = sorted((i, str(stix2.utils.parse_into_datetime(stix2.utils.format_datetime(m) if not isinstance(m, str) else m))) for i, m in
                     ((o["id"], o["modified"]) for o in store.source.query(filters)))
        mem = sorted((o["id"], str(stix2.utils.parse_into_datetime(o["modified"]))) for o in MemorySource(POP).query(filters))
    finally:
        fs.os, fs.io = saved
    return got == want and mem == want


def optimiser2(p1: int, o1: int, v1: int, p2: int, o2: int, v2: int) -> bool:
    """
    pre: 0 <= p1 <= 1 and 0 <= o1 <= 3 and 0 <= v1 <= 3
    pre: 0 <= p2 <= 1 and 0 <= o2 <= 3 and 0 <= v2 <= 3
    post: _
    """
    spec = [(pick(p1, 2), pick(o1, 4), pick(v1, 4)), (pick(p2, 2), pick(o2, 4), pick(v2, 4))]
    with Native():
        ok = run_opt_case(spec)
    V.reached()
    return ok


def optimiser3(p1: int, o1: int, v1: int, p2: int, o2: int, v2: int, p3: int, o3: int, v3: int) -> bool:
    """
    pre: 0 <= p1 <= 1 and 0 <= o1 <= 3 and 0 <= v1 <= 3 and p1 * 16 + o1 * 4 + v1 == PARTNO
    pre: 0 <= p2 <= 1 and 0 <= o2 <= 3 and 0 <= v2 <= 3
    pre: 0 <= p3 <= 1 and 0 <= o3 <= 3 and 0 <= v3 <= 3
    post: _
    """
    spec = [(pick(p1, 2), pick(o1, 4), pick(v1, 4)), (pick(p2, 2), pick(o2, 4), pick(v2, 4)), (pick(p3, 2), pick(o3, 4), pick(v3, 4))]
    with Native():
        ok = run_opt_case(spec)
    V.reached()
    return ok


def optimiser3_allow(p: int, o1: int, v1: int, o2: int, v2: int, o3: int, v3: int, route: bool) -> bool:
    """
    pre: 0 <= p <= 1 and 0 <= v1 <= 3 and 0 <= v2 <= 3 and 0 <= v3 <= 3
    pre: (o1 == 0 or o1 == 2 or o1 == 3) and (o2 == 0 or o2 == 2 or o2 == 3) and (o3 == 0 or o3 == 2 or o3 == 3)
    pre: p * 2 + (1 if route else 0) == PARTNO
    post: _
    """
    p = pick(p, 2)
    spec = [(p, (0, 2, 3)[pick((0, 2, 3).index(o), 3)], pick(v, 4)) for o, v in ((o1, v1), (o2, v2), (o3, v3))]
    route = pickb(route)
    with Native():
        ok = run_opt_case(spec, 1 if route else 0)
    V.reached()
    return ok


# ---- the three routes a filter can take: query argument, attached to a source, passed down by a composite
RF = [Filter("type", "=", "malware"), Filter("name", "!=", "n1"), Filter("created", ">", "2018-01-01T00:00:00Z"), Filter("id", "in", IDS[:3]),
      Filter("modified", "<", "2020-01-02T00:00:00Z")]          # the last one holds for the first version of an id and fails for the second
NRF = len(RF)
PLACES = 4      # 0 query argument, 1 attached to member A, 2 attached to member B, 3 attached to the composite


def routes(f1: int, pl1: int, f2: int, pl2: int, swap: bool, split: int) -> bool:
    """
    pre: 0 <= f1 < NRF and 0 <= f2 < NRF and 0 <= pl1 < 4 and 0 <= pl2 < 4 and 0 <= split <= 2
    post: _
    """
    f1, f2, pl1, pl2, swap, split = pick(f1, NRF), pick(f2, NRF), pick(pl1, 4), pick(pl2, 4), pickb(swap), pick(split, 3)
    with Native():
        ok = run_routes_case(f1, pl1, f2, pl2, swap, split)
    V.reached()
    return ok


def run_routes_case(f1, pl1, f2, pl2, swap, split):
    objs = [stix2.parse(o) for o in POP]
    cut = (2, 3, len(objs))[split]
    a_objs, b_objs = objs[:cut], objs[cut - 1:]           # one overlapping copy
    A, B = MemorySource(a_objs), MemorySource(b_objs)
    comp = CompositeDataSource()
    comp.add_data_sources([B, A] if swap else [A, B])
    query = []
    for fi, pl in ((f1, pl1), (f2, pl2)):
        f = RF[fi]
        if pl == 0:
            query.append(f)
        elif pl == 1:
            A.filters.add(f)
        elif pl == 2:
            B.filters.add(f)
        else:
            comp.filters.add(f)

    def key(o):
        return (o["id"], stix2.utils.format_datetime(o["modified"]))

    def naive(pool, extra):
        return sorted({key(o) for o in apply_common_filters(pool, query + extra)})
    fa = [RF[fi] for fi, pl in ((f1, pl1), (f2, pl2)) if pl == 1]
    fb = [RF[fi] for fi, pl in ((f1, pl1), (f2, pl2)) if pl == 2]
    fc = [RF[fi] for fi, pl in ((f1, pl1), (f2, pl2)) if pl == 3]
    want = sorted(set(naive(a_objs, fa + fc)) | set(naive(b_objs, fb + fc)))
    got = sorted({key(o) for o in comp.query(list(query))})
    if got != want or len(comp.query(list(query))) != len(want):
        return False
    # the documented forms of the query argument: list, FilterSet, a single Filter, nothing
    forms = [FilterSet(list(query))] + ([query[0]] if len(query) == 1 else []) + ([None] if not query else [])
    for qf in forms:
        for src_, w_ in ((comp, want), (A, naive(a_objs, fa))):
            if sorted({key(o) for o in src_.query(qf)}) != sorted(w_):
                return False
    # a member queried directly applies its own attached filters, and only those
    if sorted(key(o) for o in A.query(list(query))) != naive(a_objs, fa):
        return False
    if sorted(key(o) for o in B.query(list(query))) != naive(b_objs, fb):
        return False
    # "filters attached to a source apply to every one of its answers": all_versions and get too.  get answers with the newest of the versions
    # that pass (what a query for the id would give, what the filesystem source gives, and the only reading under which a composite is the
    # union of its members whatever the spread of the versions)
    for id_ in IDS:
        for src, pool, extra in ((A, a_objs, fa), (B, b_objs, fb)):
            mine = [o for o in pool if o["id"] == id_]
            want_all = sorted({key(o) for o in apply_common_filters(mine, extra)})
            if sorted({key(o) for o in src.all_versions(id_)}) != want_all:
                return False
            passing = list(apply_common_filters(mine, extra))
            newest = max(passing, key=lambda o: o["modified"]) if passing else None
            g = src.get(id_)
            if (g is None) != (newest is None) or (g is not None and key(g) != key(newest)):
                return False
        want_c = sorted(set(x for pool, extra in ((a_objs, fa + fc), (b_objs, fb + fc)) for x in
                            (key(o) for o in apply_common_filters([o for o in pool if o["id"] == id_], extra))))
        if sorted({key(o) for o in comp.all_versions(id_)}) != want_c:
            return False
        gc = comp.get(id_)
        if (gc is None) != (not want_c) or (gc is not None and key(gc) != max(want_c, key=lambda k: stix2.utils.parse_into_datetime(k[1]))):
            return False
    return True


# ---- filters on properties that hold their default value (not written to disk by the sink, absent from hand-written files)
DFILTERS = [Filter("revoked", "=", False), Filter("revoked", "!=", True), Filter("revoked", "=", True), Filter("defanged", "=", False), Filter("defanged", "!=", False),
            Filter("revoked", "in", [False]), Filter("is_family", "=", False)]
NDF = len(DFILTERS)


def defaulted_properties(fi: int, gi: int, hand: bool, route: int) -> bool:
    """
    pre: 0 <= fi < NDF and 0 <= gi <= NDF and 0 <= route <= 2
    post: _
    """
    fi, gi, hand, route = pick(fi, NDF), pick(gi, NDF + 1), pickb(hand), pick(route, 3)
    with Native():
        ok = run_default_case(fi, gi, hand, route)
    V.reached()
    return ok


def run_default_case(fi, gi, hand, route):
    import json
    U = "-f010-4473-83ec-1edf84858f4c"
    base = {"spec_version": "2.1", "created": "2020-01-01T00:00:00.000Z", "modified": "2020-01-01T00:00:00.000Z"}
    docs = [dict(base, type="malware", id="malware--aaaaaaaa" + U, name="a", is_family=False),
            dict(base, type="malware", id="malware--bbbbbbbb" + U, name="b", is_family=True, revoked=True),
            dict(base, type="malware", id="malware--cccccccc" + U, name="c", is_family=False, revoked=False),
            {"type": "file", "spec_version": "2.1", "id": "file--dddddddd" + U, "name": "f"},
            {"type": "file", "spec_version": "2.1", "id": "file--eeeeeeee" + U, "name": "g", "defanged": True}]
    objs = [stix2.parse(d) for d in docs]
    flt = [DFILTERS[fi]] + ([DFILTERS[gi]] if gi < NDF else [])
    want = sorted(o["id"] for o in apply_common_filters(objs, flt))
    ffs = fakefs.FakeFS()
    saved = fakefs.install(fs, ffs)
    try:
        if hand:
            # files written by hand / by another tool: defaulted properties simply are not there
            for d in docs:
                t = d["type"]
                if "modified" in d:
                    ffs.makedirs("/fs/%s/%s" % (t, d["id"]))
                    ffs.files["/fs/%s/%s/20200101000000000.json" % (t, d["id"])] = json.dumps(d)
                else:
                    ffs.makedirs("/fs/%s" % t)
                    ffs.files["/fs/%s/%s.json" % (t, d["id"])] = json.dumps(d)
            src = fs.FileSystemSource("/fs", allow_custom=False)
        else:
            store = fs.FileSystemStore("/fs", allow_custom=False)
            store.add(objs)
            src = store.source
        if route == 0:
            got = src.query(flt)
        elif route == 1:
            src.filters.add(flt)
            got = src.query([])
        else:
            comp = CompositeDataSource()
            comp.add_data_sources([src])
            comp.filters.add(flt)
            got = comp.query([])
        mem = MemorySource(objs).query(flt)
    finally:
        fs.os, fs.io = saved
    return sorted(o["id"] for o in got) == want and sorted(o["id"] for o in mem) == want


# ---- a FilterSet is a set of filters under any history of add / remove: what it holds is what a query applies
FS_FILTERS = [lambda: Filter("name", "=", "n0"), lambda: Filter("type", "=", "identity"), lambda: Filter("name", "!=", "n1"), lambda: Filter("labels", "in", ["a", "b"])]


def filterset_history(o1: int, f1: int, o2: int, f2: int, o3: int, f3: int) -> bool:
    """
    pre: 0 <= o1 <= 2 and 0 <= o2 <= 2 and 0 <= o3 <= 2 and 0 <= f1 < 4 and 0 <= f2 < 4 and 0 <= f3 < 4
    post: _
    """
    steps = [(pick(o1, 3), pick(f1, 4)), (pick(o2, 3), pick(f2, 4)), (pick(o3, 3), pick(f3, 4))]
    with Native():
        ok = run_filterset_history(steps + [(0, steps[0][1])])        # ... and the first filter attached once more at the end
    V.reached()
    return ok


_PARSED = []


def run_filterset_history(steps):
    """op 0 = add (a NEW equal instance every time), 1 = remove; after every step the set holds exactly the model's filters, a MemorySource with the
    set attached answers as the naive evaluation of those filters, and so does a query that passes the set as its argument"""
    if not _PARSED:
        _PARSED.extend(stix2.parse(o) for o in POP)
    objs = list(_PARSED)
    fset = FilterSet()
    src = MemorySource(objs)
    model = []
    for op, fi in steps:
        f = FS_FILTERS[fi]()
        if op == 0:
            fset.add(f)
            src.filters.add(FS_FILTERS[fi]())
            if f not in model:
                model.append(f)
        elif op == 2:
            # detach everything by handing the set to its own remove() (fi picks how: the set itself, a list copy, one by one)
            if fi == 0:
                fset.remove(fset)
                src.filters.remove(src.filters)
            elif fi == 1:
                fset.remove(list(fset))
                src.filters.remove(list(src.filters))
            else:
                for g in list(fset):
                    fset.remove(g)
                for g in list(src.filters):
                    src.filters.remove(g)
            model = []
        else:
            if f in model:
                model.remove(f)
                fset.remove(f)
                src.filters.remove(FS_FILTERS[fi]())
            else:
                continue                      # removing what is not there is not part of the claim
        if sorted(map(repr, fset)) != sorted(map(repr, model)) or len(fset) != len(model):
            return False
        want = sorted((o["id"], str(o["modified"])) for o in apply_common_filters(objs, model))
        if sorted((o["id"], str(o["modified"])) for o in src.query()) != want:
            return False
        if sorted((o["id"], str(o["modified"])) for o in MemorySource(objs).query(fset)) != want:
            return False
    return True
