"""C17 harnesses: bad input is reported only through the library's error family."""
import copy
import json

import stix2
from stix2 import registry
from stix2.exceptions import STIXError

from engine.hlib import Native, Part, TIER, V, pick, pickb
from props import gen

PARTNO = Part.index
NPARTS = 8
QUICK = TIER == "quick"
GOOD, _SK = gen.buildable()
ALLOWED = (STIXError, ValueError, TypeError)

IDENT = {"type": "identity", "spec_version": "2.1", "id": "identity--311b2d2d-f010-4473-83ec-1edf84858f4c",
         "created": "2020-01-01T00:00:00.000Z", "modified": "2020-01-01T00:00:00.000Z", "name": "x", "identity_class": "individual"}
SLOTS = ["type", "spec_version", "id", "created", "modified", "name", "identity_class", "labels", "extensions", "granular_markings",
         "object_marking_refs", "external_references", "revoked", "confidence", "created_by_ref", "lang", "x_custom"]
NSLOT = len(SLOTS)


def junk_value(kind, i, s):
    if kind == 0:
        return None
    if kind == 1:
        return i
    if kind == 2:
        return s
    if kind == 3:
        return [i]
    if kind == 4:
        return {s: i}
    if kind == 5:
        return [{s: s}]
    if kind == 6:
        return {s: {s: i}}
    if kind == 7:
        return True
    if kind == 8:
        return [[s]]
    return {s: [i]}


def symbolic_junk(slot: int, kind: int, i: int, s: str, allow: bool) -> bool:
    """
    pre: 0 <= slot < NSLOT and 0 <= kind <= 9 and len(s) <= 3
    post: _
    """
    d = dict(IDENT)
    d[SLOTS[slot]] = junk_value(kind, i, s)
    try:
        stix2.parse(d, allow_custom=allow)
    except ALLOWED:
        V.reached()
        return True
    except Exception:  # noqa: BLE001
        V.reached()
        return False
    V.reached()
    return True


# ---- symbolic dictionary keys at the dictionary-typed slots (keys end up in error messages)
KEY_SITES = [
    lambda k: {"type": "file", "id": "file--311b2d2d-f010-4473-83ec-1edf84858f4c", "name": "f", "hashes": {k: "0" * 32}},
    lambda k: {"type": "process", "id": "process--311b2d2d-f010-4473-83ec-1edf84858f4c", "pid": 1, "environment_variables": {k: "v"}},
    lambda k: dict(IDENT, external_references=[{"source_name": "s", "hashes": {k: "0" * 32}}]),
    lambda k: {"type": "email-message", "id": "email-message--311b2d2d-f010-4473-83ec-1edf84858f4c", "is_multipart": False, "additional_header_fields": {k: ["v"]}},
    lambda k: dict(IDENT, x_dict={k: 1}),
]
NKS = len(KEY_SITES)


def symbolic_keys(site: int, k: str, allow: bool) -> bool:
    """
    pre: 0 <= site < NKS and len(k) <= 4
    post: _
    """
    d = KEY_SITES[pick(site, NKS)](k)
    try:
        stix2.parse(d, allow_custom=allow, version="2.1")
    except ALLOWED as e:
        try:
            str(e)
        except Exception:  # noqa: BLE001
            V.reached()
            return False
        V.reached()
        return True
    except Exception:  # noqa: BLE001
        V.reached()
        return False
    V.reached()
    return True


# ---- every class x every slot x concrete junk of every JSON kind, at top level and inside embedded objects / extensions
EXTDEF = "extension-definition--311b2d2d-f010-4473-83ec-1edf84858f4c"
JUNK = [None, 0, -1, 3.5, "", "x", True, [], [0], ["x"], {}, {"a": 1}, [{"a": "b"}], {"a": {"b": 1}}, [[1]], {"": ""}, [{"": ""}], [None], {"a": None},
        False, "toplevel-property-extension", {"extension_type": "toplevel-property-extension"}, {"x-a-ext": {"extension_type": "toplevel-property-extension"}},
        {"extension-definition--311b2d2d-f010-4473-83ec-1edf84858f4c": 5}, {"extension-definition--311b2d2d-f010-4473-83ec-1edf84858f4c": {"extension_type": 7}},
        # marking-shaped junk (selectors of another kind), also for types that do not define granular_markings
        [{"selectors": [5]}], [{"selectors": 5, "marking_ref": "x"}], [{"selectors": [None, {}, ["name"]], "lang": 5}], [{"marking_ref": ["x"], "selectors": "name"}],
        # text that is hostile to message formatting, as value and as dictionary key
        "{x}", "%s %(a)s", {"{x}": "v"}, {"{0.x}": 1}, {"{1}": [1]}, {"%s": 1}, {"%(a)s": {"{": "}"}}, [{"{x}": "{y}"}], {"a{}b": ["{0}"]}, ["{0!r:>{1}}"],
        # nulls and empty containers below the first level of a dictionary value; entries of an unregistered extension-definition
        {"abc": []}, {"abc": {"x": None}}, {"abc": {}}, {"abc": [None]}, {"abc": [[]]}, {"abc": [{"k": {}}]},
        {EXTDEF: {}}, {EXTDEF: {"extension_type": "bogus"}}, {EXTDEF: {"extension_type": "property-extension", "x": None}}, {EXTDEF: {"extension_type": "property-extension", "x": {"y": []}}},
        {EXTDEF: {"a": 1}}, {EXTDEF: {"extension_type": ["property-extension"]}}, {EXTDEF: [{"extension_type": "property-extension"}]}, {EXTDEF: "property-extension"},
        {EXTDEF: {"extension_type": "toplevel-property-extension"}, "x-a-ext": {"a": 1}},
        # integers no double is near (number-typed and id-contributing properties are canonicalized as ECMAScript numbers)
        10 ** 400, [-(10 ** 310)]]
# values nested deeper than the interpreter's recursion limit (kept out of JUNK itself: repr/deepcopy/json.dumps of them recurse too)
DEEP_N = 3000


def _deep(kind):
    v = [] if kind == "list" else {}
    for _ in range(DEEP_N):
        v = [v] if kind == "list" else {"a": v}
    return v


DEEP = {"@@deep-list@@": (_deep("list"), "[" * (DEEP_N + 1) + "]" * (DEEP_N + 1)), "@@deep-dict@@": (_deep("dict"), '{"a":' * DEEP_N + "{}" + "}" * DEEP_N)}
JUNK += list(DEEP)
NJ = len(JUNK)


def _cases():
    out = []
    for ver, cat, name, cls, kw in GOOD:
        base = json.loads(cls(**kw).serialize()) if cat in ("objects", "observables") else None
        if base is None:
            continue
        if cat == "observables" and ver == "2.0":
            continue
        slots = sorted(set(cls._properties) | {"extensions", "x_custom", "spec_version", "custom_properties", "", "granular_markings", "object_marking_refs", "_valid_refs", "allow_custom", "interoperability"})
        for sl in slots:
            out.append((ver, cat, name, sl, base))
    # nested sites
    mal = json.loads(stix2.v21.Malware(name="m", is_family=False, external_references=[{"source_name": "s", "external_id": "e", "hashes": {"MD5": "0" * 32}}],
                                       kill_chain_phases=[{"kill_chain_name": "k", "phase_name": "p"}],
                                       granular_markings=[{"marking_ref": "marking-definition--613f2e26-407d-48c7-9eca-b8e91df99dc9", "selectors": ["name"]}]).serialize())
    for path in ("external_references.0.source_name", "external_references.0.hashes", "external_references.0.hashes.MD5", "external_references.0",
                 "kill_chain_phases.0.phase_name", "granular_markings.0.selectors", "granular_markings.0.marking_ref", "granular_markings.0"):
        out.append(("2.1", "objects", "malware", path, mal))
    f = json.loads(stix2.v21.File(name="f", extensions={"ntfs-ext": {"sid": "s", "alternate_data_streams": [{"name": "a"}]},
                                                         "windows-pebinary-ext": {"pe_type": "exe", "sections": [{"name": "s"}]}}).serialize())
    for path in ("extensions.ntfs-ext", "extensions.ntfs-ext.sid", "extensions.ntfs-ext.alternate_data_streams", "extensions.ntfs-ext.alternate_data_streams.0",
                 "extensions.ntfs-ext.alternate_data_streams.0.name", "extensions.windows-pebinary-ext.sections.0.name", "extensions.windows-pebinary-ext.pe_type"):
        out.append(("2.1", "observables", "file", path, f))
    od = {"type": "observed-data", "id": "observed-data--311b2d2d-f010-4473-83ec-1edf84858f4c", "created": "2020-01-01T00:00:00.000Z",
          "modified": "2020-01-01T00:00:00.000Z", "first_observed": "2020-01-01T00:00:00Z", "last_observed": "2020-01-01T00:00:00Z", "number_observed": 1,
          "objects": {"0": {"type": "file", "name": "f"}, "1": {"type": "directory", "path": "p", "contains_refs": ["0"]}}}
    for path in ("objects.0", "objects.0.type", "objects.0.name", "objects.1.contains_refs", "objects.1.contains_refs.0", "objects"):
        out.append(("2.0", "objects", "observed-data", path, od))
    unk = {"type": "x-unregistered-type", "spec_version": "2.1", "id": "x-unregistered-type--311b2d2d-f010-4473-83ec-1edf84858f4c",
           "created": "2020-01-01T00:00:00.000Z", "modified": "2020-01-01T00:00:00.000Z", "extensions": {"x-a-ext": {"a": 1}}}
    for path in ("extensions", "extensions.x-a-ext", "extensions.x-a-ext.a", "id", "spec_version", "granular_markings"):
        out.append(("2.1", "objects", "x-unregistered-type", path, unk))
    for path in ("extensions.ntfs-ext.extension_type", "extensions.windows-pebinary-ext.extension_type"):
        out.append(("2.1", "observables", "file", path, f))
    # marking definitions that also carry an extension (which makes definition / definition_type optional): each of them corrupted or removed
    tlpx = dict(json.loads(stix2.v21.TLP_WHITE.serialize()), extensions={EXTDEF: {"extension_type": "property-extension", "a": 1}})
    stx = {"type": "marking-definition", "spec_version": "2.1", "id": "marking-definition--311b2d2d-f010-4473-83ec-1edf84858f4c", "created": "2020-01-01T00:00:00.000Z",
           "definition_type": "statement", "definition": {"statement": "s"}, "extensions": {EXTDEF: {"extension_type": "property-extension", "a": 1}}}
    for mdoc in (tlpx, stx):
        for path in ("definition", "definition_type", "definition." + ("tlp" if mdoc is tlpx else "statement"), "name", "created", "id"):
            out.append(("2.1", "objects", "marking-definition", path, mdoc))
    b21 = {"type": "bundle", "id": "bundle--311b2d2d-f010-4473-83ec-1edf84858f4c", "objects": [dict(IDENT)]}
    b20 = {"type": "bundle", "id": "bundle--311b2d2d-f010-4473-83ec-1edf84858f4c", "spec_version": "2.0", "objects": [
        {"type": "tool", "id": "tool--311b2d2d-f010-4473-83ec-1edf84858f4c", "created": "2020-01-01T00:00:00.000Z", "modified": "2020-01-01T00:00:00.000Z", "name": "t", "labels": ["x"]}]}
    for b, ver in ((b21, "2.1"), (b20, "2.0")):
        for path in ("objects", "objects.0", "objects.0.type", "objects.0.id", "id", "type", "spec_version", "granular_markings", "x_custom", "extensions",
                     "objects.0.granular_markings", "objects.0.extensions"):
            out.append((ver, "objects", "bundle", path, b))
    return out


CASES = _cases()
NCASE = len(CASES)


def set_path(doc, path, value, delete=False):
    d = copy.deepcopy(doc)
    cur = d
    parts = path.split(".")
    for p in parts[:-1]:
        cur = cur[int(p)] if isinstance(cur, list) else cur[p]
    last = parts[-1]
    if isinstance(cur, list):
        if delete:
            del cur[int(last)]
        else:
            cur[int(last)] = value
    elif delete:
        cur.pop(last, None)
    else:
        cur[last] = value
    return d


def reg_snapshot():
    """the registries, and for every registered class the property tables parsing relies on (names and property object identities)"""
    out = {}
    for ver, cats in registry.STIX2_OBJ_MAPS.items():
        for cat, m in cats.items():
            for name, cls in m.items():
                tables = tuple(tuple((k, id(v)) for k, v in (getattr(cls, attr, None) or {}).items()) for attr in ("_properties", "_toplevel_properties")) \
                    if isinstance(cls, type) else ()
                out[(ver, cat, name)] = (cls, tables)
    return out


def table_junk(ci: int, allow: bool) -> bool:
    """
    pre: 0 <= ci < NCASE and ci % NPARTS == PARTNO
    post: _
    """
    ci = pick(ci, NCASE)
    allow = bool(allow)
    with Native():
        ok = all(run_table_case(ci, ji, allow) for ji in range(NJ + 1))       # every junk value and deletion for this (class, slot)
    V.reached()
    return ok


def run_table_case(ci, ji, allow):
    ver, cat, name, path, base = CASES[ci]
    doc = set_path(base, path, None, delete=True) if ji == NJ else set_path(base, path, JUNK[ji])
    deep = ji < NJ and isinstance(JUNK[ji], str) and JUNK[ji] in DEEP
    text = json.dumps(doc)
    if deep:
        text = text.replace(json.dumps(JUNK[ji]), DEEP[JUNK[ji]][1])
        doc = set_path(base, path, DEEP[JUNK[ji]][0])
    before = reg_snapshot()
    ok = True
    for how in range(4):
        try:
            if how == 3:
                # a 2.1 observable without an id: the id is computed from the (corrupted) contributing properties
                if cat == "observables" and ver == "2.1" and isinstance(doc, dict) and "id" in doc and path != "id" and not deep:
                    stix2.parse_observable({k: v for k, v in doc.items() if k != "id"}, allow_custom=allow, version=ver)
            elif how == 0:
                if cat == "observables":
                    stix2.parse_observable(doc, allow_custom=allow, version=ver)
                else:
                    stix2.parse(doc, allow_custom=allow, version=ver)
            elif how == 1:
                if cat == "observables":
                    continue
                stix2.parse(doc, allow_custom=allow)            # version detection runs on the raw input
            else:
                stix2.parse(text, allow_custom=allow, version=ver) if cat != "observables" else None
        except ALLOWED:
            pass
        except RecursionError:
            ok = False
        except Exception:  # noqa: BLE001
            ok = False
    return ok and reg_snapshot() == before


def run_all_native():
    """debug helper: list failing cases"""
    bad = []
    for ci in range(NCASE):
        for ji in range(NJ + 1):
            for allow in (False, True):
                if not run_table_case(ci, ji, allow):
                    bad.append((CASES[ci][:4], JUNK[ji] if ji < NJ else "<deleted>", allow))
    return bad


# ---- objects carrying registered toplevel-property extensions: a failed construction must not rewrite the registered classes
EXT_A = "extension-definition--aaaaaaaa-f010-4473-83ec-1edf84858f4c"
EXT_B = "extension-definition--bbbbbbbb-f010-4473-83ec-1edf84858f4c"
EXT_C = "extension-definition--cccccccc-f010-4473-83ec-1edf84858f4c"


def _register_fixture():
    from stix2 import properties as SP
    if registry.class_for_type(EXT_A, "2.1", "extensions") is None:
        @stix2.v21.CustomExtension(EXT_A, [("rank_a", SP.IntegerProperty(required=True))])
        class ExtA:
            extension_type = "toplevel-property-extension"

        @stix2.v21.CustomExtension(EXT_B, [("rank_b", SP.IntegerProperty()), ("note_b", SP.StringProperty())])
        class ExtB:
            extension_type = "toplevel-property-extension"

        @stix2.v21.CustomExtension(EXT_C, [("inner_c", SP.StringProperty(required=True))])
        class ExtC:
            extension_type = "property-extension"


EXT_COMBOS = [(EXT_A,), (EXT_B,), (EXT_A, EXT_B), (EXT_B, EXT_A), (EXT_A, EXT_B, EXT_C), (EXT_C, EXT_B)]
NEC = len(EXT_COMBOS)


def ext_doc(combo):
    d = dict(IDENT, extensions={})
    for e in combo:
        d["extensions"][e] = {"extension_type": "property-extension", "inner_c": "v"} if e == EXT_C else {"extension_type": "toplevel-property-extension"}
        if e == EXT_A:
            d["rank_a"] = 1
        if e == EXT_B:
            d["rank_b"] = 2
    return d


def toplevel_extension_registry(ci: int, slot: int, ji: int, allow: bool) -> bool:
    """
    pre: 0 <= ci < NEC and 0 <= slot < NSLOT + 3 and 0 <= ji <= NJ
    pre: (not QUICK) or ji % 3 == slot % 3
    post: _
    """
    ci, slot, ji, allow = pick(ci, NEC), pick(slot, NSLOT + 3), pick(ji, NJ + 1), pickb(allow)
    with Native():
        ok = run_ext_registry_case(ci, slot, ji, allow)
    V.reached()
    return ok


def run_ext_registry_case(ci, slot, ji, allow):
    _register_fixture()
    before = reg_snapshot()
    base = ext_doc(EXT_COMBOS[ci])
    path = (SLOTS + ["rank_a", "rank_b", "note_b"])[slot]
    doc = set_path(base, path, None, delete=True) if ji == NJ else set_path(base, path, JUNK[ji])
    try:
        stix2.parse(doc, allow_custom=allow, version="2.1")
    except ALLOWED:
        pass
    except Exception:  # noqa: BLE001
        return False
    if reg_snapshot() != before:
        return False
    # behaviour afterwards is that of a pristine registry: each extension alone still accepts exactly its own properties
    for combo, extra, good in (((EXT_A,), {}, True), ((EXT_B,), {}, True), ((EXT_A,), {"rank_b": 2}, False), ((EXT_B,), {"rank_a": 1}, False)):
        d = dict(ext_doc(combo), **extra)
        try:
            stix2.parse(d, allow_custom=False, version="2.1")
            got = True
        except ALLOWED:
            got = False
        if got != good:
            return False
    return True


# ---- thorough: two simultaneous corruptions (the second from a fixed set of raw-scan-relevant sites)
SECOND = [("extensions", {"x-a-ext": 5}), ("extensions", [1]), ("granular_markings", [{"selectors": 5}]), ("granular_markings", "x"),
          ("custom_properties", {"a": 1}), ("custom_properties", 0), ("spec_version", 21), ("id", 5), ("object_marking_refs", {"a": 1}), ("created", [])]
NSEC = len(SECOND)


def table_junk_pairs(ci: int, k: int, allow: bool) -> bool:
    """
    pre: 0 <= ci < NCASE and ci % NPARTS == PARTNO and 0 <= k < NSEC
    post: _
    """
    ci, k = pick(ci, NCASE), pick(k, NSEC)
    allow = bool(allow)
    with Native():
        ok = run_pair_case(ci, k, allow)
    V.reached()
    return ok


def run_pair_case(ci, k, allow):
    ver, cat, name, path, base = CASES[ci]
    p2, j2 = SECOND[k]
    before = reg_snapshot()
    for ji in range(NJ + 1):
        doc = set_path(base, path, None, delete=True) if ji == NJ else set_path(base, path, JUNK[ji])
        if not isinstance(doc, dict):
            continue
        doc = dict(doc)
        doc[p2] = j2
        try:
            if cat == "observables":
                stix2.parse_observable(doc, allow_custom=allow, version=ver)
            else:
                stix2.parse(doc, allow_custom=allow, version=ver)
        except ALLOWED:
            pass
        except Exception:  # noqa: BLE001
            return False
    return reg_snapshot() == before


# ---- a failed construction through a factory / environment leaves the factory as it was
def factory_after_failure(ji: int, which: int, env: bool) -> bool:
    """
    pre: 0 <= ji < NJ and 0 <= which <= 2
    post: _
    """
    ji, which, env = pick(ji, NJ), pick(which, 3), pickb(env)
    with Native():
        ok = run_factory_case(ji, which, env)
    V.reached()
    return ok


def run_factory_case(ji, which, env):
    from stix2.environment import Environment, ObjectFactory
    junk = JUNK[ji] if not (isinstance(JUNK[ji], str) and JUNK[ji] in DEEP) else DEEP[JUNK[ji]][0]
    refs = [{"source_name": "d", "external_id": "2"}]
    marks = ["marking-definition--613f2e26-407d-48c7-9eca-b8e91df99dc9"]
    fac = ObjectFactory(created_by_ref="identity--311b2d2d-f010-4473-83ec-1edf84858f4c", external_references=refs, object_marking_refs=marks)
    api = Environment(factory=fac) if env else fac
    kw = dict(name="x", identity_class="individual")
    strip = lambda o: {k: v for k, v in json.loads(o.serialize()).items() if k not in ("id", "created", "modified")}   # noqa: E731
    before = strip(api.create(stix2.v21.Identity, **kw))
    slot = ("external_references", "object_marking_refs", "created_by_ref")[which]
    try:
        api.create(stix2.v21.Identity, **dict(kw, **{slot: junk}))
    except ALLOWED:
        pass
    except Exception:  # noqa: BLE001
        return False
    try:
        after = strip(api.create(stix2.v21.Identity, **kw))
    except Exception:  # noqa: BLE001
        return False                   # valid input is refused after a failed construction
    return after == before and refs == [{"source_name": "d", "external_id": "2"}] and marks == ["marking-definition--613f2e26-407d-48c7-9eca-b8e91df99dc9"]


# ---- two slots of one object in relation: every pair of timestamp (integer) slots gets right-kind values in both orders
ALLCLS = [(ver, cat, name, cls, kw) for (ver, cat, name, cls, kw) in GOOD if cat in ("objects", "observables")]
NALL = len(ALLCLS)
T_EARLY, T_LATE = "2019-01-01T00:00:00.000Z", "2021-01-01T00:00:00.000Z"


def slot_relations(ci: int, allow: bool) -> bool:
    """
    pre: 0 <= ci < NALL and ci % NPARTS == PARTNO
    post: _
    """
    ci, allow = pick(ci, NALL), pickb(allow)
    with Native():
        ok = run_relation_case(ci, allow)
    V.reached()
    return ok


def _member_of_type(t):
    for (ver, cat, name, cls, kw) in GOOD:
        if ver == "2.0" and cat == "observables" and name == t and not kw.get("_valid_refs"):
            return json.loads(cls(**kw).serialize())
    return {"type": t}


def run_relation_case(ci, allow):
    """constraints that relate two properties run outside the per-property wrapper: whatever they decide, they decide it with a library error.
    Every ordered pair of timestamp slots gets (early, late), (late, early), (equal); every ordered pair of integer slots (0, 1), (1, 0), (-1, 2**63);
    through the constructor, parse / parse_observable, and inside a 2.0 observed-data container"""
    ver, cat, name, cls, kw = ALLCLS[ci]
    base = json.loads(cls(**kw).serialize())
    props = cls._properties
    ts = [p for p, v in props.items() if type(v).__name__ == "TimestampProperty"]
    ints = [p for p, v in props.items() if type(v).__name__ == "IntegerProperty"]
    cases = [(a, va, b, vb) for a in ts for b in ts if a != b for (va, vb) in ((T_EARLY, T_LATE), (T_LATE, T_EARLY), (T_LATE, T_LATE))]
    cases += [(a, va, b, vb) for a in ints for b in ints if a != b for (va, vb) in ((0, 1), (1, 0), (-1, 2 ** 63))]
    ok = True
    for a, va, b, vb in cases:
        doc = dict(base, **{a: va, b: vb})
        vr = kw.get("_valid_refs")                  # 2.0 observables: the keys their references may name, with the types behind them
        extra = {"_valid_refs": vr} if vr else {}
        routes = [lambda d=doc: cls(allow_custom=allow, **dict({k: v for k, v in d.items() if k != "type" or cat == "observables"}, **extra))]
        if cat == "observables":
            routes.append(lambda d=doc: stix2.parse_observable(d, allow_custom=allow, version=ver, **extra))
            if ver == "2.0":
                members = {k: _member_of_type(t) for k, t in (vr or {}).items()} if isinstance(vr, dict) else {}
                routes.append(lambda d=doc: stix2.v20.ObservedData(first_observed=T_EARLY, last_observed=T_EARLY, number_observed=1, objects=dict(members, **{"99": d}),
                                                                   allow_custom=allow))
        else:
            routes.append(lambda d=doc: stix2.parse(d, allow_custom=allow, version=ver))
            routes.append(lambda d=doc: stix2.parse(json.dumps(d), allow_custom=allow))
        for r in routes:
            try:
                r()
            except ALLOWED:
                pass
            except Exception:  # noqa: BLE001
                ok = False
    return ok


# ---- stores and versioning: a refused operation raises a library error and leaves the store as it was
STORE_JUNK = [{"id": "x"}, {"type": "x-foo"}, {"type": "x-foo", "id": "x-foo--311b2d2d-f010-4473-83ec-1edf84858f4c", "modified": "junk"}, {}, {"type": 5}, {"type": "bundle"},
              {"type": "bundle", "objects": 5}, {"type": "bundle", "objects": [{"id": "y"}]}, {"type": "identity"}, {"type": "x-foo", "id": 5, "modified": "2020-01-01T00:00:00Z"},
              {"type": "x-foo", "id": "x-foo--311b2d2d-f010-4473-83ec-1edf84858f4c", "modified": 5}, {"type": "x-foo", "id": ["a"]}, [{"id": "x"}], [5], 5, None, "junk", '{"id": "x"}',
              {"type": "x-foo", "id": "x-foo--311b2d2d-f010-4473-83ec-1edf84858f4c", "modified": None}, {"type": None, "id": None}, [[{"type": "x-foo"}]]]


def store_refusals(ji: int, which: int, allow: bool, preload: bool) -> bool:
    """
    pre: 0 <= ji < len(STORE_JUNK) and 0 <= which <= 3
    post: _
    """
    ji, which, allow, preload = pick(ji, len(STORE_JUNK)), pick(which, 4), pickb(allow), pickb(preload)
    with Native():
        ok = run_store_refusal(ji, which, allow, preload)
    V.reached()
    return ok


def _store_state(store):
    data = getattr(store, "_data", None)
    if data is None:
        data = store.source._data
    out = {}
    for k, v in data.items():
        out[k] = sorted(str(m) for m in v.all_versions) if hasattr(v, "all_versions") else "single"
    return out


def run_store_refusal(ji, which, allow, preload):
    from stix2.datastore.memory import MemorySink, MemorySource, MemoryStore
    from stix2.environment import Environment
    junk = copy.deepcopy(STORE_JUNK[ji])
    store = MemoryStore(allow_custom=allow)
    if preload:
        store.add(dict(IDENT))
    before = _store_state(store)
    try:
        if which == 0:
            store.add(junk)
        elif which == 1:
            store.sink.add(junk)
        elif which == 2:
            Environment(store=store).add(junk)
        else:
            MemorySource(stix_data=junk, allow_custom=allow)
    except ALLOWED:
        pass
    except Exception:  # noqa: BLE001
        return False
    else:
        return True                           # accepted (a dictionary of an unregistered type, say): nothing to compare
    after = _store_state(store)
    try:
        str(store.source._data), repr(store.source._data)
    except Exception:  # noqa: BLE001
        return False                          # the refused addition left something behind that cannot even be printed
    return after == before


VERSION_JUNK = [("created_by_ref", "identity--311b2d2d-f010-4473-83ec-1edf84858f4c"), ("created_by_ref", None), ("created_by_ref", 5), ("id", None), ("created", []),
                ("type", {"a": 1}), ("modified", 5), ("modified", None), ("modified", "junk"), ("modified", [1]), ("revoked", "x"), ("name", None), ("name", {"{x}": 1}),
                ("granular_markings", [{"selectors": [5]}]), ("object_marking_refs", 5), ("extensions", 5), ("custom_properties", 5), ("custom_properties", {"id": 5}),
                ("allow_custom", 5), ("x_foo", None), ("spec_version", "2.0"), ("confidence", 10 ** 400), ("labels", [None])]


def versioning_refusals(vi: int, form: int, op: int) -> bool:
    """
    pre: 0 <= vi < len(VERSION_JUNK) and 0 <= form <= 3 and 0 <= op <= 1
    post: _
    """
    vi, form, op = pick(vi, len(VERSION_JUNK)), pick(form, 4), pick(op, 2)
    with Native():
        ok = run_version_refusal(vi, form, op)
    V.reached()
    return ok


def run_version_refusal(vi, form, op):
    """new_version / revoke with a change set of any JSON kind, naming present or ABSENT properties, on objects and dictionaries of both versions"""
    from stix2 import versioning
    name, val = VERSION_JUNK[vi]
    d21 = dict(IDENT)
    d20 = {"type": "tool", "id": "tool--311b2d2d-f010-4473-83ec-1edf84858f4c", "created": "2020-01-01T00:00:00.000Z", "modified": "2020-01-01T00:00:00.000Z", "name": "t",
           "labels": ["x"]}
    data = [lambda: stix2.parse(d21), lambda: dict(d21), lambda: stix2.parse(d20, version="2.0"), lambda: dict(d20)][form]()
    try:
        if op == 0:
            versioning.new_version(data, **{name: copy.deepcopy(val)})
        else:
            versioning.revoke(dict(data, **{name: copy.deepcopy(val)}) if isinstance(data, dict) else data)
    except ALLOWED:
        pass
    except Exception:  # noqa: BLE001
        return False
    return True


# ---- an ordinary Python subclass of a library class (the documented way to add behaviour) constructs and refuses like its base
BUILDABLE = gen.buildable()[0]
NBUILD = len(BUILDABLE)


def plain_subclass(bi: int, ji: int) -> bool:
    """
    pre: 0 <= bi < NBUILD and 0 <= ji < NJ
    post: _
    """
    bi = pick(bi, NBUILD)
    with Native():
        ok = all(run_subclass_case(bi, j) for j in range(NJ))
    V.reached()
    return ok


def run_subclass_case(bi, ji):
    ver, cat, name, cls, kw = BUILDABLE[bi]
    sub = type("Sub" + cls.__name__, (cls,), {})
    try:
        o = sub(**copy.deepcopy(kw))
    except Exception:  # noqa: BLE001
        return False                       # the base class builds from these arguments
    ref = cls(**copy.deepcopy(kw))
    given = lambda x: {k: v for k, v in json.loads(x.serialize()).items() if k in kw or k in ("type", "spec_version")}   # noqa: E731 (random ids and clock defaults differ)
    if not (isinstance(o, cls) and given(o) == given(ref) and sorted(o) == sorted(ref)):
        return False
    junk = JUNK[ji] if not (isinstance(JUNK[ji], str) and JUNK[ji] in DEEP) else DEEP[JUNK[ji]][0]
    slot = sorted(kw)[ji % len(kw)] if kw else None
    if slot is None:
        return True
    try:
        sub(**dict(copy.deepcopy(kw), **{slot: junk}))
    except ALLOWED:
        pass
    except Exception:  # noqa: BLE001
        return False
    return True


# ---- two faults at once in classes that have constructor logic of their own (code that runs before / outside the per-property wrapper)
SMALL_JUNK = [None, 0, "x", [1], {"a": 1}, True, 2.5, [], ""]


def _own_init_classes():
    out = []
    for (ver, cat, name, cls, kw) in GOOD:
        if cat not in ("objects", "observables"):
            continue
        own = any("__init__" in vars(k) or "_check_object_constraints" in vars(k) for k in cls.__mro__
                  if k.__module__.startswith("stix2.v2") and k.__name__ not in ("_STIXBase20", "_STIXBase21", "_DomainObject", "_RelationshipObject", "_Observable"))
        if "__init__" in vars(cls) or (own and name in ("marking-definition", "relationship", "sighting", "indicator", "bundle", "observed-data", "language-content")):
            out.append((ver, cat, name, cls, kw))
    return out


OWN = _own_init_classes()
NOWN = len(OWN)


def paired_faults(ci: int, allow: bool) -> bool:
    """
    pre: 0 <= ci < NOWN
    post: _
    """
    ci, allow = pick(ci, NOWN), pickb(allow)
    with Native():
        ok = run_paired_faults(ci, allow)
    V.reached()
    return ok


def run_paired_faults(ci, allow):
    """every ordered pair of slots the class's own constructor logic looks at: the first removed, the second removed or of another JSON kind"""
    ver, cat, name, cls, kw = OWN[ci]
    base = json.loads(cls(**kw).serialize())
    slots = [s_ for s_ in base if s_ not in ("id", "created", "modified", "spec_version")][:8]
    before = reg_snapshot()
    for a in slots:
        for b in slots:
            if a == b:
                continue
            for ja in (None, "keep"):
                for jb in SMALL_JUNK + ["<deleted>"]:
                    doc = dict(base)
                    if ja is None:
                        doc.pop(a, None)
                    if jb == "<deleted>":
                        doc.pop(b, None)
                    else:
                        doc[b] = copy.deepcopy(jb)
                    for route in (0, 1):
                        try:
                            if route == 0:
                                stix2.parse(doc, allow_custom=allow, version=ver) if cat == "objects" else stix2.parse_observable(doc, allow_custom=allow, version=ver)
                            else:
                                cls(allow_custom=allow, **{k: v for k, v in doc.items() if k != "type" or cat == "observables"})
                        except ALLOWED:
                            pass
                        except Exception:  # noqa: BLE001
                            return False
    return reg_snapshot() == before


# ---- the reference scope handed to a 2.0 observable by its caller: any JSON kind, entries of any shape
SCOPES = [None, [], ["0"], {"0": "file"}, {"0": {"type": "file"}}, {"0": {}}, {"0": {"name": "n"}}, {"0": None}, {"0": 5}, {"0": ["file"]}, {"0": stix2.v20.File(name="f")}, "0", 5, {"*": "*"},
          {"0": {"type": None}}, {"0": {"type": 5}}, [{"0": "file"}], {"1": "file"}]


def reference_scopes(si: int, route: int, which: int) -> bool:
    """
    pre: 0 <= si < len(SCOPES) and 0 <= route <= 1 and 0 <= which <= 2
    post: _
    """
    si, route, which = pick(si, len(SCOPES)), pick(route, 2), pick(which, 3)
    with Native():
        doc = [{"type": "directory", "path": "p", "contains_refs": ["0"]}, {"type": "file", "name": "g", "parent_directory_ref": "0"},
               {"type": "email-addr", "value": "a@b.c", "belongs_to_ref": "0"}][which]
        ok = True
        try:
            if route == 0:
                stix2.parse_observable(dict(doc), _valid_refs=copy.deepcopy(SCOPES[si]) if not hasattr(SCOPES[si], "serialize") and not isinstance(SCOPES[si], dict) else SCOPES[si], version="2.0")
            else:
                cls = stix2.registry.class_for_type(doc["type"], "2.0", "observables")
                cls(_valid_refs=SCOPES[si], **doc)
        except ALLOWED:
            pass
        except Exception:  # noqa: BLE001
            ok = False
    V.reached()
    return ok


# ---- stored files are input too: whatever JSON a file of the store holds, lookups answer or raise a library error
FILE_JUNK = ['{"type": "bundle", "id": "bundle--311b2d2d-f010-4473-83ec-1edf84858f4c"}', '{"type": "bundle", "id": "bundle--311b2d2d-f010-4473-83ec-1edf84858f4c", "objects": []}',
             '{"type": "bundle", "objects": 5}', '{"type": "bundle", "objects": [5]}', '{"type": "bundle", "objects": [{"id": "x"}]}', '{}', '[]', '5', 'null', '"text"', '{"type": 5}',
             '{"type": "identity"}', '{"id": "identity--311b2d2d-f010-4473-83ec-1edf84858f4c"}', '{"type": "bundle", "spec_version": "2.0", "objects": [{"type": "identity"}]}',
             'not json', '', '{"type": "identity", "id": "identity--311b2d2d-f010-4473-83ec-1edf84858f4c", "modified": 5}', '[{"type": "identity"}]']


def stored_file_junk(ji: int, layout: int, allow: bool) -> bool:
    """
    pre: 0 <= ji < len(FILE_JUNK) and 0 <= layout <= 2
    post: _
    """
    ji, layout, allow = pick(ji, len(FILE_JUNK)), pick(layout, 3), pickb(allow)
    with Native():
        ok = run_file_junk(ji, layout, allow)
    V.reached()
    return ok


def run_file_junk(ji, layout, allow):
    from props import fakefs
    from stix2.datastore import DataSourceError, filesystem as FSM
    from stix2.datastore.filters import Filter
    ident = IDENT["id"]
    ffs = fakefs.FakeFS()
    saved = fakefs.install(FSM, ffs)
    try:
        path = ["/fs/identity/%s/20200101000000000.json" % ident, "/fs/identity/%s.json" % ident, "/fs/marking-definition/%s.json" % ident.replace("identity", "marking-definition")][layout]
        ffs.makedirs(path.rsplit("/", 1)[0])
        ffs.files[path] = FILE_JUNK[ji]
        src = FSM.FileSystemSource("/fs", allow_custom=allow)
        target = ident if layout < 2 else ident.replace("identity", "marking-definition")
        for call in (lambda: src.get(target), lambda: src.all_versions(target), lambda: src.query([]), lambda: src.query([Filter("type", "=", target.split("--")[0])]),
                     lambda: src.query([Filter("id", "=", target)]), lambda: src.get(target, version="2.1")):
            try:
                call()
            except ALLOWED + (DataSourceError,):
                pass
            except Exception:  # noqa: BLE001
                return False
        return True
    finally:
        FSM.os, FSM.io = saved


# ---- content nested beyond the interpreter's recursion limit in the places the slot table does not reach: bundles inside bundles, a deep
# custom value next to a granular marking (the selector walk), deep content in list elements
def deep_structures(kind: int, route: int, allow: bool) -> bool:
    """
    pre: 0 <= kind <= 4 and 0 <= route <= 2
    post: _
    """
    kind, route, allow = pick(kind, 5), pick(route, 3), pickb(allow)
    with Native():
        ok = run_deep_structure(kind, route, allow)
    V.reached()
    return ok


def run_deep_structure(kind, route, allow):
    n = DEEP_N
    base = dict(IDENT)
    if kind == 0:
        doc = base
        for _ in range(n):
            doc = {"type": "bundle", "id": "bundle--311b2d2d-f010-4473-83ec-1edf84858f4c", "objects": [doc]}
    elif kind == 1:
        doc = dict(base, x_deep=_deep("dict"), granular_markings=[{"selectors": ["x_zzz"], "lang": "en"}])
    elif kind == 2:
        doc = dict(base, x_deep=_deep("list"), granular_markings=[{"selectors": ["name"], "marking_ref": "marking-definition--613f2e26-407d-48c7-9eca-b8e91df99dc9"}])
    elif kind == 3:
        doc = dict(base, labels=[_deep("list")], external_references=[{"source_name": "s", "external_id": _deep("dict")}])
    else:
        doc = {"type": "bundle", "id": "bundle--311b2d2d-f010-4473-83ec-1edf84858f4c", "objects": [dict(base, x_deep=_deep("dict")), _deep("dict")]}
    before = reg_snapshot()
    try:
        if route == 0:
            stix2.parse(doc, allow_custom=allow)
        elif route == 1:
            stix2.parse(doc, allow_custom=allow, version="2.1")
        else:
            cls = stix2.v21.Bundle if doc["type"] == "bundle" else stix2.v21.Identity
            cls(allow_custom=allow, **{k: v for k, v in doc.items() if k != "type"})
    except ALLOWED:
        pass
    except RecursionError:
        return False
    except Exception:  # noqa: BLE001
        return False
    return reg_snapshot() == before
