"""C18 harnesses: federated sources and relationship navigation equal a scan of the data."""
import itertools

import stix2
from stix2 import Environment
from stix2.datastore import CompositeDataSource
from stix2.datastore.filters import Filter, FilterSet
from stix2.datastore.memory import MemorySource, MemoryStore
from stix2.utils import deduplicate

from engine.hlib import K, Native, Part, TIER, V, pick, pickb

PARTNO = Part.index
QUICK = TIER == "quick"
U = "-f010-4473-83ec-1edf84858f4c"
CREATOR = "identity--a11b2d2d" + U
NODES = ["identity--311b2d2d" + U, "malware--411b2d2d" + U, "tool--511b2d2d" + U]
RT = ["uses", "targets"]
MODS = ["2020-01-01T00:00:00.0001Z", "2020-01-01T00:00:00.0009Z", "2021-01-01T00:00:00.000Z"]      # the first two are distinct versions within one millisecond
PERMS = list(itertools.permutations(range(3)))


def node(i, m=0):
    t = NODES[i].split("--")[0]
    d = {"type": t, "spec_version": "2.1", "id": NODES[i], "created": "2019-01-01T00:00:00.000Z", "modified": MODS[m], "name": "v%d" % m,
         "created_by_ref": CREATOR}
    if t == "identity":
        d["identity_class"] = "individual"
    if t == "malware":
        d["is_family"] = False
    return stix2.parse(d)


CREATOR_OBJ = stix2.parse({"type": "identity", "spec_version": "2.1", "id": CREATOR, "created": "2019-01-01T00:00:00.000Z",
                           "modified": "2019-01-01T00:00:00.000Z", "name": "creator", "identity_class": "organization"})


def rel(k, s, t, r):
    return stix2.parse({"type": "relationship", "spec_version": "2.1", "id": "relationship--%d11b2d2d%s" % (k, U),
                        "created": "2019-01-01T00:00:00.000Z", "modified": "2019-01-01T00:00:00.000Z",
                        "source_ref": NODES[s], "target_ref": NODES[t], "relationship_type": RT[r]})


def key(o):
    m = o["modified"]
    return (o["id"], m if isinstance(m, str) else stix2.utils.format_datetime(m))


# ---------------------------------------------------------------- federation
FED_PART = PARTNO
def federation(a0: int, a1: int, a2: int, perm: int, filt: bool) -> bool:
    """
    pre: 0 <= a0 <= 7 and 0 <= a1 <= 7 and 0 <= a2 <= 7 and 0 <= perm < 9 and perm == FED_PART
    post: _
    """
    masks = [pick(a0, 8), pick(a1, 8), pick(a2, 8)]
    perm, filt = pick(perm, 9), pickb(filt)
    with Native():
        ok = run_federation(masks, perm, filt)
    V.reached()
    return ok


def run_federation(masks, perm, filt):
    """version m of node 0 is held by the members whose bit is set in masks[m]; node 1 (single version) by member 0 and 2.
    Member 2 is a FileSystemSource (in-memory file system) in every second wiring; in every third the Environment is built over the still EMPTY
    composite (next to an empty store) and the members are attached afterwards."""
    from props import fakefs
    from stix2.datastore import filesystem as FSM
    ffs = fakefs.FakeFS()
    saved = fakefs.install(FSM, ffs)
    try:
        return _run_federation(masks, perm, filt, ffs, FSM)
    finally:
        FSM.os, FSM.io = saved


def _run_federation(masks, perm, filt, ffs, FSM):
    members = [[], [], []]
    for m, mask in enumerate(masks):
        for j in range(3):
            if mask & (1 << j):
                members[j].append(node(0, m))
    members[0].append(node(1))
    members[2].append(node(1))
    members[1].append(CREATOR_OBJ)
    # an object without versions (a 2.1 SCO) that fails the filter used below: lookups by id are filtered like every other answer
    sco = stix2.v21.File(name="v2")
    members[1].append(sco)
    members[2].append(sco)
    srcs = [MemorySource(objs) if objs else MemorySource() for objs in members]
    if perm % 2 == 1:
        ffs.makedirs("/fed")
        sink = FSM.FileSystemSink("/fed")
        for o in members[2]:
            sink.add(o)
        srcs[2] = FSM.FileSystemSource("/fed")
    comp = CompositeDataSource()
    early_env = Environment(store=MemoryStore(), source=comp) if perm % 3 == 2 else None        # built while the composite has no members
    if perm < 6:
        comp.add_data_sources([srcs[j] for j in PERMS[perm]])
    else:
        # two-level federation: a composite is itself a member of the composite that carries the filter
        inner = CompositeDataSource()
        inner.add_data_sources([[srcs[0], srcs[1]], [srcs[2]], [srcs[1], srcs[2], srcs[0]]][perm - 6])
        comp.add_data_sources([inner] + [[srcs[2]], [srcs[0], srcs[1]], []][perm - 6])
    env = early_env if early_env is not None else Environment(source=comp)
    f = Filter("name", "!=", "v2")
    if filt:
        if perm == 8:
            env.add_filter(f)          # the environment's own filter set (handed down through two composites)
        else:
            comp.filters.add(f)
    held = [m for m, mask in enumerate(masks) if mask and not (filt and m == 2)]
    for api in ((comp, env) if not (filt and perm == 8) else (env,)):
        got = api.get(NODES[0])
        # newest version, among those that pass the attached filter, held by any member -- regardless of member order and of how the versions
        # are spread over the members (the composite answers as the union of its members: a version hidden by the filter does not hide an
        # older one that happens to sit in the same member)
        visible = [m for m in held]
        if not visible:
            if got is not None:
                return False
        elif got is None or got["name"] != "v%d" % max(visible):
            return False
        allv = api.all_versions(NODES[0])
        if sorted(o["name"] for o in allv) != sorted("v%d" % m for m in held):
            return False
        q = api.query([Filter("type", "in", ["identity", "malware"])])
        want = sorted([(NODES[0], MODS[m]) for m in held] + [(NODES[1], MODS[0])] + ([(CREATOR, "2019-01-01T00:00:00.000Z")]))
        if sorted(key(o) for o in q) != want:
            return False
        # the query given as a FilterSet object the caller keeps (and uses again), or as a single filter: same answer, argument unchanged
        fset = FilterSet([Filter("type", "in", ["identity", "malware"])])
        for _ in range(2):
            if sorted(key(o) for o in api.query(fset)) != want or len(list(fset)) != 1:
                return False
        if sorted(key(o) for o in api.query(Filter("type", "in", ["identity", "malware"]))) != want:
            return False
        got_sco = (api.get(sco.id), api.all_versions(sco.id), api.query([Filter("id", "=", sco.id)]))
        if filt:
            if got_sco[0] is not None or got_sco[1] or got_sco[2]:
                return False
        elif got_sco[0] is None or got_sco[0]["name"] != "v2" or len(got_sco[1]) != 1 or len(got_sco[2]) != 1:
            return False
        c = api.creator_of(node(1))
        if c is None or c["id"] != CREATOR:
            return False
    if perm >= 6:
        # answering through the outer composite / environment must leave the inner composite as it was: it has no filters of its own, so
        # used directly afterwards it answers from its members unfiltered
        if len(list(inner.filters)) != 0 or any(len(list(s_.filters)) != 0 for s_ in srcs):
            return False
        inner_members = [[0, 1], [2], [1, 2, 0]][perm - 6]
        held_inner = sorted("v%d" % m for m, mask in enumerate(masks) if any(mask & (1 << j) for j in inner_members))
        if sorted(o["name"] for o in inner.all_versions(NODES[0])) != held_inner:
            return False
        if sorted(o["name"] for o in inner.query([Filter("id", "=", NODES[0])])) != held_inner:
            return False
        again = sorted(o["name"] for o in comp.all_versions(NODES[0]))
        if perm != 8 and again != sorted("v%d" % m for m in held):
            return False
    return True


# ---------------------------------------------------------------- navigation
def navigation(s1: int, t1: int, r1: int, s2: int, t2: int, q: int, rtsel: int, flags: int, split: int) -> bool:
    """
    pre: 0 <= s1 < 3 and 0 <= t1 < 3 and 0 <= r1 < 2 and 0 <= s2 < 3 and 0 <= t2 < 3
    pre: 0 <= q < 3 and q == PARTNO and 0 <= rtsel <= 2 and 0 <= flags <= 3 and 0 <= split <= 1
    post: _
    """
    args = [pick(s1, 3), pick(t1, 3), pick(r1, 2), pick(s2, 3), pick(t2, 3), pick(q, 3), pick(rtsel, 3), pick(flags, 4), pick(split, 2)]
    with Native():
        ok = run_navigation(*args)
    V.reached()
    return ok


def run_navigation(s1, t1, r1, s2, t2, q, rtsel, flags, split):
    rels = [rel(1, s1, t1, r1), rel(2, s2, t2, 1 - r1)]
    nodes = [node(i) for i in range(3)]
    rt = None if rtsel == 0 else RT[rtsel - 1]
    so, to = bool(flags & 1), bool(flags & 2)
    # expected by a scan of the relationship objects
    exp_rels, exp_ids = set(), set()
    for r in rels:
        if rt and r["relationship_type"] != rt:
            continue
        as_src, as_tgt = r["source_ref"] == NODES[q], r["target_ref"] == NODES[q]
        if (as_src and not to) or (as_tgt and not so):
            exp_rels.add(r["id"])
            exp_ids.update((r["source_ref"], r["target_ref"]))
    exp_ids.discard(NODES[q])
    # access paths: one memory source, a store, a composite whose members split the data, an environment
    if split == 0:
        m_a, m_b = [rels[0], nodes[0], nodes[1]], [rels[1], nodes[2], nodes[1]]
    else:
        m_a, m_b = rels, nodes                  # all relationships in one member, all nodes in the other
    comp = CompositeDataSource()
    comp.add_data_sources([MemorySource(m_a), MemorySource(m_b)])
    apis = [("source", MemorySource(rels + nodes)), ("store", MemoryStore(rels + nodes)), ("composite", comp), ("environment", Environment(source=comp))]
    for name, api in apis:
        for arg in (NODES[q], nodes[q]):
            try:
                got = api.relationships(arg, rt, so, to)
            except ValueError:
                if not (so and to):
                    return False
                continue
            if so and to:
                return False
            if sorted(o["id"] for o in got) != sorted(exp_rels):          # each relationship once (multiplicity matters, not only membership)
                return False
            rel_to = api.related_to(arg, rt, so, to)
            want = set(exp_ids)
            if name in ("composite", "environment") and K.open("C18-composite-related-to"):
                continue
            if sorted(o["id"] for o in rel_to) != sorted(want):           # each related object once, also when two relationships lead to it
                return False
            only_tools = api.related_to(arg, rt, so, to, filters=[Filter("type", "=", "tool")])
            if sorted(o["id"] for o in only_tools) != sorted(i for i in want if i.startswith("tool--")):
                return False
    if so and to:
        return True
    # a filter attached to the source (or the composite) applies to navigation like to any other answer: here it hides the first relationship
    hide = Filter("id", "!=", rels[0]["id"])
    exp_rels2, exp_ids2 = set(), set()
    for r in rels[1:]:
        if rt and r["relationship_type"] != rt:
            continue
        as_src, as_tgt = r["source_ref"] == NODES[q], r["target_ref"] == NODES[q]
        if (as_src and not to) or (as_tgt and not so):
            exp_rels2.add(r["id"])
            exp_ids2.update((r["source_ref"], r["target_ref"]))
    exp_ids2.discard(NODES[q])
    comp2 = CompositeDataSource()
    comp2.add_data_sources([MemorySource(m_a), MemorySource(m_b)])
    inner = CompositeDataSource()
    inner.add_data_sources([MemorySource(m_a), MemorySource(m_b)])
    outer = CompositeDataSource()
    outer.add_data_sources([inner])
    for api in (MemorySource(rels + nodes), comp2, outer):
        api.filters.add(hide)
        if sorted(o["id"] for o in api.relationships(NODES[q], rt, so, to)) != sorted(exp_rels2):
            return False
        if sorted(o["id"] for o in api.related_to(NODES[q], rt, so, to)) != sorted(exp_ids2):
            return False
    return True


def dedup(i1: int, i2: int, i3: int, v1: int, v2: int, v3: int, objects: bool = False) -> bool:
    """
    pre: 0 <= i1 < 2 and 0 <= i2 < 2 and 0 <= i3 < 2 and 0 <= v1 < 3 and 0 <= v2 < 3 and 0 <= v3 < 3
    post: _
    """
    picks = [(pick(i1, 2), pick(v1, 3)), (pick(i2, 2), pick(v2, 3)), (pick(i3, 2), pick(v3, 3))]
    objects = pickb(objects)
    with Native():
        if objects:
            objs = [node(i, v) for (i, v) in picks]        # library objects (modified is a datetime)
        else:
            # dict-kept objects: the third text is respelled per position (one instant, three spellings)
            sp = ["2021-01-01T00:00:00.000Z", "2021-01-01T00:00:00Z", "2021-01-01T00:00:00.000000Z"]
            objs = [{"id": "x--%d" % i, "modified": MODS[v] if v < 2 else sp[k], "k": k} for k, (i, v) in enumerate(picks)]
        out = deduplicate(objs)
        inst = lambda o: (o["id"], stix2.utils.format_datetime(stix2.utils.parse_into_datetime(o["modified"])))   # noqa: E731  a version is (id, instant)
        ok = sorted(inst(o) for o in out) == sorted({inst(o) for o in objs})
    V.reached()
    return ok
