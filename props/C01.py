"""C01 -- serialize/parse round trip is lossless for every object and option set."""
from engine.spec import CH
from props import C02, C15

H = "props.h_C01"
F = ["stix2.serialization.STIXJSONEncoder.default", "stix2.serialization.STIXJSONIncludeOptionalDefaultsEncoder.default", "stix2.serialization.fp_serialize",
     "stix2.serialization.find_property_index", "stix2.base._STIXBase.__init__", "stix2.parsing.parse", "stix2.parsing.dict_to_stix2",
     "stix2.utils.detect_spec_version", "stix2.utils.format_datetime", "stix2.utils.parse_into_datetime"]
FMT = "message formatting of symbolic values is opaque text (CrossHair plugin)"
JSONT = "simplejson text encode/decode (C code) is a trusted environment component; it is exercised concretely by the enumerated round trips"

META = {
    "engines": ["crosshair", "pysym"],
    "level_text": "The round trip crosses simplejson's C encoder/decoder, which cannot be executed symbolically, so the property is decomposed along its "
                  "anchored mechanisms: (a) constructor + both encoders at JSON-value level on a synthetic class with symbolic presence flags, "
                  "unbounded ints, short strings and custom content (shared C02 engine obligations: defaulted optionals dropped/kept exactly, no "
                  "None/[] stored, key order); (b) timestamp text <-> value fixed point for every canonical text, all fields and microseconds "
                  "symbolic (shared C15 pysym obligations); (c) the pretty-order kernel find_property_index with symbolic, possibly equal nested "
                  "values; (d) end to end through the text layer, labelled enumeration: every SDO/SRO/SCO class of both versions (59) enriched with "
                  "every optional slot that can be added, 6 rotations of boundary value pools (astral/control characters, 2^53+1, 2^63, 1e16, 1e21, "
                  "0.1+0.2, 5e-324, microsecond timestamps, year 999), with and without custom properties, x 32 option vectors; plus bundles of both "
                  "versions, a 2.0 observed-data container, marking definitions, an unregistered toplevel-property extension, language content, "
                  "nested extensions, keys repeated at nested levels and datetime inputs in 5 time zones incl. naive: parse without naming the "
                  "version gives the same class and an equal object, re-serialization is byte identical, option texts denote the same value up to "
                  "defaulted optionals, pretty output lists top-level properties in specification order.",
    "level_text_more": 'Also: every class constructed from naive/UTC/offset datetimes with sub-millisecond digits and with defaulted id/times; bundles whose members are of the other spec version or carry custom content; values taken from an object of one spec version and given to a constructor of the other. Timestamp objects carrying each of the 6 precision settings into 6 constructors; str(), serialize(), fp_serialize() and parse from a file object agree. Rounds 5-6: types registered inside the case whose first instance carries a registered toplevel extension; one type name offered to two registration decorators; nulls / empty containers nested in custom values; order of unregistered toplevel-extension properties; values given as bytes / numeric text.',
    "level_note": "Obligation (d) is bounded case enumeration selected by the solver, not a verdict over all values. JSON text layer trusted beyond "
                  "the enumerated pools. Specification order is taken from the frozen model (props/spec_model.json).",
    "technique": "CrossHair symbolic execution of constructor/encoders/ordering kernel, AST-to-SMT timestamp fixed point (pysym), solver-selected "
                 "end-to-end round trips over class x pool x option tables; counterexamples replayed natively",
    "outside": ["JSON text layer beyond the pools", "objects nested deeper than the fixtures", "bundles of bundles"],
    "assumptions": [FMT, JSONT],
}


def obligations(tier):
    t = 300 if tier == "quick" else 900
    obls = [CH("pretty_order_kernel", H, "pretty_order_kernel", t, functions=F[3:4], stubs=[FMT],
               bounds="4 top-level keys + custom key, nested dict repeating keys with symbolic values 0..2 (possibly equal)"),
            CH("special_shapes", H, "special_shapes", t, mode="E1s", functions=F, stubs=[JSONT],
               bounds="18 shapes (bundles 2.0/2.1, bundles with members of the other version / with custom members, observed-data container, markings, toplevel extension, "
                      "5 time zones, nested key repeats, language content, nested extensions, values reused across spec versions, timestamp objects carrying each of the 6 precision settings into 6 constructors, a type registered after its content was first seen, a registered toplevel extension given as an instance and rebuilt 5 ways, custom properties with number-like names) x 32 option vectors")]
    for p in range(8):
        obls.append(CH("roundtrip_every_class_p%d" % p, H, "roundtrip_classes", t * 2, mode="E1s", functions=F, stubs=[JSONT], env={"VERIF_PART": str(p)},
                       bounds="classes with index %% 8 == %d of 59 x 6 value-pool rotations x {parsed, parsed with custom properties, constructed from naive/UTC/offset datetimes with sub-millisecond digits, constructed with defaulted id and times} x 32 option vectors" % p))
    obls += [o for o in C02.obligations(tier) if o.name.startswith("constructor_engine")]
    obls += [o for o in C15.obligations(tier) if o.name in ("parse_format_fixed_point", "format_is_canonical_truncated")]
    return obls
