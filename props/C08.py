"""C08 -- a granular-marking selector is valid exactly when it addresses something."""
from engine.spec import CH, JOB

H = "props.h_C08"
F = ["stix2.markings.utils.iterpath", "stix2.markings.utils._evaluate_expression", "stix2.markings.utils._validate_selector",
     "stix2.markings.utils.validate"]
FMT = "message formatting of symbolic values is opaque text (CrossHair plugin)"

META = {
    "engines": ["crosshair", "re2z3"],
    "level_text": "Bounded symbolic model checking of the real selector machinery: iterpath/_evaluate_expression/_validate_selector/validate are "
                  "executed by CrossHair on objects whose stored values are symbolic (unbounded ints incl. 0, bools, strings incl. empty, equal "
                  "list elements) with a symbolic selector string of up to 7 characters, against an independently enumerated path set; real "
                  "objects with embedded objects/extensions are checked through validate(), add_markings() and parse() over their full path "
                  "set plus near misses (selector-enumerated); SELECTOR_REGEX is compared with the selector grammar for all strings (regex inclusion).",
    "level_text_more": 'Also: language markings with every path / near miss at construction, parse and new_version. Lists of selectors: two symbolic strings <= 4 chars (E1c), and near misses placed before/between/after valid selectors on real objects through 7 functions. Rounds 5-6: one container instance stored at several places of an object or dictionary; class construction of types declared with extension_name.',
    "level_note": "Trusts CrossHair/z3; selector strings longer than 7 characters are covered only through the enumerated tables; three fixture "
                  "objects (2.1 Malware, 2.1 File with ntfs-ext, 2.0 Indicator) stand for 'all objects' in the object-level obligation.",
    "technique": "CrossHair symbolic execution of the real selector functions (symbolic values and selector string), regex-to-z3 inclusion; "
                 "counterexamples replayed natively",
    "outside": ["selectors > 7 characters outside the enumerated tables", "objects other than the three fixtures for the embedded-object obligation"],
    "assumptions": [FMT],
}


def obligations(tier):
    t = 120 if tier == "quick" else 600
    return [
        CH("selector_valid_iff_addresses", H, "sel_plain", t, functions=F[:3], stubs=[FMT],
           bounds="dict with int, nested bool/str and list values: ints unbounded, str <= 1 char, selector: every str <= 7 chars"),
        CH("validate_raises_iff_invalid", H, "sel_validate", t, functions=F, stubs=[FMT],
           bounds="ints unbounded, bool list with equal elements, selector: every str <= 7 chars"),
        CH("sorted_walk_indices_and_hyphens", H, "sel_sorted", t, functions=F[:3], stubs=[FMT],
           bounds="list of 11 elements (indices 0..10), sibling keys 'sha' / 'sha-1' with nested value; selector: every str <= 8 chars"),
        CH("selector_lists_symbolic", H, "sel_validate2", t, functions=F, bounds="two selector strings, each every str <= 4 chars, on an object whose property names are prefixes of one another"),
        CH("selector_lists_on_objects", H, "sel_lists", t, mode="E1s", functions=F + ["stix2.markings.add_markings", "stix2.parsing.parse"],
           bounds="3 real objects x every path with its last 1..3 characters cut off (a near miss) placed before / between / after valid selectors x validate, get_markings, "
                  "is_marked, add_markings (object and dict), parse (one entry and two entries)"),
        CH("objects_embedded_and_extensions", H, "sel_objects", t, mode="E1s", functions=F + ["stix2.markings.add_markings", "stix2.parsing.parse"],
           bounds="5 real objects (one of a type declared with extension_name, one that stores the SAME embedded object / dictionary instance at several places) x (every path of their JSON + 10 near misses); validate, add/get/is_marked/set/remove/clear_markings on unmarked and marked objects, parse with granular_markings"),
        CH("shared_containers_in_dictionaries", H, "shared_dict_selectors", t, mode="E1s", functions=F + ["stix2.markings.utils.iterpath"],
           bounds="a plain dictionary in which one dictionary instance occurs at 3 places and one embedded object twice x (every path of its JSON + 10 near misses) x validate / add / get / is_marked / set / parse / constructor"),
        CH("construction_checks_selectors_every_class", H, "sel_construction", t, mode="E1s", functions=F + ["stix2.base._STIXBase._check_object_constraints"],
           bounds="enriched instance of each of 59 classes (both versions) that defines granular_markings x 2 addressing selectors and 4 near misses x (parse, constructor): accepted exactly when the selector addresses something"),
    ] + ([CH("every_class_every_path_p%d" % q, H, "sel_all_classes", t, mode="E1s", functions=F, env={"VERIF_PART": str(q)},
              bounds="classes with index %% 8 == %d of 59 (enriched instance of every SDO/SRO/SCO class of both versions): every JSON path + systematic near misses" % q)
          for q in range(8)] if tier == "thorough" else []) + [
        JOB("selector_regex_is_grammar", "props.j_regex", "job_selector", 120, engine="re2z3", functions=["stix2.properties.SelectorProperty.clean"],
            bounds="all strings (regex language inclusion, both directions)"),
    ]
