"""C08 harnesses: a granular-marking selector is valid exactly when it addresses something."""
import json

from crosshair.core import NoTracing

import stix2
from stix2 import markings
from stix2.exceptions import InvalidSelectorError, InvalidValueError, MarkingNotFoundError, STIXError
from stix2.markings import utils as mu

from engine.hlib import Native, V, pick
from props import h_C01, h_C03  # noqa: F401  (imported before this module registers its own custom type: their class tables are the built-in ones)

M1 = "marking-definition--613f2e26-407d-48c7-9eca-b8e91df99dc9"


def sel_plain(v1: int, v2: int, b: bool, t: str, s: str) -> bool:
    """
    pre: len(s) <= 7 and len(t) <= 1
    post: _
    """
    obj = {"aaa": v1, "bbb": {"ccc": b, "dd": t}, "lst": [v1, v2]}
    paths = {"aaa", "bbb", "bbb.ccc", "bbb.dd", "lst", "lst.[0]", "lst.[1]"}
    got = bool(mu._validate_selector(obj, s))
    V.reached()
    return got == (s in paths)


def sel_validate(v1: int, b: bool, s: str) -> bool:
    """
    pre: len(s) <= 7
    post: _
    """
    obj = {"aaa": v1, "bbb": {"ccc": b}, "lst": [b, b]}
    paths = {"aaa", "bbb", "bbb.ccc", "lst", "lst.[0]", "lst.[1]"}
    try:
        mu.validate(obj, [s])
        ok = True
    except InvalidSelectorError:
        ok = False
    V.reached()
    return ok == (s in paths)


def sel_validate2(v1: int, b: bool, s: str, t: str) -> bool:
    """
    pre: len(s) <= 4 and len(t) <= 4
    post: _
    """
    # a list of selectors is accepted exactly when EVERY member addresses something (names that are prefixes of one another on purpose)
    obj = {"aaa": v1, "aa": b, "lst": [b]}
    paths = {"aaa", "aa", "lst"}
    try:
        mu.validate(obj, [s, t])
        ok = True
    except InvalidSelectorError:
        ok = False
    V.reached()
    return ok == ((s in paths) and (t in paths))


def sel_sorted(b: bool, v: int, s: str) -> bool:
    """
    pre: len(s) <= 8
    post: _
    """
    # list indices >= 10 and keys where '-' / '.' ordering differs from component order
    obj = {"lst": [b, v, 2, 3, 4, 5, 6, 7, 8, 9, v], "d": {"sha": {"v": b}, "sha-1": v}}
    paths = {"lst", "lst.[0]", "lst.[1]", "lst.[2]", "lst.[3]", "lst.[4]", "lst.[5]", "lst.[6]", "lst.[7]", "lst.[8]", "lst.[9]", "lst.[10]",
             "d", "d.sha", "d.sha.v", "d.sha-1"}
    got = bool(mu._validate_selector(obj, s))
    V.reached()
    return got == (s in paths)


# ---- real objects with embedded objects / extensions; selector from an independently enumerated path set plus near misses
def enum_paths(j, prefix=""):
    """independent path enumeration over plain JSON"""
    out = []
    if isinstance(j, dict):
        for k, v in j.items():
            p = prefix + "." + k if prefix else k
            out.append(p)
            out.extend(enum_paths(v, p))
    elif isinstance(j, list):
        for i, v in enumerate(j):
            p = "%s.[%d]" % (prefix, i)
            out.append(p)
            out.extend(enum_paths(v, p))
    return out


def _objects():
    mal = stix2.v21.Malware(
        name="", is_family=False, malware_types=["worm", "worm"], confidence=0,
        external_references=[{"source_name": "src", "external_id": "1", "hashes": {"MD5": "0" * 32}},
                             {"source_name": "src", "external_id": "1", "hashes": {"MD5": "0" * 32}}],
        kill_chain_phases=[{"kill_chain_name": "k", "phase_name": "p"}])
    f = stix2.v21.File(name="x", size=0, extensions={"ntfs-ext": {"sid": "s", "alternate_data_streams": [{"name": "a", "size": 0}]}})
    ind = stix2.v20.Indicator(pattern="[a:b = 1]", labels=["x", "x"], revoked=False,
                              external_references=[{"source_name": "src", "description": ""}])
    # a custom type declared with extension_name: its own extension entry is added after the constructor's own checks; built WITH a granular marking
    own = "extension-definition--0d0d0d0d-f010-4473-83ec-1edf84858f4c"

    @stix2.v21.CustomObject("x-c08-own", [("name", stix2.properties.StringProperty(required=True)), ("tags", stix2.properties.ListProperty(stix2.properties.StringProperty))],
                            extension_name=own)
    class Own(object):
        pass
    cust = Own(name="n", tags=["t", "t"], granular_markings=[{"marking_ref": M1, "selectors": ["name"]}])
    # ONE container instance stored at several places of an object (an embedded object reused for two list elements and under a custom
    # property, one dictionary under two custom properties): each occurrence is addressable
    ref = stix2.v21.ExternalReference(source_name="src", external_id="1", hashes={"MD5": "0" * 32})
    kcp = stix2.v21.KillChainPhase(kill_chain_name="k", phase_name="p")
    dd = {"k": {"n": 1}, "l": [{"m": 0}]}
    shared = stix2.v21.Malware(name="s", is_family=False, external_references=[ref, {"source_name": "o", "external_id": "2"}, ref], kill_chain_phases=[kcp, kcp],
                               x_a=dd, x_b=dd, x_c=[dd["k"], dd["k"]], allow_custom=True)
    return [mal, f, ind, cust, shared]


def _shared_dict():
    """the same situation in a plain dictionary handed to the marking functions"""
    er = {"source_name": "src", "external_id": "1", "hashes": {"MD5": "0" * 32}}
    inner = {"n": 1}
    return {"type": "malware", "spec_version": "2.1", "id": "malware--311b2d2d-f010-4473-83ec-1edf84858f4c", "created": "2020-01-01T00:00:00.000Z",
            "modified": "2020-01-01T00:00:00.000Z", "name": "s", "is_family": False, "external_references": [er, {"source_name": "o", "external_id": "2"}, er],
            "x_a": inner, "x_b": inner, "x_c": [inner, inner]}


def shared_dict_selectors(si: int) -> bool:
    """
    pre: 0 <= si < 64
    post: _
    """
    d = _shared_dict()
    table = sorted(set(enum_paths(json.loads(json.dumps(d))))) + NEAR
    if si >= len(table):
        return True
    si = pick(si, len(table))
    with Native():
        sel = table[si]
        want = sel in enum_paths(json.loads(json.dumps(d)))
        ok = True
        for fn in (lambda: mu.validate(d, [sel]), lambda: markings.add_markings(d, M1, [sel]), lambda: markings.get_markings(d, [sel]),
                   lambda: markings.is_marked(d, M1, [sel]), lambda: markings.set_markings(d, M1, [sel]),
                   lambda: stix2.parse(dict(d, granular_markings=[{"marking_ref": M1, "selectors": [sel]}]), allow_custom=True),
                   lambda: stix2.v21.Malware(**dict({k: v for k, v in d.items() if k != "type"}, granular_markings=[{"marking_ref": M1, "selectors": [sel]}], allow_custom=True))):
            try:
                fn()
                got = True
            except (InvalidSelectorError, InvalidValueError):
                got = False
            except MarkingNotFoundError:
                got = True
            ok = ok and got == want
    V.reached()
    return ok


OBJS = _objects()
NOBJ = len(OBJS)
JS = [json.loads(o.serialize()) for o in OBJS]
# (paths into granular_markings itself are left out: an operation that rewrites the marking list can invalidate such a selector half way)
PATHS = [[p for p in enum_paths(j) if not p.startswith("granular_markings")] for j in JS]
NEAR = ["nope", "name.x", "external_references.[2]", "external_references.[0].nope", "labels.[2]", "extensions.ntfs-ext.nope",
        "malware_types.[2]", "kill_chain_phases.[0].kill_chain_name.x", "extensions.[0]", "confidence.[0]"]
TABLES = [sorted(set(p)) + NEAR for p in PATHS]
NMAX = max(len(t) for t in TABLES)


def sel_objects(oi: int, si: int) -> bool:
    """
    pre: 0 <= oi < NOBJ and 0 <= si < NMAX
    post: _
    """
    oi = pick(oi, NOBJ)
    table = TABLES[oi]
    if si >= len(table):
        return True
    si = pick(si, len(table))
    with Native():
        ok = run_object_case(oi, si)
    V.reached()
    return ok


def run_object_case(oi, si):
    obj, sel = OBJS[oi], TABLES[oi][si]
    want = sel in PATHS[oi]
    # 1. validate()
    try:
        mu.validate(obj, [sel])
        got = True
    except InvalidSelectorError:
        got = False
    if got != want:
        return False
    # 2. marking function (objects that support markings)
    if hasattr(obj, "add_markings") or oi != 1:
        try:
            markings.add_markings(obj, M1, [sel])
            got = True
        except (InvalidSelectorError, InvalidValueError):
            got = False
        if got != want:
            return False
    # 2b. every marking function validates the selector, on an unmarked object and on a marked one
    if oi != 1:
        marked = markings.add_markings(obj, M1, [PATHS[oi][0]])
        omarked = markings.add_markings(obj, M1)                      # carries an object-level marking
        for target in (omarked,):
            for fn in (lambda o: markings.is_marked(o, selectors=[sel], inherited=True), lambda o: markings.is_marked(o, None, [sel], True, True),
                       lambda o: markings.get_markings(o, [sel], inherited=True), lambda o: o.is_marked(selectors=sel, inherited=True) if hasattr(o, "is_marked") else
                       markings.is_marked(o, selectors=sel, inherited=True)):
                try:
                    fn(target)
                    got = True
                except (InvalidSelectorError, InvalidValueError):
                    got = False
                if got != want:
                    return False
        for target in (obj, marked):
            for fn in (lambda o: markings.get_markings(o, [sel]), lambda o: markings.get_markings(o, sel, inherited=True, descendants=True),
                       lambda o: markings.is_marked(o, M1, [sel]), lambda o: markings.is_marked(o, selectors=[sel]),
                       lambda o: markings.set_markings(o, M1, [sel]), lambda o: markings.remove_markings(o, M1, [sel]),
                       lambda o: markings.clear_markings(o, [sel])):
                try:
                    fn(target)
                    got = True
                except (InvalidSelectorError, InvalidValueError):
                    got = False
                except MarkingNotFoundError:
                    got = True            # the selector was accepted; there was just nothing to remove
                if got != want:
                    return False
    # 3. construction / parse of an object that carries the selector (only syntactically legal selectors can get that far)
    if oi != 1:
        d = dict(JS[oi])
        d["granular_markings"] = [{"marking_ref": M1, "selectors": [sel]}]
        try:
            stix2.parse(d, version=("2.0" if oi == 2 else "2.1"), allow_custom=(oi == 4))
            got = True
        except (InvalidSelectorError, STIXError, ValueError):
            got = False
        if got != want:
            return False
        if oi == 3:
            # 3a. a type declared with extension_name, built through its class WITHOUT naming the extension: the entry the class adds is part of
            # the object from the start and addressable like everything else
            kw = {k: v for k, v in JS[oi].items() if k not in ("type", "extensions")}
            kw["granular_markings"] = [{"marking_ref": M1, "selectors": [sel]}]
            try:
                built = type(obj)(**kw)
                got = True
            except (InvalidSelectorError, STIXError, ValueError):
                got = False
            if got != want or (got and json.loads(built.serialize()).get("extensions") != JS[oi]["extensions"]):
                return False
        # 3b. the same for a language marking (2.1), alone and next to a valid marking-ref marking, and through new_version
        if oi != 2:
            for gm in ([{"lang": "fr", "selectors": [sel]}], [{"marking_ref": M1, "selectors": [PATHS[oi][0]]}, {"lang": "de", "selectors": [sel]}]):
                d = dict(JS[oi])
                d["granular_markings"] = gm
                try:
                    stix2.parse(d, version="2.1", allow_custom=(oi == 4))
                    got = True
                except (InvalidSelectorError, STIXError, ValueError):
                    got = False
                if got != want:
                    return False
            if "modified" in JS[oi]:
                try:
                    obj.new_version(granular_markings=[{"lang": "fr", "selectors": [sel]}])
                    got = True
                except (InvalidSelectorError, STIXError, ValueError):
                    got = False
                if got != want:
                    return False
    return True


# ---- lists of selectors on real objects: a near miss (a valid path with its tail cut off) next to valid selectors, in every position
def sel_lists(oi: int, si: int, cut: int, pos: int) -> bool:
    """
    pre: 0 <= oi < 3 and 0 <= si < NMAX and 1 <= cut <= 3 and 0 <= pos <= 2
    post: _
    """
    oi = pick(oi, 3)
    if si >= len(PATHS[oi]):
        return True
    si, cut, pos = pick(si, len(PATHS[oi])), pick(cut, 4), pick(pos, 3)
    with Native():
        ok = run_list_case(oi, si, cut, pos)
    V.reached()
    return ok


def run_list_case(oi, si, cut, pos):
    obj, good = OBJS[oi], PATHS[oi][si]
    bad = good[:-cut]
    if bad in PATHS[oi]:
        return True                    # cutting the tail gave another existing path: not a near miss
    other = PATHS[oi][0]
    sels = [[bad, good, other], [good, bad, other], [good, other, bad]][pos]
    ver = "2.0" if oi == 2 else "2.1"
    outcomes = []
    for fn in (lambda: mu.validate(obj, sels), lambda: markings.get_markings(obj, sels), lambda: markings.is_marked(obj, M1, sels),
               lambda: markings.add_markings(obj, M1, sels) if oi != 1 else mu.validate(obj, sels),
               lambda: stix2.parse(dict(JS[oi], granular_markings=[{"marking_ref": M1, "selectors": sels}]), version=ver),
               lambda: stix2.parse(dict(JS[oi], granular_markings=[{"marking_ref": M1, "selectors": [good]}, {"marking_ref": M1, "selectors": [other, bad]}]), version=ver),
               lambda: markings.add_markings(dict(JS[oi]), M1, sels)):
        try:
            fn()
            outcomes.append(True)
        except (InvalidSelectorError, STIXError, ValueError):
            outcomes.append(False)
    return not any(outcomes)


# ---- thorough: every class of both versions, every path of an enriched instance plus systematic near misses
def _all_class_tables():
    from props import h_C01, h_C03
    out = []
    for ver, cat, name, cls, kw in h_C03.CLASSES:
        try:
            doc = h_C01.enrich(ver, cat, name, cls, h_C03.base_doc(cls, kw), 1)
            o = stix2.parse(doc, version=ver) if cat == "objects" else stix2.parse_observable(doc, version=ver)
        except Exception:  # noqa: BLE001
            continue
        j = json.loads(o.serialize())
        paths = sorted(set(enum_paths(j)))
        near = ["nope", "zz"]
        for p in paths:
            near.append(p + ".nope")
            if isinstance(_get(j, p), list):
                near.append("%s.[%d]" % (p, len(_get(j, p))))
            elif not isinstance(_get(j, p), dict):
                near.append(p + ".[0]")
        out.append((o, set(paths), paths + sorted(set(near) - set(paths))))
    return out


def _get(j, path):
    cur = j
    for step in path.split("."):
        cur = cur[int(step[1:-1])] if step.startswith("[") else cur[step]
    return cur


_ALL = []


def all_tables():
    if not _ALL:
        _ALL.extend(_all_class_tables())
    return _ALL


NALL = 59
NPARTS = 8
from engine.hlib import Part  # noqa: E402

PARTNO = Part.index


def sel_all_classes(ci: int) -> bool:
    """
    pre: 0 <= ci < NALL and ci % NPARTS == PARTNO
    post: _
    """
    ci = pick(ci, NALL)
    with Native():
        ok = run_all_class_case(ci)
    V.reached()
    return ok


def run_all_class_case(ci):
    tables = all_tables()
    if ci >= len(tables):
        return True
    o, paths, table = tables[ci]
    for sel in table:
        try:
            mu.validate(o, [sel])
            got = True
        except InvalidSelectorError:
            got = False
        if got != (sel in paths):
            return False
    return True


# ---- every class checks the selectors of granular markings it is constructed / parsed with (a class-specific constraint method must not drop the inherited check)
def sel_construction(ci: int) -> bool:
    """
    pre: 0 <= ci < NALL
    post: _
    """
    ci = pick(ci, NALL)
    with Native():
        ok = run_construction_case(ci)
    V.reached()
    return ok


def run_construction_case(ci):
    tables = all_tables()
    if ci >= len(tables):
        return True
    o, paths, table = tables[ci]
    if "granular_markings" not in o._properties:
        return True
    ver = "2.0" if isinstance(o, stix2.v20._STIXBase20) else "2.1"
    doc = json.loads(o.serialize())
    doc.pop("granular_markings", None)
    valid = [p for p in sorted(paths) if not p.startswith("granular_markings")]
    near = [s for s in table if s not in paths and not s.startswith("granular_markings")]
    picks = valid[:1] + valid[-1:] + near[:2] + near[len(near) // 2:len(near) // 2 + 1] + near[-1:]
    for sel in picks:
        d = dict(doc, granular_markings=[{"marking_ref": "marking-definition--613f2e26-407d-48c7-9eca-b8e91df99dc9", "selectors": [sel]}])
        for how in (0, 1):
            try:
                if how == 0:
                    stix2.parse(d, version=ver) if "created" in d or d["type"] in ("bundle", "marking-definition") else stix2.parse_observable(d, version=ver)
                else:
                    type(o)(**{k: v for k, v in d.items()})
                got = True
            except (STIXError, ValueError):
                got = False
            if got != (sel in paths):
                return False
    return True
