"""C10 harnesses: pattern text and pattern object model convert into each other faithfully."""
import stix2.patterns as PT
from stix2.pattern_visitor import STIXPatternVisitorForSTIX21, create_pattern_object
from stix2patterns.v21.grammars.STIXPatternParser import STIXPatternParser as P21

from engine.hlib import K, Native, Part, TIER, V, pick, pickb

PARTNO = Part.index

# ---------------------------------------------------------------- visitor methods on stubbed children
class Sym:
    def __init__(self, t):
        self.type = t


class Tok:
    def __init__(self, t, text="?"):
        self.symbol = Sym(t)
        self._text = text

    def getText(self):
        return self._text


class Vis(STIXPatternVisitorForSTIX21):
    def __init__(self, children):
        super().__init__(P21)
        self._children = children

    def visitChildren(self, ctx):
        return self._children


TESTS = [  # (visitor method, operator tokens, expected class, operator text)
    ("visitPropTestEqual", [(P21.EQ, "="), (P21.NEQ, "!=")], "EqualityComparisonExpression"),
    ("visitPropTestOrder", [(P21.GT, ">"), (P21.LT, "<"), (P21.GE, ">="), (P21.LE, "<=")], None),
    ("visitPropTestSet", [(P21.IN, "IN")], "InComparisonExpression"),
    ("visitPropTestLike", [(P21.LIKE, "LIKE")], "LikeComparisonExpression"),
    ("visitPropTestRegex", [(P21.MATCHES, "MATCHES")], "MatchesComparisonExpression"),
    ("visitPropTestIsSubset", [(P21.ISSUBSET, "ISSUBSET")], "IsSubsetComparisonExpression"),
    ("visitPropTestIsSuperset", [(P21.ISSUPERSET, "ISSUPERSET")], "IsSupersetComparisonExpression"),
]
ORDER_CLS = {">": "GreaterThanComparisonExpression", "<": "LessThanComparisonExpression", ">=": "GreaterThanEqualComparisonExpression",
             "<=": "LessThanEqualComparisonExpression"}
NT = len(TESTS)


def visitor_prop_tests(ti: int, oi: int, has_not: bool, c: int) -> bool:
    """
    pre: 0 <= ti < NT and 0 <= oi < 4
    post: _
    """
    ti = pick(ti, NT)
    meth, ops, cls = TESTS[ti]
    if oi >= len(ops):
        return True
    oi = pick(oi, len(ops))
    tok_type, optext = ops[oi]
    path = PT.ObjectPath("a", ["b"])
    const = PT.ListConstant([c, 2]) if meth == "visitPropTestSet" else (PT.StringConstant("x") if ti >= 3 else PT.IntegerConstant(c))
    ch = [path] + ([Tok(P21.NOT, "NOT")] if has_not else []) + [Tok(tok_type, optext), const]
    r = getattr(Vis(ch), meth)(None)
    V.reached()
    if r is None:
        return False
    want_cls = cls or ORDER_CLS[optext]
    if type(r).__name__ != want_cls or r.rhs is not const or r.lhs is not path:
        return False
    if meth == "visitPropTestEqual":
        # a != b is NOT (a = b); NOT a != b is a = b
        return r.operator == "=" and bool(r.negated) == (bool(has_not) != (optext == "!="))
    return r.operator == optext and bool(r.negated) == bool(has_not)


# ---------------------------------------------------------------- generator of valid 2.1 patterns with their own syntax tree
PATHS = ["a:b", "a:b.c", "a:b[1].c", "a:b[*]", "a:'k-1'.c", "file:hashes.'SHA-256'", "a:b_ref.c", "a:b.'c d'", "a:b.'clé'", "a:'ключ'.c", "a:b.'straße_2'.c", "a:b.'k-1'[*]", "a:b.'c d'[*].e", "a:'k-1'[*].c", "a:b.'k-1'[2].c",
         # quoted steps whose text needs escapes (a quote, a backslash), as last step, before another step, before an index
         "a:b.'it\\'s'", "a:b.'back\\\\slash'.c", "a:'q\\'x'[1]", "a:b.'it\\'s'[*].c"]
NPATH = len(PATHS)
CMP_OPS = ["=", "!=", ">", "<", ">=", "<=", "IN", "LIKE", "MATCHES", "ISSUBSET", "ISSUPERSET"]
CONSTS = {  # constant text per kind; the printed form may normalise it (CANON)
    "int": "1", "neg": "-7", "float": "1.5", "str": "'x'", "esc": "'it\\'s \\\\ q'", "bool": "true", "hex": "h'0a'", "bin": "b'YWJj'",
    "ts": "t'2020-01-01T00:00:00.5Z'", "set": "(1, 2)", "sset": "('a', 'b')",
    # floats with more digits than a fixed format keeps, and of magnitudes Python writes with an exponent (which the grammar does not have)
    "float7": "0.1234567", "fsmall": "0.00001", "fneg": "-0.000000123", "fbig": "12345678901234567000.0", "f17": "2.00000025", "fset": "(0.1234567, 0.00001)",
}
KINDS_FOR = {"=": ["int", "neg", "float", "str", "esc", "bool", "hex", "bin", "ts", "float7", "fsmall", "fneg", "fbig", "f17"], "!=": ["int", "str"], ">": ["int", "float", "ts", "fsmall"], "<": ["int"],
             ">=": ["int"], "<=": ["neg"], "IN": ["set", "sset", "fset"], "LIKE": ["str", "esc"], "MATCHES": ["str"], "ISSUBSET": ["str"], "ISSUPERSET": ["str"]}
ATOMS = [(op, k) for op in CMP_OPS for k in KINDS_FOR[op]]
NATOM = len(ATOMS)
NA_BOOL = 8 if TIER == "quick" else NATOM      # atoms used as the varying operand in structure obligations
NA_OBS = 4 if TIER == "quick" else NATOM


def atom(ai, pi, neg):
    op, kind = ATOMS[ai]
    text = "%s %s%s %s" % (PATHS[pi], "NOT " if neg else "", op, CONSTS[kind])
    base, parity = (op, neg) if op != "!=" else ("=", not neg)
    return text, ("cmp", PATHS[pi], base, bool(parity), CONSTS[kind])


def tree_of(x):
    """canonical tree of a stix2.patterns model object (same-operator chains flattened)"""
    if isinstance(x, PT.ParentheticalExpression):
        return ("paren", tree_of(x.expression))
    if isinstance(x, PT._ComparisonExpression):
        return ("cmp", str(x.lhs), x.operator, bool(x.negated), str(x.rhs))
    if isinstance(x, PT._BooleanExpression):
        kids = []
        for o in x.operands:
            t = tree_of(o)
            kids.extend(t[1] if t[0] == x.operator else [t])
        return (x.operator, kids)
    if isinstance(x, PT.QualifiedObservationExpression):
        return ("qual", tree_of(x.observation_expression), str(x.qualifier))
    if isinstance(x, PT._CompoundObservationExpression):
        kids = []
        for o in x.operands:
            t = tree_of(o)
            kids.extend(t[1] if t[0] == "obs-" + x.operator else [t])
        return ("obs-" + x.operator, kids)
    if isinstance(x, PT.ObservationExpression):
        if isinstance(x.operand, (PT.ObservationExpression, PT._CompoundObservationExpression)):
            return tree_of(x.operand)
        return ("obs", tree_of(x.operand))
    raise TypeError("unexpected node %r" % (x,))


def check_text(text, want):
    """parse -> model tree equals the generator's tree; print parses back to the same tree; print is a fixed point"""
    o = create_pattern_object(text, version="2.1")
    if tree_of(o) != want:
        return False
    printed = str(o)
    o2 = create_pattern_object(printed, version="2.1")
    return tree_of(o2) == want and str(o2) == printed


def comparisons(ai: int, pi: int, neg: bool) -> bool:
    """
    pre: 0 <= ai < NATOM and 0 <= pi < NPATH
    post: _
    """
    ai, pi, neg = pick(ai, NATOM), pick(pi, NPATH), pickb(neg)
    with Native():
        text, t = atom(ai, pi, neg)
        if neg and K.open("C10-unused") and False:
            ok = True
        else:
            ok = check_text("[%s]" % text, ("obs", t))
    V.reached()
    return ok


BOOL_SHAPES = ["{a} %s {b} %s {c}", "({a} %s {b}) %s {c}", "{a} %s ({b} %s {c})"]
B_OPS = ["AND", "OR"]


def flat(op, kids):
    out = []
    for k in kids:
        out.extend(k[1] if k[0] == op else [k])
    return (op, out)


def bool_tree(shape, o1, o2, a, b, c):
    if shape == 0:
        # AND binds tighter than OR
        if o1 == o2:
            return flat(o1, [a, b, c])
        if o1 == "AND":
            return flat("OR", [flat("AND", [a, b]), c])
        return flat("OR", [a, flat("AND", [b, c])])
    if shape == 1:
        return flat(o2, [("paren", flat(o1, [a, b])), c])
    return flat(o1, [a, ("paren", flat(o2, [b, c]))])


def boolean_structure(shape: int, i1: int, i2: int, a1: int, a2: int, a3: int, n1: bool) -> bool:
    """
    pre: 0 <= shape < 3 and 0 <= i1 < 2 and 0 <= i2 < 2 and 0 <= a1 < NA_BOOL and 0 <= a2 < 4 and 0 <= a3 < 4
    post: _
    """
    shape, i1, i2, a1, a2, a3, n1 = pick(shape, 3), pick(i1, 2), pick(i2, 2), pick(a1, NA_BOOL), pick(a2, 4), pick(a3, 4), pickb(n1)
    with Native():
        ta, A = atom(a1, 0, n1)
        tb, B = atom((a2 * 7) % NATOM, 1, False)
        tc, C = atom((a3 * 5 + 3) % NATOM, 2, a3 % 2 == 1)
        text = BOOL_SHAPES[shape] % (B_OPS[i1], B_OPS[i2])
        text = text.replace("{a}", ta).replace("{b}", tb).replace("{c}", tc)
        ok = check_text("[%s]" % text, ("obs", bool_tree(shape, B_OPS[i1], B_OPS[i2], A, B, C)))
    V.reached()
    return ok


O_OPS = ["AND", "OR", "FOLLOWEDBY"]
PREC = {"AND": 3, "OR": 2, "FOLLOWEDBY": 1}
QUALS = ["", " REPEATS 2 TIMES", " WITHIN 5 SECONDS", " START t'2020-01-01T00:00:00Z' STOP t'2020-01-02T00:00:00Z'"]


def oflat(op, kids):
    out = []
    for k in kids:
        out.extend(k[1] if k[0] == "obs-" + op else [k])
    return ("obs-" + op, out)


def obs_tree(shape, o1, o2, a, b, c):
    if shape == 0:
        if o1 == o2:
            return oflat(o1, [a, b, c])
        if PREC[o1] > PREC[o2]:
            return oflat(o2, [oflat(o1, [a, b]), c])
        return oflat(o1, [a, oflat(o2, [b, c])])
    if shape == 1:
        return oflat(o2, [("paren", oflat(o1, [a, b])), c])
    return oflat(o1, [a, ("paren", oflat(o2, [b, c]))])


def observation_structure(shape: int, i1: int, i2: int, q: int, qpos: int, a1: int) -> bool:
    """
    pre: 0 <= shape < 3 and 0 <= i1 < 3 and 0 <= i2 < 3 and 0 <= q < 4 and 0 <= qpos < 3 and 0 <= a1 < NA_OBS
    post: _
    """
    shape, i1, i2, q, qpos, a1 = pick(shape, 3), pick(i1, 3), pick(i2, 3), pick(q, 4), pick(qpos, 3), pick(a1, NA_OBS)
    with Native():
        ok = run_obs_case(shape, i1, i2, q, qpos, a1)
    V.reached()
    return ok


def run_obs_case(shape, i1, i2, q, qpos, a1):
    ta, A = atom(a1, 0, False)
    tb, B = atom(0, 1, False)
    tc, C = atom(3, 2, True)
    obs = [["[%s]" % t, ("obs", T)] for t, T in ((ta, A), (tb, B), (tc, C))]
    qual = QUALS[q]
    if qual and qpos < 3 and qpos != 2 or (qual and qpos == 2 and shape == 0):
        # qualifier on a single observation (binds tighter than any operator)
        k = qpos if qpos < 3 else 2
        obs[k] = [obs[k][0] + qual, ("qual", obs[k][1], qual.strip())]
    text = BOOL_SHAPES[shape] % (O_OPS[i1], O_OPS[i2])
    text = text.replace("{a}", obs[0][0]).replace("{b}", obs[1][0]).replace("{c}", obs[2][0])
    want = obs_tree(shape, O_OPS[i1], O_OPS[i2], obs[0][1], obs[1][1], obs[2][1])
    if qual and qpos == 2 and shape != 0:
        # qualifier on the whole (parenthesised) pattern
        text = "(%s)%s" % (text, qual)
        want = ("qual", ("paren", want), qual.strip())
    return check_text(text, want)


# ---------------------------------------------------------------- programmatic construction with the model classes
STRS = ["x", "it's", "back\\slash", "q'\\'", "", "a-b", "new\nline"]


def programmatic(si: int, shape: int, neg: bool, ci: int) -> bool:
    """
    pre: 0 <= si < 7 and 0 <= shape < 3 and 0 <= ci < 4
    post: _
    """
    si, shape, neg, ci = pick(si, 7), pick(shape, 3), pickb(neg), pick(ci, 4)
    with Native():
        ok = run_prog_case(si, shape, neg, ci)
    V.reached()
    return ok


def run_prog_case(si, shape, neg, ci):
    s = STRS[si]
    cls = [PT.EqualityComparisonExpression, PT.LikeComparisonExpression, PT.InComparisonExpression, PT.GreaterThanComparisonExpression][ci]
    rhs = [PT.StringConstant(s), PT.StringConstant(s), PT.ListConstant([s, "z"]), PT.IntegerConstant(5)][ci]
    a = cls(PT.ObjectPath("file", ["name"]), rhs, neg)
    b = PT.EqualityComparisonExpression(PT.ObjectPath("file", ["size"]), PT.IntegerConstant(3))
    c = PT.EqualityComparisonExpression("file:hashes.'SHA-256'", PT.HashConstant("0" * 64, "SHA-256"))
    if shape == 0:
        m = PT.ObservationExpression(PT.AndBooleanExpression([a, b, c]))
    elif shape == 1:
        m = PT.ObservationExpression(PT.AndBooleanExpression([PT.ParentheticalExpression(PT.OrBooleanExpression([a, b])), c]))
    else:
        m = PT.QualifiedObservationExpression(
            PT.ParentheticalExpression(PT.FollowedByObservationExpression([PT.ObservationExpression(a), PT.ObservationExpression(PT.OrBooleanExpression([b, c]))])),
            PT.RepeatQualifier(2))
    text = str(m)
    o = create_pattern_object(text, version="2.1")
    if str(o) != text:
        return False
    # the string constant survives print -> parse unchanged (escaping is meaning preserving)
    found = []

    def walk(x):
        if isinstance(x, PT._ComparisonExpression):
            if isinstance(x.rhs, PT.StringConstant) and str(x.lhs) == "file:name":
                found.append(x.rhs)
            if isinstance(x.rhs, PT.ListConstant) and str(x.lhs) == "file:name":
                found.append(x.rhs.value[0])
        for attr in ("operands", "expression", "operand", "observation_expression"):
            v = getattr(x, attr, None)
            if isinstance(v, list):
                for y in v:
                    walk(y)
            elif v is not None and not isinstance(v, (str, int)):
                walk(v)
    walk(o)
    if ci == 3:
        return not found and tree_of(o) is not None
    if len(found) != 1:
        return False
    back = found[0].value if found[0].needs_to_be_quoted else found[0].value.replace("\\\\", "\x00").replace("\\'", "'").replace("\x00", "\\")
    return back == s


def exists_test(neg: bool, pi: int) -> bool:
    """
    pre: 0 <= pi < 3
    post: _
    """
    pi, neg = pick(pi, 3), pickb(neg)
    with Native():
        ok = run_exists_case(neg, pi)
    V.reached()
    return ok


def run_exists_case(neg, pi):
    """STIX 2.1 grammar: [EXISTS a:b] -- must round trip like every other comparison (known open finding C10-exists when listed)"""
    if K.open("C10-exists"):
        return True
    text = "[%sEXISTS %s]" % ("NOT " if neg else "", PATHS[pi])
    o = create_pattern_object(text, version="2.1")
    printed = str(o)
    try:
        o2 = create_pattern_object(printed, version="2.1")
    except Exception:  # noqa: BLE001
        return False
    return str(o2) == printed and "EXISTS" in printed and ("NOT" in printed) == neg


# ---------------------------------------------------------------- comparison expressions over several object types
TYPES3 = ["a", "c", "e"]
MIX_SHAPES = ["({0} OR {1} OR {2}) AND {3}", "{0} OR {1} OR {2} OR {3}", "({0} OR {1}) AND ({2} OR {3})", "{0} AND ({1} OR {2} OR {3})",
              "{0} OR ({1} AND {2}) OR {3}", "({0} OR {1} OR {2} OR {3}) AND {0}", "{0} OR {1} AND {2} OR {3}"]


def _mix_tree(shape, A):
    P, O, N = (lambda x: ("paren", x)), (lambda *k: flat("OR", list(k))), (lambda *k: flat("AND", list(k)))
    return [lambda: N(P(O(A[0], A[1], A[2])), A[3]), lambda: O(A[0], A[1], A[2], A[3]), lambda: N(P(O(A[0], A[1])), P(O(A[2], A[3]))),
            lambda: N(A[0], P(O(A[1], A[2], A[3]))), lambda: O(A[0], P(N(A[1], A[2])), A[3]), lambda: N(P(O(A[0], A[1], A[2], A[3])), A[0]),
            lambda: O(A[0], N(A[1], A[2]), A[3])][shape]()


def _root_types(t):
    """reference: object types that can satisfy a comparison-expression tree; None when some AND has no common type"""
    if t[0] == "cmp":
        return {t[1].split(":")[0]}
    if t[0] == "paren":
        return _root_types(t[1])
    sets = [_root_types(k) for k in t[1]]
    if any(s is None for s in sets):
        return None
    if t[0] == "OR":
        return set().union(*sets)
    r = set.intersection(*sets)
    return r or None


def mixed_types(shape: int, t0: int, t1: int, t2: int, t3: int) -> bool:
    """
    pre: 0 <= shape < 7 and 0 <= t0 < 3 and 0 <= t1 < 3 and 0 <= t2 < 3 and 0 <= t3 < 3
    post: _
    """
    shape, t0, t1, t2, t3 = pick(shape, 7), pick(t0, 3), pick(t1, 3), pick(t2, 3), pick(t3, 3)
    with Native():
        ok = run_mixed_case(shape, (t0, t1, t2, t3))
    V.reached()
    return ok


def run_mixed_case(shape, ts):
    """every AND whose operands share an object type is satisfiable, so the pattern must be accepted and round trip; a pattern with an AND
    over disjoint types can never match and the library may refuse it (no claim)"""
    atoms = [("%s:p%d = %d" % (TYPES3[t], i, i), ("cmp", "%s:p%d" % (TYPES3[t], i), "=", False, str(i))) for i, t in enumerate(ts)]
    want = _mix_tree(shape, [a[1] for a in atoms])
    if _root_types(want) is None:
        return True
    text = "[%s]" % MIX_SHAPES[shape].format(*[a[0] for a in atoms])
    return check_text(text, ("obs", want))


# ---------------------------------------------------------------- programmatic: path components and reuse of sub-expressions
PROG_PATHS = [  # (object type, components, printed path) -- the printed path follows the grammar's quoting rule for a step name
    ("file", ["name"], "file:name"),
    ("file", [PT.ListObjectPathComponent("sections", 2), "entropy"], "file:sections[2].entropy"),
    ("file", [PT.ListObjectPathComponent("sections", "*"), "name"], "file:sections[*].name"),
    ("a", [PT.ListObjectPathComponent("my-list", 2)], "a:'my-list'[2]"),
    ("a", [PT.BasicObjectPathComponent("x y", False), PT.ListObjectPathComponent("9z", 0)], "a:'x y'.'9z'[0]"),
    ("email-message", ["additional_header_fields", "X-Received[1]"], "email-message:additional_header_fields.'X-Received'[1]"),
    ("a", [PT.ReferenceObjectPathComponent("b_ref"), "c"], "a:b_ref.c"),
    ("a", ["b_ref", "k-1"], "a:b_ref.'k-1'"),
    ("email-message", None, "email-message:additional_header_fields.'X-Forwarded-For'[0]"),
    ("a", [PT.BasicObjectPathComponent("über", False), PT.ListObjectPathComponent("naïve", 2), "ß"], "a:'über'.'naïve'[2].'ß'"),
]
NPROG = len(PROG_PATHS)
PROG_LHS_TEXT = {8: "email-message:additional_header_fields.X-Forwarded-For[0]"}


def programmatic_paths(pi: int, neg: bool, wrap: int) -> bool:
    """
    pre: 0 <= pi < NPROG and 0 <= wrap < 3
    post: _
    """
    pi, neg, wrap = pick(pi, NPROG), pickb(neg), pick(wrap, 3)
    with Native():
        ok = run_prog_path_case(pi, neg, wrap)
    V.reached()
    return ok


def run_prog_path_case(pi, neg, wrap):
    typ, comps, printed = PROG_PATHS[pi]
    lhs = PROG_LHS_TEXT[pi] if comps is None else PT.ObjectPath(typ, comps)
    a = PT.EqualityComparisonExpression(lhs, PT.IntegerConstant(7), neg)
    b = PT.EqualityComparisonExpression(PT.ObjectPath(typ, ["q"]), PT.IntegerConstant(3))
    m = [PT.ObservationExpression(a), PT.ObservationExpression(PT.AndBooleanExpression([a, b])),
         PT.ObservationExpression(PT.OrBooleanExpression([b, PT.ParentheticalExpression(PT.AndBooleanExpression([b, a]))]))][wrap]
    text = str(m)
    A = ("cmp", printed, "=", bool(neg), "7")
    B = ("cmp", "%s:q" % typ, "=", False, "3")
    want = ("obs", [A, ("AND", [A, B]), ("OR", [B, ("paren", ("AND", [B, A]))])][wrap])
    return check_text(text, want)


def programmatic_reuse(t0: int, t1: int, t2: int, t3: int, op1: int, op2: int) -> bool:
    """
    pre: 0 <= t0 < 3 and 0 <= t1 < 3 and 0 <= t2 < 3 and 0 <= t3 < 3 and 0 <= op1 < 2 and 0 <= op2 < 2
    post: _
    """
    t0, t1, t2, t3, op1, op2 = pick(t0, 3), pick(t1, 3), pick(t2, 3), pick(t3, 3), pick(op1, 2), pick(op2, 2)
    with Native():
        ok = run_reuse_case((t0, t1, t2, t3), op1, op2)
    V.reached()
    return ok


def run_reuse_case(ts, op1, op2):
    """a model node may be used as operand of several expressions: what the second expression is (text, or refusal) must not depend on the
    first one having been built, and building never changes how the shared node prints"""
    BO = [PT.AndBooleanExpression, PT.OrBooleanExpression]

    def atoms():
        return [PT.EqualityComparisonExpression(PT.ObjectPath(TYPES3[t], ["p%d" % i]), PT.IntegerConstant(i)) for i, t in enumerate(ts)]

    def build(cls, kids):
        try:
            return str(cls(kids))
        except ValueError:
            return None
    A = atoms()
    shared = PT.ParentheticalExpression(PT.OrBooleanExpression([A[0], A[1]]))
    before = str(shared)
    build(BO[op1], [shared, A[2]])
    second = build(BO[op2], [shared, A[3]])
    second_atom = build(BO[op2], [A[0], A[3]])
    F = atoms()
    fresh_shared = PT.ParentheticalExpression(PT.OrBooleanExpression([F[0], F[1]]))
    fresh = build(BO[op2], [fresh_shared, F[3]])
    fresh_atom = build(BO[op2], [F[0], F[3]])
    return second == fresh and second_atom == fresh_atom and str(shared) == before


# ---------------------------------------------------------------- an observation whose WHOLE comparison expression is one parenthesised group
GROUP_SHAPES = ["[({a} {op} {b})]", "[(({a} {op} {b}))]", "[({a})]", "[({a} {op} {b})] WITHIN 5 SECONDS", "[({a})] AND [{b}]", "[({a} {op} {b})] OR ([{b}] FOLLOWEDBY [({a})])",
                "[({a} {op} {b})] REPEATS 2 TIMES", "([({a})]) WITHIN 5 SECONDS"]
NGS = len(GROUP_SHAPES)


def whole_group(shape: int, oi: int, a1: int, a2: int, n1: bool, prog: bool) -> bool:
    """
    pre: 0 <= shape < NGS and 0 <= oi < 2 and 0 <= a1 < NA_BOOL and 0 <= a2 < 4
    post: _
    """
    shape, oi, a1, a2, n1, prog = pick(shape, NGS), pick(oi, 2), pick(a1, NA_BOOL), pick(a2, 4), pickb(n1), pickb(prog)
    with Native():
        ok = run_group_case(shape, oi, a1, a2, n1, prog)
    V.reached()
    return ok


def run_group_case(shape, oi, a1, a2, n1, prog):
    ta, A = atom(a1, 0, n1)
    tb, B = atom((a2 * 7) % NATOM, 1, False)
    op = B_OPS[oi]
    G, PA = ("paren", flat(op, [A, B])), ("paren", A)
    want = [("obs", G), ("obs", ("paren", G)), ("obs", PA), ("qual", ("obs", G), "WITHIN 5 SECONDS"), oflat("AND", [("obs", PA), ("obs", B)]),
            oflat("OR", [("obs", G), ("paren", oflat("FOLLOWEDBY", [("obs", B), ("obs", PA)]))]), ("qual", ("obs", G), "REPEATS 2 TIMES"),
            ("qual", ("paren", ("obs", PA)), "WITHIN 5 SECONDS")][shape]
    text = GROUP_SHAPES[shape].format(a=ta, b=tb, op=op)
    if prog:
        # the same model assembled from the classes: what it prints must parse back to the same structure
        m = create_pattern_object(text, version="2.1")

        def rebuild(x):
            if isinstance(x, PT.ParentheticalExpression):
                return PT.ParentheticalExpression(rebuild(x.expression))
            if isinstance(x, PT.QualifiedObservationExpression):
                return PT.QualifiedObservationExpression(rebuild(x.observation_expression), x.qualifier)
            if isinstance(x, PT._CompoundObservationExpression):
                return type(x)([rebuild(o) for o in x.operands])
            if isinstance(x, PT.ObservationExpression):
                return PT.ObservationExpression(rebuild(x.operand))
            if isinstance(x, PT._BooleanExpression):
                return type(x)([rebuild(o) for o in x.operands])
            return x
        text = str(rebuild(m))
    return check_text(text, want)


# ---------------------------------------------------------------- caller-supplied node classes (module_suffix / module_name of create_pattern_object)
import types as _types  # noqa: E402

OVR = _types.ModuleType("verif_pattern_overrides")
for _n in ("StringConstant", "BinaryConstant", "HexConstant", "EqualityComparisonExpression", "ObjectPath", "ListConstant", "BasicObjectPathComponent",
           "ListObjectPathComponent", "IntegerConstant", "ObservationExpression"):
    setattr(OVR, _n + "ForOvr", type(_n + "ForOvr", (getattr(PT, _n),), {}))       # the visitor looks for <class name>For<suffix>
import sys as _sys  # noqa: E402
_sys.modules["verif_pattern_overrides"] = OVR
OVR_TEXTS = ["[a:b = 'it\\'s']", "[a:b = 'C:\\\\Windows']", "[a:b = b'YWJj']", "[a:b = h'00ff']", "[a:'k-1'.c = 'x']", "[a:b[1].'c d' = 'q\\'\\\\']", "[a:b IN ('x\\'', 'y')]",
             "[a:b = 5 AND a:c = 'plain']"]
NOVR = len(OVR_TEXTS)


def override_classes(ti: int) -> bool:
    """
    pre: 0 <= ti < NOVR
    post: _
    """
    ti = pick(ti, NOVR)
    with Native():
        text = OVR_TEXTS[ti]
        plain = create_pattern_object(text, version="2.1")
        o = create_pattern_object(text, module_suffix="Ovr", module_name="verif_pattern_overrides", version="2.1")
        # the caller's classes are used where they exist, and the model prints exactly what the default model prints (a fixed point of parse-then-print)
        uses = isinstance(o, OVR.ObservationExpressionForOvr)
        ok = uses and str(o) == str(plain) and str(create_pattern_object(str(o), module_suffix="Ovr", module_name="verif_pattern_overrides", version="2.1")) == str(o) \
            and tree_of(o) == tree_of(plain)
    V.reached()
    return ok
