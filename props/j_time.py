"""pysym jobs on the timestamp kernels (stix2/utils.py: format_datetime, parse_into_datetime) -- C15, C01.b, C03, C11.c.

Environment stubs (each contract-tested against the real component in validate()):
  strftime(fmt)       glibc semantics: %Y decimal year WITHOUT zero padding, %m %d %H %M %S two digits, %f six digits
  strptime(text, fmt) canonical-width text only: %Y 4 digits, %m %d %H %M %S 2 digits, %f 1..6 digits right-padded; anything
                      else ValueError; the text is assumed to name a valid calendar date
  pytz.utc.localize / astimezone(utc) for offset 0: same fields, tz = UTC
  STIXdatetime(ts, precision=, precision_constraint=): same fields plus metadata (to_enum executed natively)
"""
import datetime as dt
import random
import time

import pytz
import z3

from engine import xcheck

from engine.pysym import Engine, Interp, SBool, SInt, SStr, SymRaise, Unsupported, digits_of, lift, lift_c, mk, sint_from_digits
from stix2 import utils
from stix2.utils import Precision, PrecisionConstraint, STIXdatetime

FIELDS = ("Y", "M", "D", "h", "m", "s", "us")
RANGES = dict(Y=(1, 9999), M=(1, 12), D=(1, 31), h=(0, 23), m=(0, 59), s=(0, 59), us=(0, 999999))
SETTINGS = [(p, c) for p in Precision for c in PrecisionConstraint]


class UTCish:
    def utcoffset(self, d):
        return dt.timedelta(0)


UTC = UTCish()


class SymDT:
    """datetime model with broken-down (possibly symbolic) fields; only UTC / naive values are modelled"""
    __pysym_model__ = True

    def __init__(self, f, aware, precision=None, constraint=None, pytz_utc=False):
        """aware: False = naive, True = UTC-aware.  pytz_utc: tzinfo is the pytz.utc singleton (astimezone(pytz.utc) then returns the SAME
        object, metadata included); otherwise another zero-offset tzinfo (astimezone builds a plain new value without metadata)."""
        self.f = dict(f)
        self.pytz_utc = bool(aware and pytz_utc)
        self.tzinfo = (pytz.utc if self.pytz_utc else UTC) if aware else None
        if precision is not None:
            self.precision = precision
            self.precision_constraint = constraint

    year = property(lambda self: self.f["Y"])
    month = property(lambda self: self.f["M"])
    day = property(lambda self: self.f["D"])
    hour = property(lambda self: self.f["h"])
    minute = property(lambda self: self.f["m"])
    second = property(lambda self: self.f["s"])
    microsecond = property(lambda self: self.f["us"])

    def __pysym_isinstance__(self, types):
        types = types if isinstance(types, tuple) else (types,)
        me = STIXdatetime if hasattr(self, "precision") else dt.datetime      # a value carrying metadata models a STIXdatetime
        return any(issubclass(me, t) for t in types if isinstance(t, type))

    def utcoffset(self):
        return dt.timedelta(0) if self.tzinfo is not None else None

    def _cmp_expr(self, o, strict):
        """instants in field order (both values are UTC or both naive in every use here)"""
        if not isinstance(o, SymDT):
            raise Unsupported("comparison of a modelled datetime with %r" % (type(o),))
        a, b = [lift(self.f[k]) for k in FIELDS], [lift(o.f[k]) for k in FIELDS]
        cases = [z3.And([a[j] == b[j] for j in range(i)] + [a[i] < b[i]]) for i in range(len(FIELDS))]
        if not strict:
            cases.append(z3.And([x == y for x, y in zip(a, b)]))
        return z3.Or(cases)

    def __eq__(self, o):
        if not isinstance(o, SymDT):
            return False
        return SBool(z3.And([lift(self.f[k]) == lift(o.f[k]) for k in FIELDS]))

    def __ne__(self, o):
        if not isinstance(o, SymDT):
            return True
        return SBool(z3.Not(z3.And([lift(self.f[k]) == lift(o.f[k]) for k in FIELDS])))

    __hash__ = object.__hash__          # a key by identity (values are symbolic)

    def __lt__(self, o): return SBool(self._cmp_expr(o, True))
    def __le__(self, o): return SBool(self._cmp_expr(o, False))
    def __gt__(self, o): return SBool(o._cmp_expr(self, True)) if isinstance(o, SymDT) else self._cmp_expr(o, True)
    def __ge__(self, o): return SBool(o._cmp_expr(self, False)) if isinstance(o, SymDT) else self._cmp_expr(o, False)

    def astimezone(self, tz=None):
        if tz is not pytz.utc and tz is not dt.timezone.utc:
            raise Unsupported("astimezone to a zone other than UTC")
        if self.tzinfo is None:
            # CPython reads a naive value as SYSTEM LOCAL time here.  The local zone is the environment's, i.e. an arbitrary whole-hour UTC offset
            # (a nondeterministic stub): the hour moves by it (date roll-over is not modelled -- any non-zero offset already changes the hour; a
            # witness is replayed natively under a TZ with that offset).  Unmodified code never takes this path: it localizes naive values as UTC.
            from engine.pysym import Engine, SInt
            f = dict(self.f)
            if not hasattr(Engine.cur, "pc"):
                # translator validation runs concretely, next to the real function in THIS process: its local zone is the process's
                import time as _time
                f["h"] = (self.f["h"] + _time.timezone // 3600) % 24
                return SymDT(f, True, pytz_utc=(tz is pytz.utc))
            loc = z3.Int("local_utc_offset_h")
            Engine.cur.assume(z3.And(loc >= -12, loc <= 14))
            f["h"] = SInt((lift(self.f["h"]) - loc) % 24)
            return SymDT(f, True, pytz_utc=(tz is pytz.utc))
        if self.pytz_utc and tz is pytz.utc:
            return self                      # CPython: astimezone() returns self when tzinfo is the target zone object
        if hasattr(self, "precision"):
            # a STIXdatetime: datetime methods build the result through the subclass constructor, i.e. with its default metadata
            return SymDT(self.f, True, Precision.ANY, PrecisionConstraint.EXACT, pytz_utc=(tz is pytz.utc))
        return SymDT(self.f, True, pytz_utc=(tz is pytz.utc))

    def replace(self, **kw):
        names = dict(year="Y", month="M", day="D", hour="h", minute="m", second="s", microsecond="us")
        f = dict(self.f)
        aware = self.tzinfo is not None
        for k, v in kw.items():
            if k == "tzinfo":
                aware = v is not None
            elif k in names:
                f[names[k]] = v
            else:
                raise Unsupported("replace(%s)" % k)
        return SymDT(f, aware, pytz_utc=self.pytz_utc and aware)

    def strftime(self, fmt):
        out = []
        i = 0
        while i < len(fmt):
            c = fmt[i]
            if c != "%":
                out.append(ord(c))
                i += 1
                continue
            d = fmt[i + 1]
            i += 2
            if d == "Y":
                Y = self.f["Y"]
                # glibc: %Y is not zero padded -> fork on magnitude
                if Y >= 1000:
                    out.extend(_digits(Y, 4))
                elif Y >= 100:
                    out.extend(_digits(Y, 3))
                elif Y >= 10:
                    out.extend(_digits(Y, 2))
                else:
                    out.extend(_digits(Y, 1))
            elif d in "mdHMS":
                out.extend(_digits(self.f[dict(m="M", d="D", H="h", M="m", S="s")[d]], 2))
            elif d == "f":
                out.extend(_digits(self.f["us"], 6))
            else:
                raise Unsupported("strftime directive %" + d)
        return mk(out)


def _digits(v, width):
    if isinstance(v, int):
        return [ord(c) for c in str(v).rjust(width, "0")]
    return digits_of(v, width)


def is_localize(fn):
    return getattr(fn, "__name__", "") == "localize" and getattr(fn, "__self__", None) is pytz.utc


def is_strptime(fn):
    return getattr(fn, "__name__", "") == "strptime" and getattr(fn, "__self__", None) is dt.datetime


def localize_stub(d, is_dst=False):
    if not isinstance(d, SymDT):
        raise Unsupported("localize of %r" % type(d))
    return SymDT(d.f, True, pytz_utc=True)


def stixdt_stub(ts, precision=Precision.ANY, precision_constraint=PrecisionConstraint.EXACT):
    if not isinstance(ts, SymDT):
        raise Unsupported("STIXdatetime(%r)" % type(ts))
    return SymDT(ts.f, ts.tzinfo is not None, utils.to_enum(precision, Precision),
                 utils.to_enum(precision_constraint, PrecisionConstraint), pytz_utc=ts.pytz_utc)


def strptime_stub(value, fmt):
    """canonical-width strptime on a concrete-length string of character terms"""
    eng = Engine.cur
    if isinstance(value, str):
        value = SStr.of(value)
    if not isinstance(value, SStr):
        raise TypeError("strptime() argument 1 must be str")
    chars = value.chars
    pos = 0
    f = {"us": 0}

    def digit(c):
        c = lift_c(c)
        if not eng.decide(z3.And(c >= 48, c <= 57)):
            raise ValueError("time data does not match format")
        return c - 48

    def number(n):
        nonlocal pos
        if pos + n > len(chars):
            raise ValueError("time data does not match format")
        for k in range(n):
            digit(chars[pos + k])
        v = sint_from_digits(chars[pos:pos + n])
        pos += n
        return v

    i = 0
    while i < len(fmt):
        c = fmt[i]
        if c != "%":
            if pos >= len(chars) or not eng.decide(lift_c(chars[pos]) == ord(c)):
                raise ValueError("time data does not match format")
            pos += 1
            i += 1
            continue
        d = fmt[i + 1]
        i += 2
        if d == "Y":
            f["Y"] = number(4)
        elif d in "mdHMS":
            f[dict(m="M", d="D", H="h", M="m", S="s")[d]] = number(2)
        elif d == "f":
            rest_lit = len(fmt) - i       # only literal characters follow %f in the formats used
            n = len(chars) - pos - rest_lit
            if n < 1 or n > 6:
                raise ValueError("time data does not match format")
            ds = list(chars[pos:pos + n])
            number(n)
            f["us"] = sint_from_digits(ds + [48] * (6 - n))
        else:
            raise Unsupported("strptime directive %" + d)
    if pos != len(chars):
        raise ValueError("unconverted data remains")
    for k, (lo, hi) in RANGES.items():
        if k == "us" or k not in f:
            continue
        v = f[k]
        if k == "s":
            hi = 61
        ok = (lo <= v <= hi) if isinstance(v, int) else eng.decide(z3.And(v.e >= lo, v.e <= hi))
        if not ok:
            raise ValueError("value out of range")
        if k == "s" and not (v <= 59 if isinstance(v, int) else eng.decide(v.e <= 59)):
            raise ValueError("second must be in 0..59")
    return SymDT(f, False)


STUBS = {"__callables__": [(is_localize, localize_stub), (is_strptime, strptime_stub), (lambda fn: fn is STIXdatetime, stixdt_stub)]}
STUB_NOTES = [
    "strftime: glibc semantics (%Y unpadded decimal year; %m %d %H %M %S two digits) -- contract-tested against time.strftime",
    "strptime: canonical-width text only (%Y 4 digits, others 2, %f 1..6 digits); valid calendar date assumed -- contract-tested",
    "pytz.utc.localize / astimezone(utc) on UTC values keep the fields (non-zero UTC offsets outside the claim); astimezone of a NAIVE value reads it in the process's local zone, modelled as an arbitrary whole-hour offset -12..+14 (the environment is a nondeterministic stub; witnesses replayed under TZ)",
    "STIXdatetime(ts, precision, constraint) keeps the fields and attaches the metadata (datetime.__new__ is C code)",
]


WIDTH = dict(Y=4, M=2, D=2, h=2, m=2, s=2, us=6)


def fresh(eng, tag="", ymin=1):
    """symbolic broken-down fields, each defined by its own decimal digit variables (keeps all queries linear)"""
    f = {}
    for k in FIELDS:
        ds = []
        for i in range(WIDTH[k]):
            d = z3.Int("%s%s_%d" % (k, tag, i))
            eng.assume(z3.And(d >= 0, d <= 9))
            ds.append(48 + d)
        v = sint_from_digits(ds)
        lo, hi = RANGES[k]
        if k == "Y":
            lo = ymin
        eng.assume(z3.And(v.e >= lo, v.e <= hi))
        f[k] = v
    # valid calendar date (leap days are not modelled: Feb 29 is outside the claim)
    D, M = f["D"].e, f["M"].e
    eng.assume(z3.Or(D <= 28, z3.And(D <= 30, M != 2), z3.And(D == 31, z3.Or([M == x for x in (1, 3, 5, 7, 8, 10, 12)]))))
    return f


# ---------------------------------------------------------------- independent oracle (integer arithmetic)
def frac_len_py(us, precision, constraint):
    """number of fractional digits the canonical text must carry"""
    if precision == Precision.SECOND and constraint == PrecisionConstraint.EXACT:
        return 0
    if precision == Precision.MILLISECOND and constraint == PrecisionConstraint.EXACT:
        return 3
    n = 6
    while n > 0 and us % (10 ** (6 - n + 1)) == 0:
        n -= 1
    return max(n, 3 if precision == Precision.MILLISECOND else 0)


def oracle_text_py(Y, M, D, h, m, s, us, precision, constraint):
    n = frac_len_py(us, precision, constraint)
    base = "%04d-%02d-%02dT%02d:%02d:%02d" % (Y, M, D, h, m, s)
    return base + ("." + ("%06d" % us)[:n] if n else "") + "Z"


def _dg(v, w):
    """decimal digit character terms of a field value (own decomposition if it has one, else div/mod)"""
    if isinstance(v, int):
        return [ord(c) for c in str(v).rjust(w, "0")]
    digs = getattr(v, "digs", None)
    if digs is not None and len(digs) == w:
        return [lift_c(c) for c in digs]
    e = lift(v)
    return [48 + (e / 10 ** (w - 1 - i)) % 10 for i in range(w)]


def oracle_alts(f, precision, constraint):
    """[(condition, chars)]: the canonical text as character terms, one alternative per fraction length"""
    base = _dg(f["Y"], 4)
    for sep, k in (("-", "M"), ("-", "D"), ("T", "h"), (":", "m"), (":", "s")):
        base += [ord(sep)] + _dg(f[k], 2)
    six = _dg(f["us"], 6)

    def keep(n):
        return base + ([ord(".")] + six[:n] if n else []) + [ord("Z")]
    # tz[j]: at least j trailing zero digits
    tz = [z3.And([lift_c(c) == 48 for c in six[6 - j:]] + [z3.BoolVal(True)]) for j in range(0, 7)]
    if precision == Precision.SECOND and constraint == PrecisionConstraint.EXACT:
        return [(z3.BoolVal(True), keep(0))]
    if precision == Precision.MILLISECOND and constraint == PrecisionConstraint.EXACT:
        return [(z3.BoolVal(True), keep(3))]
    minimum = 3 if precision == Precision.MILLISECOND else 0
    alts = []
    for n in range(0, 7):
        sig = z3.And(tz[6 - n], z3.Not(tz[6 - n + 1])) if n > 0 else tz[6]
        alts.append((sig, keep(max(n, minimum))))
    return alts


def text_matches_oracle(out, f, precision, constraint):
    out = SStr.of(out)
    ok = []
    for cond, chars in oracle_alts(f, precision, constraint):
        if len(chars) == len(out.chars):
            ok.append(z3.And(cond, *[lift_c(a) == lift_c(b) for a, b in zip(out.chars, chars)]))
    return z3.Or(ok) if ok else z3.BoolVal(False)


def trunc_expr(us, precision, constraint):
    if precision == Precision.SECOND and constraint == PrecisionConstraint.EXACT:
        return z3.IntVal(0)
    if precision == Precision.MILLISECOND and constraint == PrecisionConstraint.EXACT:
        return us - us % 1000
    return us


def model_fields(m, f):
    return {k: m.eval(lift(v), model_completion=True).as_long() for k, v in f.items()}


# ---------------------------------------------------------------- native replays (no solver, real code)
def replay_format(Y, M, D, h, m, s, us, aware, pname, cname, local_offset_h=0):
    """real format_datetime on a real STIXdatetime vs the integer-arithmetic oracle; local_offset_h: run with the process's local zone at that
    whole-hour UTC offset (what the text says must not depend on it)"""
    import os
    import time as _time
    if local_offset_h:
        old_tz = os.environ.get("TZ")
        os.environ["TZ"] = "XXX%+d" % (-local_offset_h)      # POSIX TZ strings give the offset WEST of Greenwich
        _time.tzset()
        try:
            return replay_format(Y, M, D, h, m, s, us, aware, pname, cname)
        finally:
            if old_tz is None:
                del os.environ["TZ"]
            else:
                os.environ["TZ"] = old_tz
            _time.tzset()
    p, c = Precision[pname], PrecisionConstraint[cname]
    # "aware" covers every tzinfo with offset 0: the pytz singleton (astimezone returns the same object) and others
    tz = {0: None, False: None, 1: pytz.utc, True: pytz.utc, 2: dt.timezone.utc}[aware]
    d = STIXdatetime(Y, M, D, h, m, s, us, tz, precision=p, precision_constraint=c)
    return utils.format_datetime(d) == oracle_text_py(Y, M, D, h, m, s, us, p, c)


def replay_parse_format(text, pname, cname):
    """real parse_into_datetime(text) then format_datetime; accepted text must denote trunc(instant) and be a fixed point"""
    p, c = Precision[pname], PrecisionConstraint[cname]
    try:
        x = utils.parse_into_datetime(text, p, c)
    except ValueError:
        return True        # refusal is not a C15 violation (C03 has its own obligation)
    head, _, frac = text[:-1].partition(".")
    Y, M, D = int(head[0:4]), int(head[5:7]), int(head[8:10])
    h, m, s = int(head[11:13]), int(head[14:16]), int(head[17:19])
    us_in = int((frac + "000000")[:6]) if frac else 0
    us = 0 if (p == Precision.SECOND and c == PrecisionConstraint.EXACT) else \
        us_in - us_in % 1000 if (p == Precision.MILLISECOND and c == PrecisionConstraint.EXACT) else us_in
    want = oracle_text_py(Y, M, D, h, m, s, us, p, c)
    t1 = utils.format_datetime(x)
    if t1 != want:
        return False
    x2 = utils.parse_into_datetime(t1, p, c)
    return utils.format_datetime(x2) == t1 and x2 == x and x2.precision == x.precision and \
        x2.precision_constraint == x.precision_constraint


def replay_accepts(text, pname, cname):
    """C03: every specification-valid timestamp text must be accepted and denote the same instant (truncated to the precision)"""
    p, c = Precision[pname], PrecisionConstraint[cname]
    try:
        utils.parse_into_datetime(text, p, c)
    except ValueError:
        return False
    return True


# ---------------------------------------------------------------- translator / stub validation
def validate(seed, n=150):
    """run the interpreter + stubs on concrete inputs and compare with the real functions (Serval-style)"""
    rnd = random.Random(seed)
    I = Interp(STUBS)
    eng = Engine()
    Engine.cur = eng
    count = 0
    # strftime stub vs glibc
    for Y in (1, 9, 10, 99, 100, 999, 1000, 2024, 9999):
        real = dt.datetime(Y, 3, 4, 5, 6, 7).strftime('%Y-%m-%dT%H:%M:%S')
        mine = SymDT(dict(Y=Y, M=3, D=4, h=5, m=6, s=7, us=0), False).strftime('%Y-%m-%dT%H:%M:%S')
        if real != mine:
            raise AssertionError("strftime stub contract: %r vs %r" % (real, mine))
        count += 1
    cases = []
    for _ in range(n):
        Y = rnd.choice([1, 7, 45, 999, 1000, 1999, 2020, 9999, rnd.randint(1, 9999)])
        us = rnd.choice([0, 1, 10, 100, 1000, 999999, 999000, 123000, 120000, 100000, 500, rnd.randint(0, 999999)])
        cases.append((Y, rnd.randint(1, 12), rnd.randint(1, 28), rnd.randint(0, 23), rnd.randint(0, 59), rnd.randint(0, 59), us))
    for (Y, M, D, h, m, s, us) in cases:
        for p, c in SETTINGS:
            aware = rnd.choice((0, 1, 2))
            real_d = STIXdatetime(Y, M, D, h, m, s, us, {0: None, 1: pytz.utc, 2: dt.timezone.utc}[aware], precision=p, precision_constraint=c)
            real = utils.format_datetime(real_d)
            mine = I.call_function(utils.format_datetime, [SymDT(dict(Y=Y, M=M, D=D, h=h, m=m, s=s, us=us), aware > 0, p, c, pytz_utc=(aware == 1))], {})
            if real != mine:
                raise AssertionError("translator validation (format_datetime): %r vs %r" % (real, mine))
            count += 1
    # parse side: canonical texts with 0..8 fraction digits
    for (Y, M, D, h, m, s, us) in cases[: n // 2]:
        for nfrac in (None, 1, 3, 4, 6, 7):
            text = "%04d-%02d-%02dT%02d:%02d:%02d" % (Y, M, D, h, m, s)
            if nfrac:
                text += "." + ("%09d" % (us * 1000))[:nfrac]
            text += "Z"
            p, c = rnd.choice(SETTINGS)
            try:
                r = utils.parse_into_datetime(text, p, c)
                real = (r.year, r.month, r.day, r.hour, r.minute, r.second, r.microsecond, r.precision, r.precision_constraint)
            except ValueError:
                real = "ValueError"
            try:
                x = I.call_function(utils.parse_into_datetime, [text, p, c], {})
                mine = tuple(x.f[k] for k in FIELDS) + (x.precision, x.precision_constraint)
            except ValueError:
                mine = "ValueError"
            except Exception as e:  # SymRaise wraps raised exceptions
                mine = "ValueError" if isinstance(getattr(e, "exc", None), ValueError) else repr(e)
            if real != mine:
                raise AssertionError("translator validation (parse_into_datetime %r): %r vs %r" % (text, real, mine))
            count += 1
    return count


def _diverse(cands, n):
    """up to n witnesses to replay, one per distinct shape first (the call with its numbers blanked), so that one imprecise corner of a
    model cannot crowd out the witnesses that do reproduce"""
    import re as _re
    first, rest, seen = [], [], set()
    for c in cands:
        k = _re.sub(r"\d+", "#", c.get("call") or "")
        (rest if k in seen else first).append(c)
        seen.add(k)
    return (first + rest)[:n]


def _result(eng, I, bad, cands, samples, validated, asserting, t0, extra=None, inconclusive=None):
    r = {"paths": eng.paths, "queries": eng.queries, "decisions": eng.decisions, "solver_s": round(eng.solver_time, 3),
         "validated": validated, "samples": samples[:4], "reached": asserting > 0,
         "extra": dict({"functions_interpreted": I.sources, "asserting_paths": asserting, "wall_s": round(time.time() - t0, 1)},
                       **(extra or {}))}
    if inconclusive:
        r["verdict"] = "INCONCLUSIVE"
        r["detail"] = inconclusive
    elif cands:
        r["verdict"] = "CANDIDATE"
        r["candidates"] = _diverse(cands, 12)
        r["detail"] = "%d violating path(s)" % bad
    else:
        r["verdict"] = "HOLDS"
        r["detail"] = "all %d asserting paths discharged (unsat)" % asserting
    return r


# ---------------------------------------------------------------- obligations
def job_format(tier, seed):
    """C15.fmt: format_datetime(x) is the canonical text of x truncated to its precision -- every year 1..9999, every field value,
    every microsecond, naive and UTC-aware, 3 precisions x 2 constraints."""
    t0 = time.time()
    validated = validate(seed, 60 if tier == "quick" else 400)
    I = Interp(STUBS)
    eng = Engine()
    bad, cands, samples, asserting = 0, [], [], 0
    try:
        for aware in (0, 1, 2):          # naive, pytz.utc, another zero-offset tzinfo
            for p, c in SETTINGS:
                def body(eng):
                    f = fresh(eng)
                    return f, I.call_function(utils.format_datetime, [SymDT(f, aware > 0, p, c, pytz_utc=(aware == 1))], {})
                for pc, (kind, val) in eng.explore(body):
                    if kind != "return":
                        bad += 1
                        cands.append({"call": None, "desc": "format_datetime raised %r" % (val,)})
                        continue
                    f, out = val
                    asserting += 1
                    post = text_matches_oracle(out, f, p, c)
                    s = z3.Solver()
                    s.add(*pc)
                    s.add(z3.Not(post))
                    eng.queries += 1
                    ts = time.time()
                    r = xcheck.check(s)
                    eng.solver_time += time.time() - ts
                    if r == "unsat":
                        if len(samples) < 4:
                            samples.append({"setting": [aware, p.name, c.name], "path_condition": [str(x) for x in pc[-3:]],
                                            "query": "pc and not(text == oracle)", "result": "unsat"})
                        continue
                    if r != "sat":
                        return _result(eng, I, bad, cands, samples, validated, asserting, t0, inconclusive="solver returned %s" % r)
                    bad += 1
                    mf = model_fields(s.model(), f)
                    loc = s.model().eval(z3.Int("local_utc_offset_h"), model_completion=True).as_long()
                    cands.append({"call": "replay_format(%d, %d, %d, %d, %d, %d, %d, %r, %r, %r, local_offset_h=%d)" % (
                        mf["Y"], mf["M"], mf["D"], mf["h"], mf["m"], mf["s"], mf["us"], aware, p.name, c.name, loc),
                        "desc": "format_datetime text differs from canonical text"})
    except Unsupported as e:
        return _result(eng, I, bad, cands, samples, validated, asserting, t0, inconclusive="translator does not cover: %s" % e)
    # prefer distinct witnesses
    return _result(eng, I, bad, _dedupe(cands), samples, validated, asserting, t0)


def _dedupe(cands):
    seen, out = set(), []
    for c in cands:
        if c["call"] not in seen:
            seen.add(c["call"])
            out.append(c)
    return out


def _text(eng, f, nfrac, tag=""):
    chars = digits_of(f["Y"], 4)
    for sep, k in (("-", "M"), ("-", "D"), ("T", "h"), (":", "m"), (":", "s")):
        chars = chars + [ord(sep)] + digits_of(f[k], 2)
    frac = []
    if nfrac is not None:
        chars = chars + [ord(".")]
        for i in range(nfrac):
            d = z3.Int("q%d%s" % (i, tag))
            eng.assume(z3.And(d >= 0, d <= 9))
            frac.append(d)
            chars.append(48 + d)
    chars.append(ord("Z"))
    return SStr(chars), frac


def _concrete_text(m, chars):
    return "".join(chr(m.eval(lift_c(c), model_completion=True).as_long()) for c in chars)


def job_parse_format(tier, seed):
    """C15.parse / C01.b: for every canonical text (0..9 fraction digits) that parse_into_datetime accepts, the value is the
    instant truncated to the precision, format_datetime of it is the canonical text of that value, and
    parse(format(x)) has the same fields and metadata (fixed point)."""
    t0 = time.time()
    validated = validate(seed, 40 if tier == "quick" else 200)
    I = Interp(STUBS)
    eng = Engine()
    bad, cands, samples, asserting, refused = 0, [], [], 0, 0
    maxfrac = 8 if tier == "quick" else 9
    try:
        for nfrac in [None] + list(range(0, maxfrac + 1)):
            for p, c in SETTINGS:
                def body(eng):
                    f = fresh(eng)
                    f["us"] = 0
                    text, frac = _text(eng, f, nfrac)
                    try:
                        x = I.call_function(utils.parse_into_datetime, [text, p, c], {})
                    except SymRaise as e:
                        if isinstance(e.exc, ValueError):
                            return None          # input refused: not a C15 matter (C03.ts covers acceptance)
                        raise
                    t1 = I.call_function(utils.format_datetime, [x], {})
                    try:
                        x2 = I.call_function(utils.parse_into_datetime, [t1, p, c], {})
                        t2 = I.call_function(utils.format_datetime, [x2], {})
                    except SymRaise as e:
                        return f, text, frac, x, t1, None, repr(e.exc)
                    return f, text, frac, x, t1, x2, t2
                for pc, (kind, val) in eng.explore(body):
                    if kind == "raise":
                        bad += 1
                        cands.append({"call": None, "desc": "unexpected %r" % (val,)})
                        continue
                    if val is None:
                        refused += 1
                        continue
                    f, text, frac, x, t1, x2, t2 = val
                    if x2 is None:       # the library cannot read back its own output
                        asserting += 1
                        s = z3.Solver()
                        s.add(*pc)
                        eng.queries += 1
                        if str(s.check()) == "sat":
                            bad += 1
                            cands.append({"call": "replay_parse_format(%r, %r, %r)" % (_concrete_text(s.model(), text.chars), p.name, c.name),
                                          "desc": "re-parse of the library's own output failed: %s" % t2})
                        continue
                    asserting += 1
                    in6 = ([48 + d for d in frac[:6]] + [48] * 6)[:6]
                    if p == Precision.SECOND and c == PrecisionConstraint.EXACT:
                        in6 = [48] * 6
                    elif p == Precision.MILLISECOND and c == PrecisionConstraint.EXACT:
                        in6 = in6[:3] + [48] * 3
                    fx = dict(f)
                    fx["us"] = sint_from_digits(in6)
                    same_fields = z3.And([lift(x.f[k]) == lift(fx[k]) for k in FIELDS])
                    meta_ok = (x.precision == p and x.precision_constraint == c and x2.precision == p and
                               x2.precision_constraint == c and x.tzinfo is not None and x2.tzinfo is not None)
                    t1s, t2s = SStr.of(t1), SStr.of(t2)
                    fix = z3.BoolVal(False) if len(t1s) != len(t2s) else \
                        z3.And([lift_c(a) == lift_c(b) for a, b in zip(t1s.chars, t2s.chars)])
                    post = z3.And(z3.BoolVal(meta_ok), same_fields, text_matches_oracle(t1, fx, p, c), fix,
                                  z3.And([lift(x2.f[k]) == lift(x.f[k]) for k in FIELDS]))
                    s = z3.Solver()
                    s.add(*pc)
                    s.add(z3.Not(post))
                    eng.queries += 1
                    ts = time.time()
                    r = xcheck.check(s)
                    eng.solver_time += time.time() - ts
                    if r == "unsat":
                        if len(samples) < 4:
                            samples.append({"fraction_digits": nfrac, "setting": [p.name, c.name],
                                            "query": "pc and not(value == trunc(input) and text == oracle and fixed point)", "result": "unsat"})
                        continue
                    if r != "sat":
                        return _result(eng, I, bad, cands, samples, validated, asserting, t0, inconclusive="solver returned %s" % r)
                    bad += 1
                    cands.append({"call": "replay_parse_format(%r, %r, %r)" % (_concrete_text(s.model(), text.chars), p.name, c.name),
                                  "desc": "parse/format fixed point or truncation violated"})
    except Unsupported as e:
        return _result(eng, I, bad, cands, samples, validated, asserting, t0, inconclusive="translator does not cover: %s" % e)
    return _result(eng, I, bad, _dedupe(cands), samples, validated, asserting, t0, extra={"refusing_paths": refused,
                                                                                          "max_fraction_digits": maxfrac})


def job_accepts(tier, seed):
    """C03.ts: every canonical RFC 3339 UTC text with 0..9 fractional digits is accepted by parse_into_datetime.
    Known open finding C03-frac7 (7+ fractional digits refused) is excluded by its class predicate (fraction length >= 7)."""
    from engine.hlib import K
    t0 = time.time()
    validated = validate(seed, 20)
    I = Interp(STUBS)
    eng = Engine()
    bad, cands, samples, asserting = 0, [], [], 0
    excl = K.open("C03-frac7")
    try:
        for nfrac in [None] + list(range(1, 10)):
            if excl and nfrac is not None and nfrac >= 7:
                continue
            for p, c in SETTINGS:
                def body(eng):
                    f = fresh(eng)
                    f["us"] = 0
                    text, frac = _text(eng, f, nfrac)
                    try:
                        I.call_function(utils.parse_into_datetime, [text, p, c], {})
                    except Exception as e:
                        exc = getattr(e, "exc", e)
                        if isinstance(exc, ValueError):
                            return text, False
                        raise
                    return text, True
                for pc, (kind, val) in eng.explore(body):
                    asserting += 1
                    if kind == "return" and val[1]:
                        if len(samples) < 3:
                            samples.append({"fraction_digits": nfrac, "setting": [p.name, c.name], "result": "accepted on this path"})
                        continue
                    if kind != "return":
                        cands.append({"call": None, "desc": "unexpected %r" % (val,)})
                        bad += 1
                        continue
                    s = z3.Solver()
                    s.add(*pc)
                    eng.queries += 1
                    if str(s.check()) != "sat":
                        continue
                    bad += 1
                    cands.append({"call": "replay_accepts(%r, %r, %r)" % (_concrete_text(s.model(), val[0].chars), p.name, c.name),
                                  "desc": "valid timestamp text refused"})
    except Unsupported as e:
        return _result(eng, I, bad, cands, samples, validated, asserting, t0, inconclusive="translator does not cover: %s" % e)
    return _result(eng, I, bad, _dedupe(cands), samples, validated, asserting, t0, extra={"excluded_known_class": "fraction length >= 7" if excl else None})


def job_order(tier, seed):
    """C15.order: the instant denoted by the written text is monotone in the input instant (truncation never reorders),
    for every precision setting -- a z3 query over all pairs of microsecond values, using the same truncation term
    that job_parse_format ties to the implementation."""
    t0 = time.time()
    q = 0
    for p, c in SETTINGS:
        a, b = z3.Ints("a b")
        s = z3.Solver()
        s.add(a >= 0, b >= a, b <= 999999)
        s.add(z3.Not(trunc_expr(a, p, c) <= trunc_expr(b, p, c)))
        q += 1
        if str(s.check()) != "unsat":
            return {"verdict": "INCONCLUSIVE", "detail": "monotonicity lemma not unsat for %s/%s" % (p.name, c.name)}
        s = z3.Solver()          # truncation, never rounding up: 0 <= us - trunc(us) < unit
        s.add(a >= 0, a <= 999999, z3.Not(z3.And(trunc_expr(a, p, c) <= a, a - trunc_expr(a, p, c) < 1000000)))
        q += 1
        if str(s.check()) != "unsat":
            return {"verdict": "INCONCLUSIVE", "detail": "truncation lemma not unsat"}
    return {"verdict": "HOLDS", "paths": len(SETTINGS), "queries": q, "decisions": q, "solver_s": round(time.time() - t0, 3),
            "reached": True, "samples": [{"query": "a <= b and not(trunc(a) <= trunc(b))", "result": "unsat", "settings": len(SETTINGS)}]}


def replay_property_clean(Y, M, D, h, m, s, us, aware, in_meta, pname, cname):
    """real TimestampProperty(precision, constraint).clean on a datetime / STIXdatetime that may carry OTHER precision metadata"""
    from stix2.properties import TimestampProperty
    p, c = Precision[pname], PrecisionConstraint[cname]
    tz = {0: None, False: None, 1: pytz.utc, True: pytz.utc, 2: dt.timezone.utc}[aware]
    if in_meta is None:
        v = dt.datetime(Y, M, D, h, m, s, us, tz)
    else:
        v = STIXdatetime(Y, M, D, h, m, s, us, tz, precision=Precision[in_meta[0]], precision_constraint=PrecisionConstraint[in_meta[1]])
    out, _ = TimestampProperty(precision=pname.lower(), precision_constraint=cname.lower()).clean(v)
    exp_us = 0 if (p == Precision.SECOND and c == PrecisionConstraint.EXACT) else \
        us - us % 1000 if (p == Precision.MILLISECOND and c == PrecisionConstraint.EXACT) else us
    return out.precision == p and out.precision_constraint == c and out.microsecond == exp_us and \
        utils.format_datetime(out) == oracle_text_py(Y, M, D, h, m, s, exp_us, p, c)


def job_property_clean(tier, seed):
    """C15.prop: TimestampProperty.clean(value) for datetime values -- plain, or already carrying ANY other precision metadata (values that
    went through another timestamp property) -- yields the instant truncated to THIS property's precision, tagged with this property's
    settings, and its text is canonical for them."""
    from stix2.properties import TimestampProperty
    t0 = time.time()
    I = Interp(STUBS)
    eng = Engine()
    bad, cands, samples, asserting = 0, [], [], 0
    metas = [None] + SETTINGS
    try:
        for p, c in SETTINGS:
            prop = TimestampProperty(precision=p.name.lower(), precision_constraint=c.name.lower())
            for meta in metas:
                for aware in (0, 1, 2):
                    def body(eng):
                        f = fresh(eng)
                        v = SymDT(f, aware > 0, *(meta or (None, None)), pytz_utc=(aware == 1))
                        out = I.call_function(TimestampProperty.clean, [prop, v], {})
                        x = out[0]
                        return f, x, I.call_function(utils.format_datetime, [x], {})
                    for pc, (kind, val) in eng.explore(body):
                        asserting += 1
                        if kind != "return":
                            bad += 1
                            cands.append({"call": None, "desc": "clean raised %r" % (val,)})
                            continue
                        f, x, text = val
                        us6 = _dg(f["us"], 6)
                        if p == Precision.SECOND and c == PrecisionConstraint.EXACT:
                            us6 = [48] * 6
                        elif p == Precision.MILLISECOND and c == PrecisionConstraint.EXACT:
                            us6 = us6[:3] + [48] * 3
                        fx = dict(f)
                        fx["us"] = sint_from_digits(us6)
                        meta_ok = getattr(x, "precision", None) == p and getattr(x, "precision_constraint", None) == c
                        post = z3.And(z3.BoolVal(bool(meta_ok)), z3.And([lift(x.f[k]) == lift(fx[k]) for k in FIELDS]),
                                      text_matches_oracle(text, fx, p, c))
                        s = z3.Solver()
                        s.add(*pc)
                        s.add(z3.Not(post))
                        eng.queries += 1
                        ts = time.time()
                        r = xcheck.check(s)
                        eng.solver_time += time.time() - ts
                        if r == "unsat":
                            if len(samples) < 3:
                                samples.append({"property": [p.name, c.name], "input_metadata": [m.name for m in meta] if meta else None,
                                                "query": "pc and not(truncated to property precision, tagged, canonical text)", "result": "unsat"})
                            continue
                        if r != "sat":
                            return _result(eng, I, bad, cands, samples, 0, asserting, t0, inconclusive="solver returned %s" % r)
                        bad += 1
                        mf = model_fields(s.model(), f)
                        cands.append({"call": "replay_property_clean(%d, %d, %d, %d, %d, %d, %d, %r, %r, %r, %r)" % (
                            mf["Y"], mf["M"], mf["D"], mf["h"], mf["m"], mf["s"], mf["us"], aware,
                            [m.name for m in meta] if meta else None, p.name, c.name), "desc": "TimestampProperty.clean keeps foreign precision"})
    except Unsupported as e:
        return _result(eng, I, bad, cands, samples, 0, asserting, t0, inconclusive="translator does not cover: %s" % e)
    return _result(eng, I, bad, _dedupe(cands), samples, 0, asserting, t0)


# ---------------------------------------------------------------- C11.c: the version file name is injective on the stored instant
def is_re_sub(fn):
    import re as _re
    return fn is _re.sub


def re_sub_stub(pattern, repl, s, count=0, flags=0):
    """re.sub for the one shape the library uses here: a character class of literals replaced by ''"""
    import re._constants as C
    import re._parser as sre_parse
    if repl != "" or count or flags:
        raise Unsupported("re.sub with replacement/count/flags")
    p = list(sre_parse.parse(pattern))
    if len(p) != 1 or p[0][0] is not C.IN or any(op is not C.LITERAL for op, _ in p[0][1]):
        raise Unsupported("re.sub pattern %r" % pattern)
    lits = [av for _, av in p[0][1]]
    eng = Engine.cur
    out = []
    for c in SStr.of(s).chars:
        if isinstance(c, int):
            if c not in lits:
                out.append(c)
        elif not eng.decide(z3.Or([lift_c(c) == x for x in lits])):
            out.append(c)
    return mk(out)


def replay_filename(ta, tb, pname, cname):
    """real _timestamp2filename on two stored timestamps: equal names only for equal stored instants"""
    from stix2.datastore.filesystem import _timestamp2filename
    p, c = Precision[pname], PrecisionConstraint[cname]
    a, b = utils.parse_into_datetime(ta, p, c), utils.parse_into_datetime(tb, p, c)
    return (_timestamp2filename(a) != _timestamp2filename(b)) or a == b


def replay_filename_text(ta, tb):
    """real _timestamp2filename on two modified texts (dict-kept objects): equal names only for equal instants"""
    from stix2.datastore.filesystem import _timestamp2filename
    return (_timestamp2filename(ta) != _timestamp2filename(tb)) or utils.parse_into_datetime(ta) == utils.parse_into_datetime(tb)


def job_filename_injective(tier, seed):
    """C11.c: FileSystemSink names a version file after its modified time; two stored versions get the same name only if their stored
    instants are equal (otherwise one version would be refused as an overwrite or lost)."""
    from stix2.datastore import filesystem as FS
    t0 = time.time()
    stubs = {"__callables__": STUBS["__callables__"] + [(is_re_sub, re_sub_stub)]}
    I = Interp(stubs)
    eng = Engine()
    bad, cands, samples, asserting = 0, [], [], 0
    settings = [(Precision.MILLISECOND, PrecisionConstraint.MIN), (Precision.MILLISECOND, PrecisionConstraint.EXACT)] + \
        ([] if tier == "quick" else [(Precision.ANY, PrecisionConstraint.EXACT)])
    try:
        for p, c in settings:
            def body(eng):
                fa, fb = fresh(eng, "a"), fresh(eng, "b")
                if p == Precision.MILLISECOND and c == PrecisionConstraint.EXACT:
                    for f in (fa, fb):      # stored values are already truncated to whole milliseconds
                        eng.assume(z3.And([lift_c(d) == 48 for d in f["us"].digs[3:]]))
                na = I.call_function(FS._timestamp2filename, [SymDT(fa, True, p, c, pytz_utc=True)], {})
                nb = I.call_function(FS._timestamp2filename, [SymDT(fb, True, p, c, pytz_utc=True)], {})
                return fa, fb, SStr.of(na), SStr.of(nb)
            for pc, (kind, val) in eng.explore(body):
                if kind != "return":
                    return _result(eng, I, bad, cands, samples, 0, asserting, t0, inconclusive="raised %r" % (val,))
                fa, fb, na, nb = val
                if len(na) != len(nb):
                    continue                 # different lengths: different names
                asserting += 1
                same_name = z3.And([lift_c(x) == lift_c(y) for x, y in zip(na.chars, nb.chars)])
                same_inst = z3.And([lift(fa[k]) == lift(fb[k]) for k in FIELDS])
                s = z3.Solver()
                s.add(*pc)
                s.add(same_name, z3.Not(same_inst))
                eng.queries += 1
                r = xcheck.check(s)
                if r == "unsat":
                    if len(samples) < 3:
                        samples.append({"setting": [p.name, c.name], "name_length": len(na), "query": "name(a) == name(b) and a != b", "result": "unsat"})
                    continue
                if r != "sat":
                    return _result(eng, I, bad, cands, samples, 0, asserting, t0, inconclusive="solver %s" % r)
                bad += 1
                m = s.model()
                ma, mb = model_fields(m, fa), model_fields(m, fb)
                ta = "%04d-%02d-%02dT%02d:%02d:%02d.%06dZ" % tuple(ma[k] for k in FIELDS)
                tb = "%04d-%02d-%02dT%02d:%02d:%02d.%06dZ" % tuple(mb[k] for k in FIELDS)
                cands.append({"call": "replay_filename(%r, %r, %r, %r)" % (ta, tb, p.name, c.name), "desc": "two different stored instants share a file name"})
        # objects of unregistered types are kept as dictionaries: their modified time reaches _timestamp2filename as TEXT (any digit count)
        fracs = [(6, 6), (4, 6), (3, 6), (None, 6), (3, 3), (1, 3)] if tier == "quick" else \
            [(x, y) for x in (None, 1, 2, 3, 4, 5, 6) for y in (None, 1, 2, 3, 4, 5, 6) if (x or 0) <= (y or 0)]
        for nfa, nfb in fracs:
            def body_s(eng):
                fa, fb = fresh(eng, "a"), fresh(eng, "b")
                ta, qa = _text(eng, fa, nfa, "a")
                tb, qb = _text(eng, fb, nfb, "b")
                na = I.call_function(FS._timestamp2filename, [ta], {})
                nb = I.call_function(FS._timestamp2filename, [tb], {})
                return fa, fb, qa, qb, ta, tb, SStr.of(na), SStr.of(nb)
            for pc, (kind, val) in eng.explore(body_s):
                if kind != "return":
                    if isinstance(val, ValueError):
                        continue             # a text the parser refuses is never stored
                    return _result(eng, I, bad, cands, samples, 0, asserting, t0, inconclusive="raised %r" % (val,))
                fa, fb, qa, qb, ta, tb, na, nb = val
                if len(na) != len(nb):
                    continue
                asserting += 1
                same_name = z3.And([lift_c(x) == lift_c(y) for x, y in zip(na.chars, nb.chars)])
                pad = lambda q: list(q) + [z3.IntVal(0)] * (6 - len(q))   # noqa: E731
                same_inst = z3.And([lift(fa[k]) == lift(fb[k]) for k in FIELDS if k != "us"] + [x == y for x, y in zip(pad(qa), pad(qb))])
                s = z3.Solver()
                s.add(*pc)
                s.add(same_name, z3.Not(same_inst))
                eng.queries += 1
                r = xcheck.check(s)
                if r == "unsat":
                    if len(samples) < 4:
                        samples.append({"setting": "text with %s / %s fraction digits" % (nfa, nfb), "query": "name(a) == name(b) and a != b", "result": "unsat"})
                    continue
                if r != "sat":
                    return _result(eng, I, bad, cands, samples, 0, asserting, t0, inconclusive="solver %s" % r)
                bad += 1
                m = s.model()
                cands.append({"call": "replay_filename_text(%r, %r)" % (_concrete_text(m, ta.chars), _concrete_text(m, tb.chars)),
                              "desc": "two different modified texts share a file name"})
    except Unsupported as e:
        return _result(eng, I, bad, cands, samples, 0, asserting, t0, inconclusive="translator does not cover: %s" % e)
    return _result(eng, I, bad, _dedupe(cands), samples, 0, asserting, t0)


# ---------------------------------------------------------------- C11: the memory store tracks the latest version by instant
def _instant_expr(f, frac):
    """the instant of a canonical text as one integer: fields plus the fraction digits right-padded to microseconds"""
    v = lift(f["Y"])
    for k, base in (("M", 13), ("D", 32), ("h", 24), ("m", 60), ("s", 61)):
        v = v * base + lift(f[k])
    us = z3.IntVal(0)
    digs = list(frac) + [z3.IntVal(0)] * (6 - len(frac))
    for d in digs[:6]:
        us = us * 10 + d
    return v * 1000000 + us


def replay_family_latest(ta, tb):
    """real _ObjectFamily.add on two dict-kept versions: the later instant is the latest version, in both insertion orders"""
    from stix2.datastore.memory import _ObjectFamily
    ia, ib = utils.parse_into_datetime(ta), utils.parse_into_datetime(tb)
    for first, second in ((ta, tb), (tb, ta)):
        fam = _ObjectFamily()
        fam.add({"id": "x--1", "modified": first})
        fam.add({"id": "x--1", "modified": second})
        if utils.parse_into_datetime(fam.latest_version["modified"]) != max(ia, ib):
            return False
    return True


def job_family_latest(tier, seed):
    """C11.d: _ObjectFamily.add (the memory store's per-id version family) on two versions whose modified values are TEXT, as for objects of
    unregistered types: whichever order they arrive in, latest_version is the one with the greater instant -- for every pair of canonical
    timestamp texts with 0..6 fraction digits (symbolic fields and digits)."""
    from stix2.datastore import memory as MEM
    t0 = time.time()
    I = Interp(STUBS)
    eng = Engine()
    bad, cands, samples, asserting = 0, [], [], 0
    fracs = [(6, 6), (4, 6), (3, 4), (None, 6), (None, 3), (3, 3), (1, 3), (None, None)] if tier == "quick" else \
        [(x, y) for x in (None, 1, 2, 3, 4, 5, 6) for y in (None, 1, 2, 3, 4, 5, 6)]
    try:
        for nfa, nfb in fracs:
            def body(eng):
                fa, fb = fresh(eng, "a"), fresh(eng, "b")
                ta, qa = _text(eng, fa, nfa, "a")
                tb, qb = _text(eng, fb, nfb, "b")
                fam = MEM._ObjectFamily()
                oa, ob = {"id": "x--1", "modified": ta}, {"id": "x--1", "modified": tb}
                I.call_function(MEM._ObjectFamily.add, [fam, oa], {})
                I.call_function(MEM._ObjectFamily.add, [fam, ob], {})
                return fa, fb, qa, qb, ta, tb, (fam.latest_version is oa), (fam.latest_version is ob)
            for pc, (kind, val) in eng.explore(body):
                if kind != "return":
                    if isinstance(val, ValueError):
                        continue             # a text the parser refuses cannot be stored
                    return _result(eng, I, bad, cands, samples, 0, asserting, t0, inconclusive="raised %r" % (val,))
                fa, fb, qa, qb, ta, tb, is_a, is_b = val
                asserting += 1
                ia, ib = _instant_expr(fa, qa), _instant_expr(fb, qb)
                post = (ia >= ib) if is_a else (ib >= ia) if is_b else z3.BoolVal(False)
                s = z3.Solver()
                s.add(*pc)
                s.add(z3.Not(post))
                eng.queries += 1
                r = xcheck.check(s)
                if r == "unsat":
                    if len(samples) < 4:
                        samples.append({"fraction_digits": [nfa, nfb], "latest_is": "first" if is_a else "second",
                                        "query": "pc and instant(latest) < instant(other)", "result": "unsat"})
                    continue
                if r != "sat":
                    return _result(eng, I, bad, cands, samples, 0, asserting, t0, inconclusive="solver %s" % r)
                bad += 1
                m = s.model()
                cands.append({"call": "replay_family_latest(%r, %r)" % (_concrete_text(m, ta.chars), _concrete_text(m, tb.chars)),
                              "desc": "latest_version is not the version with the greater instant"})
    except Unsupported as e:
        return _result(eng, I, bad, cands, samples, 0, asserting, t0, inconclusive="translator does not cover: %s" % e)
    return _result(eng, I, bad, _dedupe(cands), samples, 0, asserting, t0)


def replay_composite_latest(texts):
    """real CompositeDataSource.get over one single-version source per text (dict-kept objects): the greatest instant wins"""
    from stix2.datastore import CompositeDataSource
    from stix2.datastore.memory import MemorySource
    comp = CompositeDataSource()
    comp.add_data_sources([MemorySource([{"type": "x-t", "id": "x-t--311b2d2d-f010-4473-83ec-1edf84858f4c", "modified": t}], allow_custom=True) for t in texts])
    got = comp.get("x-t--311b2d2d-f010-4473-83ec-1edf84858f4c")
    return utils.parse_into_datetime(got["modified"]) == max(utils.parse_into_datetime(t) for t in texts)


class _OneObjectSource:
    """a data source member that answers get() with one stored dictionary (native stub: the member is not the subject here)"""
    def __init__(self, obj):
        self.obj = obj

    def get(self, stix_id=None, _composite_filters=None):
        return self.obj


def job_composite_latest(tier, seed):
    """C11.e / C18: CompositeDataSource.get picks, among the members' answers, the one with the greatest modified INSTANT -- three members
    answering with dict-kept versions whose modified texts have symbolic fields/digits and different digit counts."""
    from stix2.datastore import CompositeDataSource
    t0 = time.time()
    I = Interp(STUBS)
    eng = Engine()
    bad, cands, samples, asserting = 0, [], [], 0
    fracs = [(6, 3, 4), (None, 6, 3), (3, 3, 3), (1, None, 6)] if tier == "quick" else \
        [(x, y, z) for x in (None, 1, 3, 4, 6) for y in (None, 1, 3, 4, 6) for z in (None, 3, 6)]
    try:
        for nfs in fracs:
            def body(eng):
                fs_, qs, ts, objs = [], [], [], []
                for n, nf in enumerate(nfs):
                    f = fresh(eng, "abc"[n])
                    t, q = _text(eng, f, nf, "abc"[n])
                    fs_.append(f); qs.append(q); ts.append(t)
                    objs.append({"id": "x--1", "modified": t})
                comp = CompositeDataSource()
                comp.data_sources = [_OneObjectSource(o) for o in objs]
                got = I.call_function(CompositeDataSource.get, [comp, "x--1"], {})
                return fs_, qs, ts, [got is o for o in objs]
            for pc, (kind, val) in eng.explore(body):
                if kind != "return":
                    if isinstance(val, ValueError):
                        continue
                    return _result(eng, I, bad, cands, samples, 0, asserting, t0, inconclusive="raised %r" % (val,))
                fs_, qs, ts, which = val
                asserting += 1
                inst = [_instant_expr(f, q) for f, q in zip(fs_, qs)]
                k = which.index(True) if True in which else None
                post = z3.BoolVal(False) if k is None else z3.And([inst[k] >= x for x in inst])
                s = z3.Solver()
                s.add(*pc)
                s.add(z3.Not(post))
                eng.queries += 1
                r = xcheck.check(s)
                if r == "unsat":
                    if len(samples) < 3:
                        samples.append({"fraction_digits": list(nfs), "chosen_member": k, "query": "pc and some other member is later", "result": "unsat"})
                    continue
                if r != "sat":
                    return _result(eng, I, bad, cands, samples, 0, asserting, t0, inconclusive="solver %s" % r)
                bad += 1
                m = s.model()
                cands.append({"call": "replay_composite_latest(%r)" % ([_concrete_text(m, t.chars) for t in ts],),
                              "desc": "composite get() does not return the greatest instant"})
    except Unsupported as e:
        return _result(eng, I, bad, cands, samples, 0, asserting, t0, inconclusive="translator does not cover: %s" % e)
    return _result(eng, I, bad, _dedupe(cands), samples, 0, asserting, t0)


# ---------------------------------------------------------------- C12: timestamp filters on dict-kept objects compare instants
FOPS = ["=", "!=", ">", "<", ">=", "<="]


def replay_filter_texts(prop_text, op, filter_text):
    """real Filter on a dict-kept object: the outcome is the comparison of the two instants"""
    from stix2.datastore.filters import Filter, apply_common_filters
    a, b = utils.parse_into_datetime(prop_text), utils.parse_into_datetime(filter_text)
    want = {"=": a == b, "!=": a != b, ">": a > b, "<": a < b, ">=": a >= b, "<=": a <= b}[op]
    got = len(list(apply_common_filters([{"type": "x-t", "id": "x-t--1", "modified": prop_text}], [Filter("modified", op, filter_text)]))) == 1
    return got == want


def job_filter_timestamp_texts(tier, seed):
    """C12.ts: Filter._check_property on a property value that is timestamp TEXT (objects of unregistered types are kept as dictionaries)
    against a filter value that is timestamp text: for each of the six order operators the outcome equals the comparison of the two
    instants -- every pair of canonical texts with 0..6 fraction digits (symbolic fields and digits)."""
    from stix2.datastore import filters as FL
    t0 = time.time()
    ts_re = getattr(FL, "_TIMESTAMP_RE", None)          # (the recogniser of timestamp text; absent in trees that do not have one)
    is_ts_match = lambda fn: ts_re is not None and getattr(fn, "__self__", None) is ts_re and getattr(fn, "__name__", "") in ("match", "fullmatch")   # noqa: E731
    stubs = {"__callables__": STUBS["__callables__"] + [(is_ts_match, lambda s: True)]}
    I = Interp(stubs)
    eng = Engine()
    bad, cands, samples, asserting = 0, [], [], 0
    fracs = [(6, 6), (3, 6), (None, 3), (1, 3)] if tier == "quick" else [(x, y) for x in (None, 1, 3, 4, 6) for y in (None, 1, 3, 4, 6)]
    try:
        for op in FOPS:
            flt_cls = FL.Filter
            for nfa, nfb in fracs:
                def body(eng):
                    fa, fb = fresh(eng, "a"), fresh(eng, "b")
                    ta, qa = _text(eng, fa, nfa, "a")
                    tb, qb = _text(eng, fb, nfb, "b")
                    flt = flt_cls("modified", op, "2020-01-01T00:00:00Z")
                    flt = flt._replace(value=tb)
                    out = I.call_function(FL.Filter._check_property, [flt, ta], {})
                    return fa, fb, qa, qb, ta, tb, bool(out)
                for pc, (kind, val) in eng.explore(body):
                    if kind != "return":
                        if isinstance(val, ValueError):
                            continue
                        return _result(eng, I, bad, cands, samples, 0, asserting, t0, inconclusive="raised %r" % (val,))
                    fa, fb, qa, qb, ta, tb, got = val
                    asserting += 1
                    ia, ib = _instant_expr(fa, qa), _instant_expr(fb, qb)
                    want = {"=": ia == ib, "!=": ia != ib, ">": ia > ib, "<": ia < ib, ">=": ia >= ib, "<=": ia <= ib}[op]
                    s = z3.Solver()
                    s.add(*pc)
                    s.add(want != z3.BoolVal(got))
                    eng.queries += 1
                    r = xcheck.check(s)
                    if r == "unsat":
                        if len(samples) < 3:
                            samples.append({"operator": op, "fraction_digits": [nfa, nfb], "outcome": got, "query": "pc and outcome != (instant op instant)", "result": "unsat"})
                        continue
                    if r != "sat":
                        return _result(eng, I, bad, cands, samples, 0, asserting, t0, inconclusive="solver %s" % r)
                    bad += 1
                    m = s.model()
                    cands.append({"call": "replay_filter_texts(%r, %r, %r)" % (_concrete_text(m, ta.chars), op, _concrete_text(m, tb.chars)),
                                  "desc": "filter outcome differs from the comparison of the instants"})
    except Unsupported as e:
        return _result(eng, I, bad, cands, samples, 0, asserting, t0, inconclusive="translator does not cover: %s" % e)
    return _result(eng, I, bad, _dedupe(cands), samples, 0, asserting, t0)
