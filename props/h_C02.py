"""C02 / C03 harnesses: what strict mode emits is valid STIX; what is valid is accepted and preserved."""
import copy
import json
from collections import OrderedDict

import stix2
from stix2 import properties as P
from stix2.exceptions import (
    CustomContentError, ExtraPropertiesError, InvalidValueError, MissingPropertiesError, STIXError,
)
from stix2.serialization import STIXJSONEncoder, STIXJSONIncludeOptionalDefaultsEncoder
from stix2.v21.base import _STIXBase21

from engine.hlib import K, Native, Part, TIER, V, pick, pickb
from props import gen, specmodel

PARTNO = Part.index


# ---------------------------------------------------------------- a. clean() of the property classes, parameters symbolic
def int_prop(has_min: bool, mn: int, has_max: bool, mx: int, v: int) -> bool:
    """
    post: _
    """
    prop = P.IntegerProperty(min=mn if has_min else None, max=mx if has_max else None)
    inrange = (not has_min or v >= mn) and (not has_max or v <= mx)
    try:
        out, hc = prop.clean(v)
    except ValueError:
        V.reached()
        return not inrange
    V.reached()
    return inrange and out == v and hc is False


def float_prop(has_min: bool, mn: int, has_max: bool, mx: int, v: int, half: bool) -> bool:
    """
    pre: -3 <= mn <= 3 and -3 <= mx <= 3 and -4 <= v <= 4
    post: _
    """
    mn, mx, v = pick(mn + 3, 7) - 3, pick(mx + 3, 7) - 3, pick(v + 4, 9) - 4
    has_min, has_max, half = pickb(has_min), pickb(has_max), pickb(half)
    x = v + 0.5 if half else float(v)
    prop = P.FloatProperty(min=mn if has_min else None, max=mx if has_max else None)
    inrange = (not has_min or x >= mn) and (not has_max or x <= mx)
    try:
        out, hc = prop.clean(x)
    except ValueError:
        V.reached()
        return not inrange
    V.reached()
    return inrange and out == x and hc is False


FLOAT_VALS = [float("inf"), float("-inf"), float("nan"), "inf", "nan", "Infinity", "-Infinity", "1e999", 1.7976931348623157e308, 5e-324, -0.0, 0, "1.5", " 2 ", "1_0", 10 ** 400, True,
              None, [], "x", 12345678901234567890]
NFV = len(FLOAT_VALS)
FLOAT_SITES = [(lambda v: stix2.v20.WindowsPESection(name="a", entropy=v), "entropy"), (lambda v: stix2.v21.WindowsPESection(name="a", entropy=v), "entropy"),
               (lambda v: stix2.v21.Location(latitude=v, longitude=1.0), "latitude"), (lambda v: stix2.v21.Location(latitude=1, longitude=2, precision=v), "precision")]


def float_values(vi: int, bounded: int) -> bool:
    """
    pre: 0 <= vi < NFV and 0 <= bounded <= 5
    post: _
    """
    import math
    vi, bounded = pick(vi, NFV), pick(bounded, 6)
    v = FLOAT_VALS[vi]
    with Native():
        if bounded < 2:
            prop = P.FloatProperty(min=-1e300 if bounded else None, max=1e300 if bounded else None)
            try:
                out, hc = prop.clean(v)
                ok = isinstance(out, float) and math.isfinite(out) and hc is False and json.loads(json.dumps(out)) == out
            except ValueError:
                ok = True
            # every JSON number that is a finite double is accepted
            if not bounded and isinstance(v, (int, float)) and not isinstance(v, bool) and abs(v) <= 1.7976931348623157e308:
                ok = ok and prop.clean(v)[0] == float(v)
        else:
            build, name = FLOAT_SITES[bounded - 2]
            try:
                o = build(v)
            except (STIXError, ValueError, TypeError):
                o = None
            ok = True
            if o is not None and name in o:
                text = o.serialize()                      # whatever was accepted can be written, is a JSON number, and reads back equal
                back = stix2.parse(text, version="2.1") if bounded > 3 else None
                got = json.loads(text)[name]
                ok = isinstance(got, (int, float)) and math.isfinite(got) and (back is None or back == o)
    V.reached()
    return ok


BOOL_LITS = ["true", "True", "TRUE", "t", "T", "1", "false", "False", "f", "F", "0", "yes", "", "2", "tr", "nope"]


def bool_prop(kind: int, b: bool, i: int, li: int) -> bool:
    """
    pre: 0 <= kind <= 2 and 0 <= li < 16
    post: _
    """
    kind = pick(kind, 3)
    v = b if kind == 0 else i if kind == 1 else BOOL_LITS[pick(li, 16)]
    try:
        out, _ = P.BooleanProperty().clean(v)
    except ValueError:
        V.reached()
        if kind == 0:
            return False
        if kind == 1:
            return i not in (0, 1)
        return v.lower() not in ("true", "t", "1", "false", "f", "0")
    V.reached()
    if kind == 0:
        return out is b                       # C03: False stays False
    if kind == 1:
        return i in (0, 1) and out is (i == 1)
    return v.lower() in ("true", "t", "1", "false", "f", "0") and out is (v.lower() in ("true", "t", "1"))


def string_prop(s: str) -> bool:
    """
    pre: len(s) <= 4
    post: _
    """
    out, hc = P.StringProperty().clean(s)
    V.reached()
    return out == s and hc is False           # C03: every string, including '', is kept unchanged


def enum_prop(s: str, openv: bool) -> bool:
    """
    pre: len(s) <= 3
    post: _
    """
    allowed = ["ab", "cd", "a"]
    prop = P.OpenVocabProperty(allowed) if openv else P.EnumProperty(allowed)
    try:
        out, hc = prop.clean(s, False)
    except ValueError:
        V.reached()
        return (not openv) and s not in allowed
    V.reached()
    return (openv or s in allowed) and out == s and hc is False


def list_prop(n: int, a: int, b: int, mx: int) -> bool:
    """
    pre: 0 <= n <= 2
    post: _
    """
    prop = P.ListProperty(P.IntegerProperty(max=mx))
    vals = [a, b][:n]
    ok = n >= 1 and a <= mx and (n < 2 or b <= mx)
    try:
        out, hc = prop.clean(vals, False)
    except ValueError:
        V.reached()
        return not ok
    V.reached()
    return ok and out == vals and hc is False


KEYS = ["", "a", "ab", "abc", "a" * 250, "a" * 251, "a" * 256, "a" * 257, "a b", "A_b-9", "abc\n", "é"]


def dict_prop(ki: int, v21: bool, empty: bool, kind: int) -> bool:
    """
    pre: 0 <= ki < 12 and 0 <= kind <= 2
    post: _
    """
    ki, kind = pick(ki, 12), pick(kind, 3)
    ver = "2.1" if v21 else "2.0"
    k = KEYS[ki]
    prop = [P.DictionaryProperty(spec_version=ver), P.HashesProperty(["MD5"], spec_version=ver), P.ExtensionsProperty(spec_version=ver)][kind]
    value = {} if empty else ({k: "0" * 32} if kind == 1 else {k: {"a": 1}} if kind == 2 else {k: 1})
    chars_ok = len(k) >= 1 and all(c.isascii() and (c.isalnum() or c in "_-") for c in k)
    len_ok = (3 <= len(k) <= 256) if ver == "2.0" else len(k) <= 250
    try:
        out, hc = prop.clean(value, True)
    except (ValueError, STIXError):
        V.reached()
        return True                          # refusal is always safe for C02
    V.reached()
    if empty:
        if kind == 2 and K.open("C02-extensions-empty"):
            return True                       # known open finding: extensions={} is accepted and emitted (an existing test demands it)
        return False                          # an empty dictionary must never be accepted (and emitted)
    if kind == 2:
        return True                           # extension keys are type names / extension-definition ids, checked elsewhere
    return chars_ok and len_ok


B64 = ["", "YWJj", "YWI=", "YQ==", "YWJ", "!!!!", "YW Jj", "YWJj\n", "=YWJ", "YQ=", "YWJjZA", "/+8="]


def binary_prop(i: int) -> bool:
    """
    pre: 0 <= i < 12
    post: _
    """
    i = pick(i, 12)
    with Native():
        import re
        want = bool(re.fullmatch(r"(?:[A-Za-z0-9+/]{4})*(?:[A-Za-z0-9+/]{2}==|[A-Za-z0-9+/]{3}=)?", B64[i]))
        try:
            out, _ = P.BinaryProperty().clean(B64[i])
            ok = want and out == B64[i]
        except ValueError:
            ok = not want
    V.reached()
    return ok


TYPES = ["identity", "malware", "ipv4-addr", "relationship", "marking-definition", "x-custom", "unregistered-type", "bundle", "sighting",
         "language-content", "extension-definition", "file", "archive-ext", "tlp", "statement"]      # the last three are registered names, but not of object types
NOT_OBJECT_TYPES = ("x-custom", "unregistered-type", "archive-ext", "tlp", "statement")
NTYPES = len(TYPES)
REFCFG = [dict(valid_types="identity"), dict(valid_types=["SCO", "SDO", "SRO"]), dict(invalid_types=["bundle", "marking-definition"]),
          dict(valid_types=["SCO"]), dict(valid_types=["SDO", "relationship"]), dict(invalid_types=["SCO"]), dict(valid_types=["identity", "x-custom"])]
NCFG = len(REFCFG)


# malformed reference texts: whatever the type policy, only <type>--<uuid> may be accepted (and emitted)
REF_MID = ["", "foo--", "identity--", "not a uuid--", "--", "-", "x", "--x--", " "]
REF_TAIL = ["", "\n", " ", "--", "}"]
NMID, NTAIL = len(REF_MID), len(REF_TAIL)


def ref_text(t: int, cfg: int, mid: int, allow: bool) -> bool:
    """
    pre: 0 <= t < 4 and 0 <= cfg < NCFG and 0 <= mid < NMID
    post: _
    """
    t, cfg, mid, allow = pick(t, 4), pick(cfg, NCFG), pick(mid, NMID), pickb(allow)
    with Native():
        ok = all(run_ref_text_case((0, 2, 5, 11)[t], cfg, mid, tail, v21, allow) for tail in range(NTAIL) for v21 in (False, True))
    V.reached()
    return ok


def run_ref_text_case(t, cfg, mid, tail, v21, allow):
    if mid == 0 and tail == 0:
        return True                                   # the well-formed text: ref_prop's business
    text = TYPES[t] + "--" + REF_MID[mid] + gen.UU + REF_TAIL[tail]
    prop = P.ReferenceProperty(spec_version="2.1" if v21 else "2.0", **REFCFG[cfg])
    try:
        prop.clean(text, allow)
    except (ValueError, STIXError):
        return True
    return False


def ref_prop(t: int, cfg: int, allow: bool, v20: bool = False) -> bool:
    """
    pre: 0 <= t < NTYPES and 0 <= cfg < NCFG
    post: _
    """
    t, cfg, allow, v20 = pick(t, NTYPES), pick(cfg, NCFG), pickb(allow), pickb(v20)
    with Native():
        ok = run_ref_case(t, cfg, allow, v20)
    V.reached()
    return ok


def run_ref_case(t, cfg, allow, v20=False):
    ty = TYPES[t]
    prop = P.ReferenceProperty(spec_version="2.0" if v20 else "2.1", **REFCFG[cfg])
    # extension-definition is a meta object in the specification; the library files it under SDO (not judged here, see DESIGN.md)
    cls = {"identity": "SDO", "malware": "SDO", "extension-definition": "SDO", "ipv4-addr": "SCO", "file": "SCO", "relationship": "SRO",
           "sighting": "SRO"}.get(ty)
    registered = ty not in NOT_OBJECT_TYPES and not (v20 and ty in ("language-content", "extension-definition"))   # 2.1-only types
    if not registered:
        cls = None
    is_custom = not registered or ty.startswith("x-")
    c = REFCFG[cfg]
    names = c.get("valid_types", c.get("invalid_types"))
    names = [names] if isinstance(names, str) else names
    member = ty in names or (cls is not None and cls in names)
    white = "valid_types" in c
    generics = [n for n in names if n in ("SCO", "SDO", "SRO")]
    strict_ok = member if white else not member
    if allow and white and generics and not registered:
        # customization allowed: an unregistered type may belong to the named category -- accepted, and reported as custom
        type_ok = True
    else:
        type_ok = strict_ok
    try:
        out, hc = prop.clean(ty + "--" + gen.UU, allow)
    except CustomContentError:
        return type_ok and is_custom and not allow
    except ValueError:
        return not type_ok
    return type_ok and (allow or not is_custom) and hc == is_custom and out == ty + "--" + gen.UU


# ---------------------------------------------------------------- b. the constructor engine on a synthetic class
class Emb(_STIXBase21):
    _type = "emb"
    _properties = OrderedDict([("a", P.StringProperty(required=True)), ("n", P.IntegerProperty())])


class Syn(_STIXBase21):
    _type = "syn"
    _properties = OrderedDict([
        ("req", P.StringProperty(required=True)),
        ("num", P.IntegerProperty(min=0, max=100)),
        ("flag", P.BooleanProperty(default=lambda: False)),
        ("fix", P.StringProperty(fixed="F")),
        ("tags", P.ListProperty(P.StringProperty)),
        ("emb", P.EmbeddedObjectProperty(Emb)),
    ])


XVALS = [None, 1, "", 0, None, []]          # x_kind: 0 absent; 1..3 kept (false-y ones included); 4, 5 (None, []) dropped by the constructor


def engine(has_req: bool, req: str, num_kind: int, num: int, flag_kind: int, flag: bool, tags_kind: int, tag: str, x_kind: int, emb_kind: int,
           fix_kind: int, allow: bool) -> bool:
    """
    pre: len(req) <= 2 and len(tag) <= 2 and 0 <= num_kind <= 2 and 0 <= flag_kind <= 2 and 0 <= tags_kind <= 3 and 0 <= emb_kind <= 3 and 0 <= fix_kind <= 2
    pre: emb_kind * 4 + tags_kind == PARTNO and 0 <= x_kind <= 5
    post: _
    """
    x_kind = pick(x_kind, 6)
    has_x = x_kind != 0                       # a custom property was supplied (strict mode may refuse it even if it would be dropped)
    x_kept = x_kind in (1, 2, 3)        # ... and is stored, i.e. the object carries custom content
    kw = {}
    if has_req:
        kw["req"] = req
    if num_kind == 1:
        kw["num"] = num
    elif num_kind == 2:
        kw["num"] = None
    if flag_kind == 1:
        kw["flag"] = flag
    elif flag_kind == 2:
        kw["flag"] = None
    if tags_kind == 1:
        kw["tags"] = [tag]
    elif tags_kind == 2:
        kw["tags"] = []
    elif tags_kind == 3:
        kw["tags"] = None
    if has_x:
        kw["x_extra"] = XVALS[x_kind]
    if emb_kind == 1:
        kw["emb"] = {"a": "v"}
    elif emb_kind == 2:
        kw["emb"] = {"a": "v", "x_in": 2}
    elif emb_kind == 3:
        kw["emb"] = {"n": 1}
    if fix_kind == 1:
        kw["fix"] = "F"
    elif fix_kind == 2:
        kw["fix"] = "G"
    num_bad = num_kind == 1 and not (0 <= num <= 100)
    custom = x_kept or emb_kind == 2
    invalid = num_bad or emb_kind == 3 or fix_kind == 2 or (emb_kind == 2 and not allow)
    try:
        o = Syn(allow_custom=allow, **kw)
    except MissingPropertiesError:
        V.reached()
        return not has_req
    except ExtraPropertiesError:
        V.reached()
        return has_x and not allow
    except (InvalidValueError, CustomContentError):
        V.reached()
        return invalid
    V.reached()
    if not has_req or (has_x and not allow) or invalid:
        return False
    if o.has_custom != custom:
        return False
    d = STIXJSONEncoder().default(o)
    exp = {"req": req, "fix": "F"}
    if num_kind == 1:
        exp["num"] = num                      # 0 is kept
    if flag_kind == 1 and flag:
        exp["flag"] = True                    # a defaulted optional (False) is dropped from the compact form
    if tags_kind == 1:
        exp["tags"] = [tag]                   # '' is kept; [] and None never stored
    if x_kept:
        exp["x_extra"] = XVALS[x_kind]
    if emb_kind in (1, 2):
        exp["emb"] = o["emb"]
    if d != exp or list(d.keys()) != [k for k in ("req", "num", "flag", "fix", "tags", "emb", "x_extra") if k in exp]:
        return False
    full = STIXJSONIncludeOptionalDefaultsEncoder().default(o)
    exp_full = dict(exp, flag=(flag if flag_kind == 1 else False))
    if full != exp_full:
        return False
    return all(v is not None and v != [] for v in full.values())


# ---------------------------------------------------------------- c. co-constraints, direct state construction
def mk(cls, inner):
    o = cls.__new__(cls)
    o.__dict__["_inner"] = inner
    return o


def _accepts(o):
    try:
        o._check_object_constraints()
        return True
    except (STIXError, ValueError):
        return False


def cc_artifact(has_pb: bool, has_url: bool, has_hashes: bool, v21: bool) -> bool:
    """
    post: _
    """
    mod = stix2.v21 if v21 else stix2.v20
    inner = {"type": "artifact"}
    if has_pb:
        inner["payload_bin"] = "YWJj"
    if has_url:
        inner["url"] = "http://x"
    if has_hashes:
        inner["hashes"] = {"MD5": "0" * 32}
    got = _accepts(mk(mod.Artifact, inner))
    V.reached()
    # payload_bin xor url; url requires hashes
    return got == ((has_pb != has_url) and ((not has_url) or has_hashes))


def cc_file(has_hashes: bool, has_name: bool, v21: bool) -> bool:
    """
    post: _
    """
    mod = stix2.v21 if v21 else stix2.v20
    inner = {"type": "file"}
    if has_hashes:
        inner["hashes"] = {"MD5": "0" * 32}
    if has_name:
        inner["name"] = "f"
    got = _accepts(mk(mod.File, inner))
    V.reached()
    return got == (has_hashes or has_name)


def cc_network_traffic(has_src: bool, has_dst: bool, has_start: bool, start: int, has_end: bool, end: int, has_act: bool, act: bool) -> bool:
    """
    pre: start > 0 and end > 0
    post: _
    """
    inner = {"type": "network-traffic", "id": "network-traffic--x", "protocols": ["tcp"]}
    if has_src:
        inner["src_ref"] = "ipv4-addr--x"
    if has_dst:
        inner["dst_ref"] = "ipv4-addr--x"
    if has_start:
        inner["start"] = start
    if has_end:
        inner["end"] = end
    if has_act:
        inner["is_active"] = act
    got = _accepts(mk(stix2.v21.NetworkTraffic, inner))
    V.reached()
    # 2.1 section 6.12: at least one of src_ref/dst_ref; if is_active is true then end MUST NOT be included; end MUST be >= start
    spec = (has_src or has_dst) and not (has_end and has_act and act) and not (has_start and has_end and end < start)
    if got and not spec:
        return False                          # C02: what is accepted satisfies the constraints
    if spec and not got and not (has_end and (not has_act)):
        return False                          # C03: valid content accepted (the library additionally wants is_active when end is present)
    return True


def cc_location(has_lat: bool, lat: int, has_lon: bool, has_prec: bool, prec: int, has_region: bool, has_country: bool) -> bool:
    """
    pre: -90 <= lat <= 90 and 0 <= prec <= 5
    post: _
    """
    inner = {"type": "location", "id": "location--x"}
    if has_lat:
        inner["latitude"] = float(lat) if False else lat
    if has_lon:
        inner["longitude"] = 0
    if has_prec:
        inner["precision"] = prec
    if has_region:
        inner["region"] = "caribbean"
    if has_country:
        inner["country"] = "us"
    got = _accepts(mk(stix2.v21.Location, inner))
    V.reached()
    # 2.1 section 4.9: latitude and longitude MUST be given together; precision requires both; at least one of region, country, or the pair
    spec = (has_lat == has_lon) and (not has_prec or (has_lat and has_lon)) and (has_region or has_country or (has_lat and has_lon))
    return got == spec


def cc_ordered_times(cls_i: int, has_a: bool, a: int, has_b: bool, b: int) -> bool:
    """
    pre: 0 <= cls_i <= 7 and a > 0 and b > 0
    post: _
    """
    cls_i = pick(cls_i, 8)
    cls, pa, pb, strict, extra = [
        (stix2.v21.Campaign, "first_seen", "last_seen", False, {}),
        (stix2.v21.IntrusionSet, "first_seen", "last_seen", False, {}),
        (stix2.v21.Indicator, "valid_from", "valid_until", True, {"pattern_type": "x"}),
        (stix2.v21.Sighting, "first_seen", "last_seen", False, {}),
        (stix2.v21.ThreatActor, "first_seen", "last_seen", False, {}),
        (stix2.v21.Malware, "first_seen", "last_seen", False, {"is_family": False}),
        (stix2.v21.Infrastructure, "first_seen", "last_seen", False, {}),
        (stix2.v21.Relationship, "start_time", "stop_time", True, {}),          # stop_time MUST be later than start_time
    ][cls_i]
    inner = dict({"type": cls._type, "id": cls._type + "--x"}, **extra)
    if has_a:
        inner[pa] = a
    if has_b:
        inner[pb] = b
    got = _accepts(mk(cls, inner))
    V.reached()
    if has_a and has_b:
        # last_seen MUST be >= first_seen; valid_until MUST be > valid_from
        return got == ((b > a) if strict else (b >= a))
    return got


def cc_observed_data(has_objects: bool, has_refs: bool, first: int, last: int, n: int) -> bool:
    """
    pre: first > 0 and last > 0
    post: _
    """
    inner = {"type": "observed-data", "id": "observed-data--x", "first_observed": first, "last_observed": last, "number_observed": n}
    if has_objects:
        inner["objects"] = {"0": {"type": "file", "name": "f"}}
    if has_refs:
        inner["object_refs"] = ["file--x"]
    import warnings
    with warnings.catch_warnings():
        warnings.simplefilter("ignore")
        got = _accepts(mk(stix2.v21.ObservedData, inner))
    V.reached()
    # exactly one of objects / object_refs; last_observed >= first_observed
    return got == ((has_objects != has_refs) and last >= first)


def cc_malware_family(has_name: bool, fam: bool) -> bool:
    """
    post: _
    """
    inner = {"type": "malware", "id": "malware--x", "is_family": fam}
    if has_name:
        inner["name"] = "m"
    got = _accepts(mk(stix2.v21.Malware, inner))
    V.reached()
    return got == (has_name or not fam)       # name is required for malware families


def cc_email_message(multi: bool, has_body: bool, has_parts: bool, v21: bool, empty_body: bool = False) -> bool:
    """
    post: _
    """
    mod = stix2.v21 if v21 else stix2.v20
    inner = {"type": "email-message", "is_multipart": multi}
    if has_body:
        inner["body"] = "" if empty_body else "b"          # an empty body is still a body
    if has_parts:
        inner["body_multipart"] = [{"body": "x"}]
    got = _accepts(mk(mod.EmailMessage, inner))
    V.reached()
    # body MUST NOT be used if is_multipart is true; body_multipart MUST NOT be used if is_multipart is false
    spec = not (multi and has_body) and not ((not multi) and has_parts)
    return got == spec


SOCK_VALS = [1, 0, -5, True, False, 1.0, "1", None, [1]]
SOCK_KEYS = ["SO_KEEPALIVE", "TCP_NODELAY", "IPV6_V6ONLY", "SO", "so_keepalive", "X_FOO", ""]


def cc_socket_options(ki: int, vi: int) -> bool:
    """
    pre: 0 <= ki < 7 and 0 <= vi < 9
    post: _
    """
    ki, vi = pick(ki, 7), pick(vi, 9)
    inner = {"address_family": "AF_INET", "options": {SOCK_KEYS[ki]: SOCK_VALS[vi]}}
    got = _accepts(mk(stix2.v21.SocketExt, inner))
    V.reached()
    # options: keys are socket option names (SO_*, TCP_*, ...), values are integers -- a boolean is not an integer in JSON
    key_ok = ki < 3
    val_ok = isinstance(SOCK_VALS[vi], int) and not isinstance(SOCK_VALS[vi], bool)
    return got == (key_ok and val_ok)


def cc_helpers(p1: bool, p2: bool, p3: bool, at_least: bool) -> bool:
    """
    post: _
    """
    inner = {"type": "syn"}
    for name, f in (("a", p1), ("b", p2), ("c", p3)):
        if f:
            inner[name] = 0                  # falsy values count as populated
    o = mk(Syn, inner)
    n = int(p1) + int(p2) + int(p3)
    try:
        o._check_mutually_exclusive_properties(["a", "b", "c"], at_least_one=at_least)
        me = True
    except STIXError:
        me = False
    try:
        o._check_at_least_one_property(["a", "b", "c"])
        al = True
    except STIXError:
        al = False
    try:
        o._check_properties_dependency(["a"], ["b", "c"])
        dep = True
    except STIXError:
        dep = False
    V.reached()
    return me == (n <= 1 and (n == 1 or not at_least)) and al == (n >= 1) and dep == (p1 or not (p2 or p3))


# ---------------------------------------------------------------- e. TLP marking definitions are fixed instances
TLP = {"white": "613f2e26-407d-48c7-9eca-b8e91df99dc9", "green": "34098fce-860f-48ae-8e50-ebd3cc5e41da", "amber": "f88d31f6-486f-44da-b317-01333bde0b82",
       "red": "5e57c739-391a-4eb3-b6be-7d15ca92d5ed"}
COLORS = ["white", "green", "amber", "red", "blue", "WHITE", "Amber", "RED", " green", ""]      # tlp is a closed lower-case vocabulary
NCOL = len(COLORS)


def tlp(ci: int, ii: int, created_ms: int, v21: bool) -> bool:
    """
    pre: 0 <= ci < NCOL and 0 <= ii < 5 and 0 <= created_ms <= 1
    post: _
    """
    ci, ii, created_ms, v21 = pick(ci, NCOL), pick(ii, 5), pick(created_ms, 2), pickb(v21)
    with Native():
        ok = run_tlp_case(ci, ii, created_ms, v21)
    V.reached()
    return ok


def run_tlp_case(ci, ii, created_ms, v21):
    color = COLORS[ci]
    uu = list(TLP.values())[ii] if ii < 4 else gen.UU
    d = {"type": "marking-definition", "id": "marking-definition--" + uu, "created": "2017-01-20T00:00:00.00%dZ" % created_ms,
         "definition_type": "tlp", "definition": {"tlp": color}}
    if v21:
        d["spec_version"] = "2.1"
        d["name"] = "TLP:" + color.upper()
    want = color in TLP and uu == TLP[color] and created_ms == 0
    try:
        o = stix2.parse(d, version="2.1" if v21 else "2.0")
        o.serialize()
        got = True
    except (STIXError, ValueError):
        got = False
    return got == want


# ---------------------------------------------------------------- f. single-point corruption: accepted => output satisfies the frozen model
from props import h_C17  # noqa: E402  (shares the case tables: every class x slot x junk)

NCASE = h_C17.NCASE
NPARTS = 8
_MODEL = specmodel.frozen_model()


def corrupt_then_valid(ci: int) -> bool:
    """
    pre: 0 <= ci < NCASE and ci % NPARTS == PARTNO
    post: _
    """
    ci = pick(ci, NCASE)
    with Native():
        ok = all(run_corrupt_case(ci, ji) for ji in range(h_C17.NJ + 1))
    V.reached()
    return ok


def run_corrupt_case(ci, ji):
    ver, cat, name, path, base = h_C17.CASES[ci]
    if name in ("x-unregistered-type", "bundle") or cat not in ("objects", "observables"):
        return True
    doc = h_C17.set_path(base, path, None, delete=True) if ji == h_C17.NJ else h_C17.set_path(base, path, h_C17.JUNK[ji])
    if ji < h_C17.NJ and h_C17.JUNK[ji] == {} and path.split(".")[-1] == "extensions" and K.open("C02-extensions-empty"):
        return True                           # known open finding (class: extensions is the empty dictionary)
    try:
        o = stix2.parse(doc, allow_custom=False, version=ver) if cat == "objects" else stix2.parse_observable(doc, allow_custom=False, version=ver)
    except (STIXError, ValueError, TypeError):
        return True
    except Exception:  # noqa: BLE001  (C17's business)
        return True
    out = json.loads(o.serialize())
    try:
        specmodel.validate(out, ver, cat, name, _MODEL)
    except specmodel.Invalid as e:
        if "extension_type missing" in str(e) and K.open("C02-extension-type-missing"):
            return True                       # known open finding (class: an unregistered extension-definition entry without extension_type)
        return False
    return True


# ---------------------------------------------------------------- f'. entries of unregistered extension-definition extensions
_ED = "extension-definition--311b2d2d-f010-4473-83ec-1edf84858f4c"
EXT_ENTRIES = [{"extension_type": "property-extension", "a": 1}, {}, 5, "property-extension", {"a": 1}, {"extension_type": "bogus"}, {"extension_type": None},
               {"extension_type": "property-extension", "x": None}, {"extension_type": "property-extension", "x": []}, {"extension_type": "property-extension", "x": {"y": {}}},
               {"extension_type": "new-sdo"}, {"extension_type": "toplevel-property-extension"}, [{"extension_type": "property-extension"}], {"extension_type": ["new-sdo"]},
               {"extension_type": "property-extension", "x": [1, [None]]}, None, True]
EXT_HOSTS = [("2.1", "objects", "identity", lambda: {"type": "identity", "spec_version": "2.1", "id": "identity--" + gen.UU, "created": gen.TS, "modified": gen.TS, "name": "n"}),
             ("2.1", "observables", "file", lambda: {"type": "file", "id": "file--" + gen.UU, "name": "f"}),
             ("2.1", "observables", "file", lambda: {"type": "file", "id": "file--" + gen.UU, "name": "f", "extensions": {"ntfs-ext": {"sid": "s"}}}),
             ("2.1", "objects", "marking-definition", lambda: {"type": "marking-definition", "spec_version": "2.1", "id": "marking-definition--" + gen.UU, "created": gen.TS,
                                                             "definition_type": "statement", "definition": {"statement": "s"}}),
             ("2.1", "objects", "relationship", lambda: {"type": "relationship", "spec_version": "2.1", "id": "relationship--" + gen.UU, "created": gen.TS, "modified": gen.TS,
                                                       "relationship_type": "uses", "source_ref": "malware--" + gen.UU, "target_ref": "identity--" + gen.UU})]


def ext_entries(ei: int, hi: int, ctor: bool) -> bool:
    """
    pre: 0 <= ei < len(EXT_ENTRIES) and 0 <= hi < len(EXT_HOSTS)
    post: _
    """
    ei, hi, ctor = pick(ei, len(EXT_ENTRIES)), pick(hi, len(EXT_HOSTS)), pickb(ctor)
    with Native():
        ok = run_ext_entry_case(ei, hi, ctor)
    V.reached()
    return ok


def run_ext_entry_case(ei, hi, ctor=False):
    """the library treats an unregistered extension-definition entry as specification content (not custom): what it then emits in strict mode must
    at least be an extension -- a JSON object naming one of the five extension types, without nulls or empty containers"""
    ver, cat, name, mk = EXT_HOSTS[hi]
    doc = mk()
    doc["extensions"] = dict(doc.get("extensions", {}), **{_ED: copy.deepcopy(EXT_ENTRIES[ei])})
    try:
        if ctor:
            cls = stix2.registry.class_for_type(name, ver, cat)
            o = cls(**{k: v for k, v in doc.items() if k != "type"}) if cat == "objects" else cls(**doc)
        else:
            o = stix2.parse(doc, allow_custom=False, version=ver) if cat == "objects" else stix2.parse_observable(doc, allow_custom=False, version=ver)
    except (STIXError, ValueError, TypeError):
        return ei != 0
    out = json.loads(o.serialize())
    try:
        specmodel.validate(out, ver, cat, name, _MODEL)
    except specmodel.Invalid as e:
        if "extension_type missing" in str(e) and K.open("C02-extension-type-missing"):
            return True
        return False
    return out["extensions"][_ED] == EXT_ENTRIES[ei]


# ---------------------------------------------------------------- f''. 2.0 object references are checked against the container they end up in
REF_TYPES = {"contains_refs": ("file", "directory"), "parent_directory_ref": ("directory",), "src_ref": ("ipv4-addr", "ipv6-addr", "mac-addr", "domain-name"),
             "dst_ref": ("ipv4-addr", "ipv6-addr", "mac-addr", "domain-name"), "resolves_to_refs": ("ipv4-addr", "ipv6-addr", "domain-name")}
# selections {new key: key in the source container}
SELECTIONS = [{"0": "0", "1": "1"}, {"5": "1"}, {"0": "3", "1": "1"}, {"0": "0", "1": "1", "2": "2", "3": "3"}, {"2": "2", "3": "0"}, {"2": "2"}, {"0": "4", "4": "0"}]


def _source_container():
    return stix2.v20.ObservedData(first_observed=gen.TS, last_observed=gen.TS, number_observed=1, objects={
        "0": {"type": "file", "name": "f"}, "1": {"type": "directory", "path": "p", "contains_refs": ["0"]},
        "2": {"type": "network-traffic", "protocols": ["tcp"], "src_ref": "3"}, "3": {"type": "ipv4-addr", "value": "1.2.3.4"},
        "4": {"type": "file", "name": "g", "parent_directory_ref": "1"}})


def observable_instances(si: int, route: int) -> bool:
    """
    pre: 0 <= si < len(SELECTIONS) and 0 <= route < 3
    post: _
    """
    si, route = pick(si, len(SELECTIONS)), pick(route, 3)
    with Native():
        ok = run_instances_case(si, route)
    V.reached()
    return ok


def _refs_resolve(objects):
    for key, o in objects.items():
        for prop, allowed in REF_TYPES.items():
            if prop in o:
                for r in (o[prop] if isinstance(o[prop], list) else [o[prop]]):
                    if r not in objects or objects[r].get("type") not in allowed:
                        return False
    return True


def run_instances_case(si, route):
    """members given as ready-made observable instances (parsed in ANOTHER container) are checked against THIS container's keys and types"""
    src = _source_container()
    sel = SELECTIONS[si]
    members = {k: (src.objects[v] if route != 2 else json.loads(src.objects[v].serialize())) for k, v in sel.items()}
    expected_ok = _refs_resolve({k: json.loads(src.objects[v].serialize()) for k, v in sel.items()})
    try:
        if route == 1:
            o = src.new_version(objects=members)
        else:
            o = stix2.v20.ObservedData(first_observed=gen.TS, last_observed=gen.TS, number_observed=1, objects=members)
    except (STIXError, ValueError, TypeError):
        return not expected_ok
    out = json.loads(o.serialize())
    return expected_ok and _refs_resolve(out["objects"])


def corrupt_named(ver, name, path, junk_json):
    """run_corrupt_case addressed by names (stable witness form for known findings)"""
    junk = json.loads(junk_json)
    ci = [i for i, c in enumerate(h_C17.CASES) if c[0] == ver and c[2] == name and c[3] == path][0]
    ji = [j for j, v in enumerate(h_C17.JUNK) if type(v) is type(junk) and v == junk][0]
    return run_corrupt_case(ci, ji)


# ---------------------------------------------------------------- g. every object reference of a 2.0 container resolves inside it
SCOPE_SITES = [  # (member carrying the reference, path of the reference inside it, is it a list, allowed target types, nested?)
    ({"type": "directory", "path": "p"}, "contains_refs", True, ("file", "directory"), False),
    ({"type": "file", "name": "g"}, "parent_directory_ref", False, ("directory",), False),
    ({"type": "network-traffic", "protocols": ["tcp"]}, "src_ref", False, ("ipv4-addr", "ipv6-addr", "mac-addr", "domain-name"), False),
    ({"type": "file", "name": "a.zip", "extensions": {"archive-ext": {}}}, "extensions.archive-ext.contains_refs", True, ("file",), True),
    ({"type": "network-traffic", "protocols": ["http"], "src_ref": "ip", "extensions": {"http-request-ext": {"request_method": "get", "request_value": "/"}}},
     "extensions.http-request-ext.message_body_data_ref", False, ("artifact",), True),
    ({"type": "email-message", "is_multipart": True, "body_multipart": [{"content_type": "text/plain"}]}, "body_multipart.0.body_raw_ref", False, ("artifact", "file"), True),
    ({"type": "process", "pid": 1, "extensions": {"windows-service-ext": {"service_name": "s"}}}, "extensions.windows-service-ext.service_dll_refs", True, ("file",), True),
]
SCOPE_TARGETS = {"file": {"type": "file", "name": "f"}, "directory": {"type": "directory", "path": "d"}, "ip": {"type": "ipv4-addr", "value": "1.2.3.4"},
                 "artifact": {"type": "artifact", "payload_bin": "YWJj"}, "mutex": {"type": "mutex", "name": "m"}}


def local_scope(si: int, target: int) -> bool:
    """
    pre: 0 <= si < len(SCOPE_SITES) and 0 <= target <= 5
    post: _
    """
    si, target = pick(si, len(SCOPE_SITES)), pick(target, 6)
    with Native():
        ok = run_scope_case(si, target)
    V.reached()
    return ok


def run_scope_case(si, target):
    """a reference names: each kind of member present in the container (right or wrong type for that reference), or a key that is not there.
    If strict construction succeeds, the reference resolves to a member of an allowed type."""
    member, path, is_list, allowed, nested = SCOPE_SITES[si]
    if nested and K.open("C02-refs-inside-extensions-20"):
        return True                         # known open finding (class: a reference inside an extension / embedded object of a 2.0 observable)
    names = sorted(SCOPE_TARGETS)
    key = names[target] if target < len(names) else "absent"
    objects = {k: dict(v) for k, v in SCOPE_TARGETS.items()}
    if (si + target) % 2:
        objects["*"] = {"type": "mutex", "name": "star"}            # an object may sit under any key; none of them is a wildcard
    objects["m"] = h_C17.set_path(_with_leaf(member, path), path, [key] if is_list else key)
    try:
        o = stix2.v20.ObservedData(first_observed=gen.TS, last_observed=gen.TS, number_observed=1, objects=objects)
    except (STIXError, ValueError, TypeError):
        return True                         # refusing is always safe here (C03 asks for acceptance of valid content)
    out = json.loads(o.serialize())["objects"]
    cur = out["m"]
    for part in path.split("."):
        cur = cur[int(part)] if isinstance(cur, list) else cur[part]
    refs = cur if is_list else [cur]
    return all(r in out and out[r]["type"] in allowed for r in refs)


def _with_leaf(member, path):
    """make sure every container on the way to the leaf exists"""
    d = copy.deepcopy(member)
    cur = d
    parts = path.split(".")
    for part in parts[:-1]:
        cur = cur[int(part)] if isinstance(cur, list) else cur.setdefault(part, {})
    if not isinstance(cur, list):
        cur.setdefault(parts[-1], None)
    return d

# ---------------------------------------------------------------- h. list slots given as one-shot iterables; strict bundles with members of unregistered types
ITERABLES = [lambda v: iter(v), lambda v: (x for x in v), lambda v: map(lambda x: x, v), lambda v: filter(lambda x: True, v), lambda v: tuple(v), lambda v: list(v),
             lambda v: dict.fromkeys(v).keys()]


def list_slots_as_iterables(ci: int, ii: int, empty: bool) -> bool:
    """
    pre: 0 <= ci < NLC and ci % 4 == PARTNO % 4 and 0 <= ii < len(ITERABLES)
    post: _
    """
    ci, ii, empty = pick(ci, NLC), pick(ii, len(ITERABLES)), pickb(empty)
    with Native():
        ok = run_iterable_case(ci, ii, empty)
    V.reached()
    return ok


def _list_classes():
    out = []
    for ver, cat, name, cls, kw in gen.buildable()[0]:
        if cat not in ("objects", "observables"):
            continue
        for pname, prop in cls._properties.items():
            if type(prop).__name__ == "ListProperty" and pname in kw and isinstance(kw[pname], list) and all(isinstance(x, (str, int)) for x in kw[pname]):
                out.append((ver, cat, name, cls, kw, pname))
    return out


LIST_CASES = _list_classes()
NLC = len(LIST_CASES)


def run_iterable_case(ci, ii, empty):
    """a list property given through the constructor as any iterable (iterator, generator, map, filter, tuple, keys view), empty or not: what is
    emitted is valid -- no empty list, required lists present"""
    ver, cat, name, cls, kw, pname = LIST_CASES[ci]
    value = [] if empty else list(kw[pname])
    kw2 = dict(kw, **{pname: ITERABLES[ii](value)})
    try:
        o = cls(**kw2)
    except (STIXError, ValueError, TypeError):
        return True
    out = json.loads(o.serialize())
    try:
        specmodel.validate(out, ver, cat, name, _MODEL)
    except specmodel.Invalid:
        return False
    return (pname in out) == (not empty) and (empty or out[pname] == json.loads(json.dumps(value)))


MEMBER_JUNK = [("id", "not-an-id"), ("id", 5), ("created", "yesterday"), ("created_by_ref", 12), ("labels", []), ("name", None), ("x", {}), ("modified", "2020-13-01T00:00:00Z"),
               ("extensions", {}), ("type", "Bad_Type")]


def strict_bundle_members(ji: int, et: int, form: int, ver21: bool) -> bool:
    """
    pre: 0 <= ji <= len(MEMBER_JUNK) and 0 <= et <= 3 and 0 <= form <= 2
    post: _
    """
    ji, et, form, ver21 = pick(ji, len(MEMBER_JUNK) + 1), pick(et, 4), pick(form, 3), pickb(ver21)
    with Native():
        ok = run_bundle_member_case(ji, et, form, ver21)
    V.reached()
    return ok


def run_bundle_member_case(ji, et, form, ver21):
    """a strict bundle never emits a member it could not validate: a member of an unregistered type (with an extension entry of each kind that names
    a new type, or none), clean or with one corruption, is refused -- the bundle's output contains only members built by library classes"""
    ext_type = ["new-sdo", "new-sco", "new-sro", None][et]
    m = {"type": "x-unregistered-thing", "spec_version": "2.1", "id": "x-unregistered-thing--" + gen.UU, "created": gen.TS, "modified": gen.TS, "name": "n"}
    if ext_type:
        m["extensions"] = {"extension-definition--" + gen.UU: {"extension_type": ext_type}}
    if ji < len(MEMBER_JUNK):
        k, v = MEMBER_JUNK[ji]
        if k == "extensions" and not ext_type:
            return True
        m[k] = v
    b = {"type": "bundle", "id": "bundle--" + gen.UU, "objects": [m]}
    if not ver21:
        b["spec_version"] = "2.0"
    try:
        if form == 0:
            o = stix2.parse(b, allow_custom=False)
        elif form == 1:
            o = stix2.parse(json.dumps(b), allow_custom=False)
        else:
            o = (stix2.v21.Bundle if ver21 else stix2.v20.Bundle)(objects=[m], allow_custom=False)
    except (STIXError, ValueError, TypeError):
        return True
    return all(isinstance(x, stix2.base._STIXBase) for x in o.get("objects", []))

# ---------------------------------------------------------------- c'. presence-only co-constraints, table driven (symbolic presence flags)
def _x509_21_list():
    return ['is_self_signed', 'hashes', 'version', 'serial_number', 'signature_algorithm', 'issuer']


PRESENCE = [
    # (class, fixed inner, [(property, value)...] (at most 6), oracle over the set of present names) -- oracles quote the specification sentence
    (stix2.v21.ExternalReference, {"source_name": "s"}, [("description", "d"), ("external_id", "e"), ("url", "u")],
     lambda p: bool(p)),                                  # "at least one of the description, url, or external_id properties MUST be present"
    (stix2.v20.ExternalReference, {"source_name": "s"}, [("description", "d"), ("external_id", "e"), ("url", "u")], lambda p: bool(p)),
    (stix2.v21.GranularMarking, {"selectors": ["a"]}, [("lang", "en"), ("marking_ref", "marking-definition--x")],
     lambda p: len(p) == 1),                              # "exactly one of the lang or marking_ref properties MUST be present"
    (stix2.v21.EmailMIMEComponent, {}, [("body", "b"), ("body_raw_ref", "artifact--x"), ("content_type", "t")],
     lambda p: "body" in p or "body_raw_ref" in p),       # "one of body OR body_raw_ref MUST be included"
    (stix2.v20.EmailMIMEComponent, {}, [("body", "b"), ("body_raw_ref", "1"), ("content_type", "t")], lambda p: "body" in p or "body_raw_ref" in p),
    (stix2.v20.File, {"type": "file"}, [("hashes", {"MD5": "0" * 32}), ("name", "n"), ("is_encrypted", True), ("encryption_algorithm", "aes"),
                                        ("decryption_key", "k")],
     lambda p: ("hashes" in p or "name" in p) and (not ({"encryption_algorithm", "decryption_key"} & p) or "is_encrypted" in p)),
    (stix2.v20.NetworkTraffic, {"type": "network-traffic", "protocols": ["tcp"]}, [("src_ref", "0"), ("dst_ref", "1"), ("src_port", 1)],
     lambda p: "src_ref" in p or "dst_ref" in p),
    (stix2.v21.MalwareAnalysis, {"type": "malware-analysis", "id": "malware-analysis--x", "product": "p"},
     [("result", "benign"), ("analysis_sco_refs", ["file--x"]), ("version", "1")],
     lambda p: "result" in p or "analysis_sco_refs" in p),   # "one of result or analysis_sco_refs properties MUST be provided"
    (stix2.v21.X509Certificate, {"type": "x509-certificate", "id": "x509-certificate--x"},
     [("is_self_signed", False), ("serial_number", "1"), ("issuer", "i"), ("subject", "s"), ("defanged", True)],
     lambda p: bool(p - {"defanged"})),                   # "at least one of the properties defined below MUST be included"
    (stix2.v21.WindowsRegistryValueType, {}, [("name", ""), ("data", "d"), ("data_type", "REG_SZ")], lambda p: bool(p)),
    (stix2.v21.X509V3ExtensionsType, {}, [("basic_constraints", "b"), ("key_usage", "k")], lambda p: bool(p)),
    (stix2.v21.WindowsPEOptionalHeaderType, {}, [("magic_hex", "0a"), ("size_of_code", 0)], lambda p: bool(p)),
    (stix2.v21.Process, {"type": "process", "id": "process--x"}, [("pid", 0), ("cwd", ""), ("is_hidden", False), ("defanged", True)],
     lambda p: bool(p - {"defanged"})),                   # "a Process object MUST contain at least one property (other than type) from this object"
    (stix2.v20.Process, {"type": "process"}, [("pid", 0), ("cwd", ""), ("is_hidden", False)], lambda p: bool(p)),
]
NPRES = len(PRESENCE)


def cc_presence(ti: int, f0: bool, f1: bool, f2: bool, f3: bool, f4: bool) -> bool:
    """
    pre: 0 <= ti < NPRES
    post: _
    """
    ti = pick(ti, NPRES)
    cls, fixed, props, oracle = PRESENCE[ti]
    flags = [f0, f1, f2, f3, f4][:len(props)]
    inner = dict(fixed)
    present = set()
    for (name, value), f in zip(props, flags):
        if f:
            inner[name] = value
            present.add(name)
    got = _accepts(mk(cls, inner))
    V.reached()
    return got == oracle(present)


def cc_marking_definition(has_type: bool, has_def: bool, has_ext: bool) -> bool:
    """
    post: _
    """
    inner = {"type": "marking-definition", "id": "marking-definition--x", "created": 1}
    if has_type:
        inner["definition_type"] = "statement"
    if has_def:
        inner["definition"] = {"statement": "s"}
    if has_ext:
        inner["extensions"] = {"extension-definition--x": {"extension_type": "property-extension"}}
    got = _accepts(mk(stix2.v21.MarkingDefinition, inner))
    V.reached()
    # definition_type and definition are required unless the marking is defined by an extension
    return got == ((has_type and has_def) or has_ext)
