"""C19 -- custom type registration is exact, exclusive and version-scoped."""
from engine.spec import CH, JOB

H = "props.h_C19"
F = ["stix2.registration._register_object", "stix2.registration._register_observable", "stix2.registration._register_marking",
     "stix2.registration._register_extension", "stix2.registration._validate_props", "stix2.registry.class_for_type",
     "stix2.custom._custom_object_builder", "stix2.custom._custom_observable_builder", "stix2.custom._custom_marking_builder",
     "stix2.custom._custom_extension_builder", "stix2.properties._validate_type", "stix2.parsing.dict_to_stix2", "stix2.parsing.parse_observable"]
REG = "registries are snapshotted before and restored after every explored history"

META = {
    "engines": ["crosshair", "re2z3"],
    "level_text": "Bounded model checking of the real registration code through the four public decorators against a registry model: every history "
                  "of 2 steps (register or parse/lookup) over 4 kinds x 2 versions x 8 names (two fresh valid names, a built-in name, five "
                  "rule-breaking names) and every 3-step history within one kind over the three interesting names; after every step the complete "
                  "registries of both versions must equal the model (exactly that name, that kind, that version; duplicates and invalid names "
                  "refused with prior registrations intact), parse()/parse_observable() must resolve exactly accordingly (also when a parse "
                  "attempt precedes the registration), and registered custom objects must round-trip and version. Type-name and 2.1 "
                  "property-name rules are decided for all strings by regex inclusion.",
    "level_text_more": 'Also: reference-named custom properties (names ending in _ref/_refs with 1..4 underscores vs look-alikes) x 6 property types x 4 kinds x 2 versions: refused iff the type is not a (list of) reference property, registry unchanged on refusal. A marking definition\'s definition in 7 forms (incl. an instance of another registered marking class) is refused or is an instance of the class registered for definition_type. Rounds 5-6: registration histories also parse without naming a version (after earlier detections of both versions).',
    "level_note": "Histories are selector-enumerated on the live registries (restored after each). Decorator class-body __init__ hooks, "
                  "id_contrib_props and extension toplevel properties are outside the claim. Open finding C19-propname-chars excludes property "
                  "names that start with a-z but break the rest of the naming rule.",
    "technique": "CrossHair-driven bounded enumeration of registration/parse histories on the real decorators vs a registry model; regex-to-z3 "
                 "inclusion for naming rules; counterexamples replayed natively",
    "outside": ["histories longer than 3", "cross-category name clashes", "workbench-level registration helpers"],
    "assumptions": [REG],
}


def obligations(tier):
    t = 300 if tier == "quick" else 900
    obls = []
    for k in range(4):
        obls.append(CH("histories2_kind%d" % k, H, "history2", t, mode="E1s", functions=F, stubs=[REG], env={"VERIF_PART": str(k)},
                       bounds="first step of kind %d; 2 steps x (register | parse) x 4 kinds x 2 versions x 8 names" % k))
        obls.append(CH("histories3_kind%d" % k, H, "history3_same_kind", t, mode="E1s", functions=F, stubs=[REG], env={"VERIF_PART": str(k)},
                       bounds="kind %d; 2 steps (register | parse) + final parse; 2 versions x 3 names each" % k))
    obls.append(CH("reference_property_naming", H, "ref_property_rules", t, mode="E1s", functions=["stix2.registration._validate_ref_props", "stix2.registration._validate_props"] + F[:4],
                   stubs=[REG], bounds="4 kinds x 2 versions x 14 property names (7 reference-named with 1..4 underscores, 7 look-alikes) x 6 property types"))
    obls.append(CH("custom_types_every_property_kind", H, "custom_property_kinds", t, mode="E1s", functions=["stix2.properties.ListProperty.clean"] + F[:3], stubs=[REG],
                   bounds="13 property kinds x single / ListProperty x custom object / observable / property-extension: a legal value is accepted, serialized, and the "
                          "serialization strictly parses back to an equal object"))
    obls.append(CH("types_declared_with_extension_name", H, "extension_name_types", t, mode="E1s", functions=["stix2.custom._custom_object_builder", "stix2.custom._custom_observable_builder"] + F[:2],
                   stubs=[REG], bounds="custom object / observable declared with extension_name x other extensions (none, registered, unregistered, both) x own extension "
                                       "listed or not x constructor / parse dict / parse text: all extensions kept, own one present, strict round trip"))
    obls.append(CH("refused_registration_leaves_nothing", H, "registration_failures", t, mode="E1s", finding="C19-extension-id-not-uuid", functions=["stix2.v21.sdo.CustomObject", "stix2.v21.observables.CustomObservable",
                   "stix2.registration._register_object", "stix2.registration._register_observable", "stix2.registration._register_extension"], stubs=[REG],
                   bounds="21 (type name, extension_name) pairs -- names taken in the same or the other 2.1 category, malformed type names, extension names taken / not "
                          "extension-definition ids / malformed -- x (new SDO, new SRO, new observable): refused exactly when a name is taken or malformed, "
                          "the registry afterwards identical to before; otherwise exactly the type and its extension added and the type parses to the class"))
    obls.append(CH("registration_scopes_references", H, "version_scoped_references", t, mode="E1s", functions=["stix2.properties.ReferenceProperty.clean", "stix2.utils.is_object"] + F[:1],
                   stubs=[REG], bounds="a custom object type registered for 2.0 or 2.1 only x referenced from a 2.0 / 2.1 Relationship or Sighting x allow_custom"))
    obls.append(CH("marking_definition_uses_registered_class", H, "marking_definition_forms", t, mode="E1s", functions=["stix2.v21.common.MarkingDefinition.__init__",
                   "stix2.v20.common.MarkingDefinition.__init__", "stix2.v21.common.MarkingProperty.clean"] + F[:2], stubs=[REG],
                   bounds="2 versions x 4 definition types (two registered custom markings, statement, tlp) x 7 forms of the definition (dict, instance of each registered "
                          "class, built-in instances, JSON text, junk): refused, or an instance of the class registered for the type that round trips"))
    obls.append(JOB("type_name_rules", "props.j_regex", "job_type_names", 120, engine="re2z3", functions=F[10:11],
                    bounds="all strings of length 3..250 (regex inclusion: accepted => obeys the naming rule), both spec versions"))
    obls.append(JOB("name_checks_terminate", "props.j_regex", "job_regex_ambiguity", 300, engine="re2z3", functions=["stix2.properties._validate_type", "stix2.properties.TYPE_21_REGEX"],
                    bounds="every compiled pattern the library keeps at module level (26, incl. the per-algorithm hash table): for each unbounded repetition whose body repeats, "
                           "no text of length <= 12 is both one round and several rounds of the body (z3 regex intersection; the condition under which a backtracking matcher "
                           "takes exponential time); a witness is replayed by matching its 26-fold repetition in a fresh interpreter with a 5 s limit"))
    obls.append(JOB("property_name_rules_21", "props.j_regex", "job_prop_names", 120, engine="re2z3", functions=F[4:5], finding="C19-propname-chars",
                    bounds="all strings (regex inclusion: accepted => obeys the naming rule)"))
    return obls
