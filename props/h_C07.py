"""C07 harnesses: data-marking operations as an algebra over (selector, marking) pairs, against a set model."""
import datetime as dt
import json

import pytz
from crosshair.core import NoTracing

import stix2
from stix2 import markings, versioning
from stix2.exceptions import InvalidSelectorError, MarkingNotFoundError
from stix2.markings import granular_markings as gm

from engine.hlib import K, Native, Part, TIER, V, pick, pickb

M1 = "marking-definition--613f2e26-407d-48c7-9eca-b8e91df99dc9"
M2 = "marking-definition--34098fce-860f-48ae-8e50-ebd3cc5e41da"
M3 = "marking-definition--f88d31f6-486f-44da-b317-01333bde0b82"
MARKS = (M1, M2, "en", "fr")
OMARKS = (M1, M2, M3)
# property names of a real 2.1 Malware where one name is a string prefix of another ("created" / "created_by_ref")
PATHS = ("created", "created_by_ref", "labels", "labels.[0]", "labels.[1]", "external_references", "external_references.[0]",
         "external_references.[0].source_name", "name")
NP = len(PATHS)
_T = [dt.datetime(2021, 1, 1, tzinfo=pytz.utc)]


def _clock():
    _T[0] = _T[0] + dt.timedelta(milliseconds=1)
    return stix2.utils.STIXdatetime(_T[0])


def base():
    return {
        "type": "malware", "spec_version": "2.1", "id": "malware--c8d2fae5-7271-400c-b81d-931a4caf20b9",
        "created_by_ref": "identity--311b2d2d-f010-4473-83ec-1edf84858f4c",
        "created": "2017-01-01T00:00:00.000Z", "modified": "2017-01-01T00:00:00.000Z",
        "name": "", "is_family": False, "labels": ["a", ""],              # name and labels.[1] address false-y values on purpose
        "external_references": [{"source_name": "src", "external_id": "1"}],
    }


def anc(a, b):
    """path a is an ancestor of (or equal to) path b, by path components"""
    pa, pb = a.split("."), b.split(".")
    return pb[:len(pa)] == pa


def model_get(pairs, omarks, t, inh, desc, api):
    out = {m for (s, m) in pairs if s == t or (inh and anc(s, t)) or (desc and anc(t, s))}
    if api and inh:
        out |= set(omarks)
    return out


def content(o):
    if not isinstance(o, dict):
        o = json.loads(o.serialize())
    return {k: v for k, v in dict(o).items() if k not in ("granular_markings", "object_marking_refs", "modified")}


def pairs_of(o):
    out = set()
    for g in o.get("granular_markings", []) or []:
        for s in g["selectors"]:
            out.add((s, g.get("marking_ref") or g.get("lang")))
    return out


def _TLP_OBJ():
    return {M1: stix2.v21.TLP_WHITE, M2: stix2.v21.TLP_GREEN, M3: stix2.v21.TLP_AMBER}


def check_queries(o, pairs, omarks):
    """every query function agrees with the set model, for every selector and flag combination"""
    if pairs_of(o) != pairs or set(o.get("object_marking_refs", []) or []) != set(omarks):
        return False
    for t in PATHS:
        for inh in (False, True):
            for desc in (False, True):
                want = model_get(pairs, omarks, t, inh, desc, False)
                if set(gm.get_markings(o, t, inh, desc)) != want:
                    return False
                if set(gm.get_markings(o, [t], inh, desc, marking_ref=False)) != {m for m in want if not m.startswith("marking-")}:
                    return False
                if bool(gm.is_marked(o, None, t, inh, desc)) != bool(want):
                    return False
                for m in MARKS:
                    if bool(gm.is_marked(o, m, t, inh, desc)) != (m in want):
                        return False
                # API layer: inherited lookups also report object-level markings
                wapi = model_get(pairs, omarks, t, inh, desc, True)
                if set(via.get_markings(o, t, inh, desc)) != wapi:
                    return False
                if not (inh and K.open("C07-api-is-marked-inherited")):
                    for m in MARKS + OMARKS[2:]:
                        if bool(via.is_marked(o, m, t, inh, desc)) != (m in wapi):
                            return False
                        # the same marking named by its marking-definition object, alone or in a list (accepted everywhere an id is)
                        mo = _TLP_OBJ().get(m)
                        if mo is not None and inh and bool(via.is_marked(o, mo if desc else [mo], t, inh, desc)) != (m in wapi):
                            return False
                        if mo is not None and inh and not desc and bool(gm.is_marked(o, mo, [t], inh, desc)) != (m in want):
                            return False
    if set(via.get_markings(o)) != set(omarks):
        return False
    for m in OMARKS:
        if bool(via.is_marked(o, m)) != (m in omarks):
            return False
    return bool(via.is_marked(o)) == bool(omarks)


_MOBJ = [False]         # True: object-level markings are handed over as MarkingDefinition objects (alone or in a list) instead of id strings
_FUTURE = [False]       # True: the object's modified time lies ahead of the clock and has digits below the millisecond
_MIXIN = [False]        # True: call the methods library objects carry (obj.add_markings(...)) instead of the module functions


class _Via:
    """markings.<fn>(o, ...) or, for library objects when _MIXIN is set, o.<fn>(...)"""
    def __getattr__(self, name):
        def call(o, *a, **kw):
            if _MIXIN[0] and hasattr(o, name):
                return getattr(o, name)(*a, **kw)
            return getattr(markings, name)(o, *a, **kw)
        return call


via = _Via()


def apply_op(o, pairs, omarks, op, si, mi):
    """one operation on the real functions and on the model; returns (o, pairs, omarks, ok)"""
    s = PATHS[si]
    if op < 4:
        m = MARKS[mi % len(MARKS)]
        had_any = bool(o.get("granular_markings"))
        try:
            if op == 0:
                n = via.add_markings(o, m, [s])
                exp = pairs | {(s, m)}
            elif op == 1:
                n = via.remove_markings(o, m, [s])
                if not had_any:
                    exp = pairs
                elif (s, m) not in pairs:
                    return o, pairs, omarks, False
                else:
                    exp = pairs - {(s, m)}
            elif op == 2:
                n = via.clear_markings(o, [s])
                if not had_any:
                    exp = pairs
                elif not any(p[0] == s for p in pairs):
                    return o, pairs, omarks, False
                else:
                    exp = {p for p in pairs if p[0] != s}
            else:
                n = via.set_markings(o, m, [s])
                if had_any and not any(p[0] == s for p in pairs):
                    return o, pairs, omarks, False
                exp = {p for p in pairs if p[0] != s} | {(s, m)}
        except MarkingNotFoundError:
            if op == 1:
                return o, pairs, omarks, had_any and (s, m) not in pairs
            return o, pairs, omarks, op in (2, 3) and had_any and not any(p[0] == s for p in pairs)
        return n, exp, omarks, True
    m = OMARKS[mi % len(OMARKS)]
    real_m = m
    if _MOBJ[0]:
        m = {M1: stix2.v21.TLP_WHITE, M2: stix2.v21.TLP_GREEN, M3: stix2.v21.TLP_AMBER}[m] if (mi + op) % 2 == 0 else [{M1: stix2.v21.TLP_WHITE, M2: stix2.v21.TLP_GREEN,
                                                                                                                     M3: stix2.v21.TLP_AMBER}[m]]
    try:
        if op == 4:
            n = via.add_markings(o, m)
            exp = omarks | {real_m}
        elif op == 5:
            n = via.remove_markings(o, m)
            if not omarks:
                exp = omarks
            elif real_m not in omarks:
                return o, pairs, omarks, False
            else:
                exp = omarks - {real_m}
        elif op == 6:
            n = via.clear_markings(o)
            exp = set()
        else:
            n = via.set_markings(o, m)
            exp = {real_m}
    except MarkingNotFoundError:
        return o, pairs, omarks, op == 5 and bool(omarks) and real_m not in omarks
    return n, pairs, exp, True


RAW = [  # granular markings as parsed / hand-built content may carry them: legal, but not in the library's compressed normal form
    [{"marking_ref": M1, "selectors": ["name", "name"]}],
    [{"marking_ref": M1, "selectors": ["name"]}, {"marking_ref": M1, "selectors": ["name", "created"]}],
    [{"lang": "en", "selectors": ["labels.[0]"]}, {"lang": "en", "selectors": ["labels.[0]", "labels"]}],
    [{"marking_ref": M1, "selectors": ["created"]}, {"marking_ref": M2, "selectors": ["created"]}, {"marking_ref": M1, "selectors": ["created_by_ref", "created"]}],
    [{"marking_ref": M2, "selectors": ["external_references.[0].source_name", "external_references.[0]"]},
     {"marking_ref": M2, "selectors": ["external_references.[0]"]}, {"lang": "fr", "selectors": ["name"]}, {"lang": "fr", "selectors": ["name"]}],
]
NRAW = len(RAW)


def start(form, raw):
    """form 0: plain dict, 1: parsed Malware object, 2: Relationship object ('name' stands for relationship_type is not needed: it has no name,
    so form 2 is only used with selector tables that avoid it)"""
    d = base()
    if _FUTURE[0]:
        d["modified"] = "2031-01-01T00:00:00.000500Z"
    if raw is not None:
        d["granular_markings"] = [dict(g, selectors=list(g["selectors"])) for g in RAW[raw]]
    if form == 0:
        return d
    return stix2.parse(d, allow_custom=False)


def run_seq(ops, form=0, raw=None):
    """ops: list of (op, selector index, marking index). Real functions vs the set model after every step."""
    saved = versioning.get_timestamp
    versioning.get_timestamp = _clock
    try:
        o, omarks = start(form, raw), set()
        pairs = pairs_of(o)
        b0 = base()
        for (op, si, mi) in ops:
            before = dict(o)
            snap = repr(o)
            n, pairs, omarks, ok = apply_op(o, pairs, omarks, op, si, mi)
            if not ok:
                return False
            if repr(o) != snap:                      # the input object must not be modified
                return False
            if n is not o:
                if content(n) != content(b0):        # non-marking content unchanged
                    return False
                if not (stix2.utils.parse_into_datetime(n["modified"]) > stix2.utils.parse_into_datetime(before["modified"])):
                    return False
                stix2.parse(dict(n), allow_custom=False)   # a valid new version (raises otherwise)
                if (form == 0) != isinstance(n, dict):    # dictionaries stay dictionaries, objects stay objects
                    return False
            o = n
            if not check_queries(o, pairs, omarks):
                return False
        return True
    finally:
        versioning.get_timestamp = saved


PARTNO = Part.index            # 16 partitions: (first op, first marking) for granular; see props/C07.py
QUICK = TIER == "quick"


def seq2(o1: int, s1: int, m1: int, o2: int, s2: int, m2: int) -> bool:
    """
    pre: 0 <= o1 < 4 and 0 <= m1 < 4 and o1 * 4 + m1 == PARTNO
    pre: 0 <= s1 < NP and 0 <= o2 < 4 and 0 <= s2 < 5 and 0 <= m2 < 4
    post: _
    """
    ops = [(pick(o1, 4), pick(s1, NP), pick(m1, 4)), (pick(o2, 4), (0, 1, 3, 7, 8)[pick(s2, 5)], pick(m2, 4))]
    with Native():
        ok = run_seq(ops)
    V.reached()
    return ok


def seq3(o1: int, s1: int, m1: int, o2: int, s2: int, m2: int, o3: int, s3: int, m3: int) -> bool:
    """
    pre: 0 <= o1 < 4 and 0 <= m1 < 4 and (o1 * 4 + m1) * 2 + (s1 % 2) == PARTNO
    pre: 0 <= s1 < NP and 0 <= o2 < 4 and 0 <= s2 < NP and 0 <= m2 < 4
    pre: 0 <= o3 < 4 and 0 <= s3 < 3 and 0 <= m3 < 2
    post: _
    """
    ops = [(pick(o1, 4), pick(s1, NP), pick(m1, 4)), (pick(o2, 4), pick(s2, NP), pick(m2, 4)),
           (pick(o3, 4), (0, 1, 7)[pick(s3, 3)], (0, 2)[pick(m3, 2)])]
    with Native():
        ok = run_seq(ops)
    V.reached()
    return ok


def seq_raw(raw: int, form: int, o1: int, s1: int, m1: int, o2: int, s2: int, m2: int) -> bool:
    """
    pre: 0 <= raw < NRAW and 0 <= form < 2 and 0 <= o1 < 4 and 0 <= s1 < NP and 0 <= m1 < 4 and 0 <= o2 < 4 and 0 <= s2 < 4 and 0 <= m2 < 2
    pre: raw * 2 + form == PARTNO
    pre: (not QUICK) or (1 <= o2 <= 2 and s2 <= 1 and m2 == 0)
    post: _
    """
    raw, form = pick(raw, NRAW), pick(form, 2)
    ops = [(pick(o1, 4), pick(s1, NP), pick(m1, 4)), (pick(o2, 4), (0, 3, 6, 8)[pick(s2, 4)], (0, 2)[pick(m2, 2)])]
    with Native():
        ok = run_seq(ops, form, raw)
    V.reached()
    return ok


def seq2_objects(o1: int, s1: int, m1: int, o2: int, s2: int, m2: int) -> bool:
    """
    pre: 0 <= o1 < 4 and 0 <= m1 < 4 and o1 * 4 + m1 == PARTNO
    pre: 0 <= s1 < NP and 0 <= o2 < 4 and 0 <= s2 < 5 and 0 <= m2 < 4
    post: _
    """
    ops = [(pick(o1, 4), pick(s1, NP), pick(m1, 4)), (pick(o2, 4), (0, 1, 3, 7, 8)[pick(s2, 5)], pick(m2, 4))]
    with Native():
        _MIXIN[0] = True
        try:
            ok = run_seq(ops, 1)
        finally:
            _MIXIN[0] = False
    V.reached()
    return ok


# ---- operations that name several selectors and/or several markings at once
def apply_multi(o, pairs, op, sels, marks):
    """one multi-selector / multi-marking operation on the real functions and on the set model; returns (new object, new pairs, ok)"""
    had_any = bool(o.get("granular_markings"))
    req = {(s, m) for s in sels for m in marks}
    on_sel = {p for p in pairs if p[0] in sels}
    try:
        if op == 0:
            n, exp, must_raise = markings.add_markings(o, list(marks), list(sels)), pairs | req, False
        elif op == 1:
            n = markings.remove_markings(o, list(marks), list(sels))
            exp, must_raise = (pairs, False) if not had_any else (pairs - req, not (req & pairs))
        elif op == 2:
            n = markings.clear_markings(o, list(sels))
            exp, must_raise = (pairs, False) if not had_any else (pairs - on_sel, not on_sel)
        else:
            n = markings.set_markings(o, list(marks), list(sels))
            exp, must_raise = (pairs - on_sel) | req, had_any and not on_sel
    except MarkingNotFoundError:
        if op == 1:
            return o, pairs, had_any and not (req & pairs)
        return o, pairs, op in (2, 3) and had_any and not on_sel
    return n, exp, not must_raise


def seq_multi(s1: int, m1: int, o2: int, sa: int, sb: int, m2: int, two: bool, form: int) -> bool:
    """
    pre: 0 <= s1 < NP and s1 == PARTNO and 0 <= m1 < 2 and 0 <= o2 < 4 and 0 <= sa < 5 and 0 <= sb < 5 and sa != sb and 0 <= m2 < 2 and 0 <= form < 2
    post: _
    """
    s1, m1, o2, sa, sb, m2, two, form = pick(s1, NP), pick(m1, 2), pick(o2, 4), pick(sa, 5), pick(sb, 5), pick(m2, 2), pickb(two), pick(form, 2)
    with Native():
        ok = run_multi(s1, m1, o2, sa, sb, m2, two, form)
    V.reached()
    return ok


def run_multi(s1, m1, o2, sa, sb, m2, two, form):
    """add one pair, then one operation naming two selectors (and one or two markings): the result is the set-model result, i.e. the same as
    doing the operation pair by pair; queries agree afterwards"""
    saved = versioning.get_timestamp
    versioning.get_timestamp = _clock
    try:
        o = start(form, None)
        first = (0, 2)[m1]
        o, pairs, omarks, ok = apply_op(o, set(), set(), 0, s1, first)
        if not ok:
            return False
        sels = [PATHS[(0, 1, 3, 7, 8)[sa]], PATHS[(0, 1, 3, 7, 8)[sb]]]
        marks = [MARKS[(0, 2)[m2]]] + ([MARKS[1]] if two else [])
        snap = repr(o)
        n, exp, ok = apply_multi(o, pairs, o2, sels, marks)
        if not ok or repr(o) != snap:
            return False
        if n is not o:
            stix2.parse(dict(n), allow_custom=False)
        return check_queries(n, exp, omarks)
    finally:
        versioning.get_timestamp = saved


PAIRS = [(a, b) for a in range(NP) for b in range(a + 1, NP)]       # 36 selector pairs
NPAIR = len(PAIRS)


def seq_aao(pi: int, m: int, o3: int, s3: int, same: bool) -> bool:
    """
    pre: 0 <= pi < NPAIR and pi % 12 == PARTNO and 0 <= m < 4 and 0 <= o3 < 4 and 0 <= s3 < NP
    post: _
    """
    pi, m, o3, s3 = pick(pi, NPAIR), pick(m, 4), pick(o3, 4), pick(s3, NP)
    same = pickb(same)
    a, b = PAIRS[pi]
    ops = [(0, a, m), (0, b, m if same else (m + 1) % 4), (o3, s3, m)]
    with Native():
        ok = run_seq(ops)
    V.reached()
    return ok


def objseq(o1: int, m1: int, o2: int, m2: int, o3: int, m3: int, g: int) -> bool:
    """
    pre: 4 <= o1 < 8 and 4 <= o2 < 8 and 4 <= o3 < 8 and 0 <= m1 < 3 and 0 <= m2 < 3 and 0 <= m3 < 3 and 0 <= g < NP
    pre: (not QUICK) or (m3 == 0 and (g == 0 or g == 7))
    post: _
    """
    ops = [(0, pick(g, NP), 0), (pick(o1 - 4, 4) + 4, 0, pick(m1, 3)), (pick(o2 - 4, 4) + 4, 0, pick(m2, 3)), (pick(o3 - 4, 4) + 4, 0, pick(m3, 3))]
    with Native():
        ok = True
        for mobj, future, form in ((False, False, 0), (True, False, 0), (True, True, 1), (False, True, 0)):
            _MOBJ[0], _FUTURE[0] = mobj, future
            try:
                ok = ok and run_seq(ops, form)
            finally:
                _MOBJ[0], _FUTURE[0] = False, False
    V.reached()
    return ok


# ---- symbolic selector strings: ancestry follows path components, not string prefixes (real add/get on dict objects)
def ancestry(s: str, t: str, inh: bool, desc: bool) -> bool:
    """
    pre: len(s) <= 8 and len(t) <= 8
    post: _
    """
    obj = {"type": "malware", "id": "malware--c8d2fae5-7271-400c-b81d-931a4caf20b9", "created": "2017-01-01T00:00:00.000Z",
           "modified": "2017-01-01T00:00:00.000Z", "name": "x", "names": ["a", "b"], "nam": "y", "name_x": {"k": "v"}}
    saved = versioning.get_timestamp
    versioning.get_timestamp = _clock
    try:
        try:
            o = gm.add_markings(obj, M1, [s])
        except InvalidSelectorError:
            V.reached()
            return True
        try:
            got = gm.get_markings(o, [t], inherited=inh, descendants=desc)
            marked = gm.is_marked(o, M1, [t], inherited=inh, descendants=desc)
        except InvalidSelectorError:
            V.reached()
            return True
    finally:
        versioning.get_timestamp = saved
    V.reached("both_selectors_accepted")
    sp = s.split(".")
    tp = t.split(".")
    exp = (s == t) or (inh and tp[:len(sp)] == sp) or (desc and sp[:len(tp)] == tp)
    return (M1 in got) == exp and bool(marked) == exp
