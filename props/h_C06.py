"""C06 harnesses: STIX 2.1 observable identifiers are deterministic and specification-exact."""
import json
import uuid
from collections import OrderedDict

import stix2
from stix2.exceptions import STIXError
from stix2 import base as sbase
from stix2.base import _choose_one_hash, _make_json_serializable
from stix2.v21 import observables as ob21

from engine.hlib import Native, V, pick, pickb
from props import gen

# Frozen copy of the identifier-contributing properties, STIX 2.1 section 6 (written from the specification; for software the
# specification question whether 'languages' contributes is recorded in DESIGN.md -- the frozen list follows the pinned tree there).
SPEC_CONTRIB = {
    "artifact": ["hashes", "payload_bin"], "autonomous-system": ["number"], "directory": ["path"], "domain-name": ["value"],
    "email-addr": ["value"], "email-message": ["from_ref", "subject", "body"],
    "file": ["hashes", "name", "parent_directory_ref", "extensions"],
    "ipv4-addr": ["value"], "ipv6-addr": ["value"], "mac-addr": ["value"], "mutex": ["name"],
    "network-traffic": ["start", "end", "src_ref", "dst_ref", "src_port", "dst_port", "protocols", "extensions"],
    "process": [], "software": ["name", "cpe", "swid", "vendor", "version"], "url": ["value"],
    "user-account": ["account_type", "user_id", "account_login"], "windows-registry-key": ["key", "values"],
    "x509-certificate": ["hashes", "serial_number"],
}
NS = uuid.UUID("00abedb4-aa42-466c-9c01-fed23315a9b7")
SCOS = sorted(SPEC_CONTRIB)
NSCO = len(SCOS)
CLS = {n: stix2.registry.STIX2_OBJ_MAPS["2.1"]["observables"][n] for n in SCOS}


def choose_hash(md5: bool, sha1: bool, sha256: bool, sha512: bool, o1: bool, o2: bool, swap: bool, early: bool = False) -> bool:
    """
    post: _
    """
    d = OrderedDict()
    # other algorithms: two whose names sort after the four preferred ones, or (early) two that sort before them
    others = [("MD6", "a"), ("RIPEMD-160", "b")] if early else [("SHA3-256", "a"), ("SSDEEP", "b")]
    if swap:
        others.reverse()
    if o1:
        d[others[0][0]] = others[0][1]
    if sha512:
        d["SHA-512"] = "5"
    if sha256:
        d["SHA-256"] = "2"
    if o2:
        d[others[1][0]] = others[1][1]
    if sha1:
        d["SHA-1"] = "1"
    if md5:
        d["MD5"] = "m"
    r = _choose_one_hash(d)
    V.reached()
    if md5:
        return r == {"MD5": "m"}
    if sha1:
        return r == {"SHA-1": "1"}
    if sha256:
        return r == {"SHA-256": "2"}
    if sha512:
        return r == {"SHA-512": "5"}
    # none of the four: the first in key order, whatever order the dictionary is in ("equal contributing values give equal ids across dictionary orders")
    if o1 or o2:
        k = min(d)
        return r == {k: d[k]}
    return r is None


# value tables per property: (ordinary value, falsy variant or None)
def _values(cls, name):
    prop = cls._properties[name]
    P = stix2.properties
    if isinstance(prop, P.HashesProperty):
        return {"SHA-256": "0" * 64, "MD5": "1" * 32}, None
    if isinstance(prop, P.ExtensionsProperty):
        return {"x-k-ext": {"a": 1.5, "b": "q\"\\\n"}}, None
    if isinstance(prop, P.IntegerProperty):
        return 7, 0
    if isinstance(prop, P.BooleanProperty):
        return True, False
    if isinstance(prop, P.TimestampProperty):
        return stix2.utils.parse_into_datetime("2020-01-01T00:00:00.120Z", "millisecond", "min"), None
    if isinstance(prop, P.ListProperty):
        if name == "values":
            return [{"name": "n", "data": "d", "data_type": "REG_SZ"}], None
        return ["tcp", "ipv4"], None
    if isinstance(prop, P.ReferenceProperty):
        return gen.ref_value(prop, "2.1"), None
    return "v\u00e9\"\\\n\U0001F600", ""


def contributing(si: int, p0: bool, p1: bool, p2: bool, p3: bool, p4: bool, p5: bool, p6: bool, p7: bool, falsy: bool, extra: bool) -> bool:
    """
    pre: 0 <= si < NSCO
    post: _
    """
    si = pick(si, NSCO)
    n = len(SPEC_CONTRIB[SCOS[si]])
    flags = [pickb(x) for x in (p0, p1, p2, p3, p4, p5, p6, p7)[:n]] + [False] * (8 - n)    # fork only on the flags this type uses
    falsy, extra = pickb(falsy), pickb(extra)
    with Native():
        ok = run_contrib_case(si, flags, falsy, extra)
    V.reached()
    return ok


def run_contrib_case(si, flags, falsy, extra):
    """real _generate_id on a directly built instance; canonicalize replaced by a recorder: the hashed dictionary must hold exactly the
    specified contributing properties that are present, with one chosen hash and JSON-serializable values; none present -> None"""
    name = SCOS[si]
    cls = CLS[name]
    spec = SPEC_CONTRIB[name]
    if any(flags[len(spec):]):
        return True                      # unused flag positions: covered by the all-False instance
    inner = {"type": name}
    want = {}
    for k, f in zip(spec, flags):
        if not f:
            continue
        v, fv = _values(cls, k)
        if falsy and fv is not None:
            v = fv
        inner[k] = v
        if k == "hashes":
            want[k] = {"MD5": v["MD5"]}
        elif k == "start" or k == "end":
            want[k] = "2020-01-01T00:00:00.12Z" if False else stix2.utils.format_datetime(v)
        else:
            want[k] = json.loads(json.dumps(v))
    if extra:                            # non-contributing properties must not reach the hashed dictionary
        for k, prop in cls._properties.items():
            if k not in spec and k not in ("type", "id", "spec_version", "extensions", "object_marking_refs", "granular_markings"):
                v = gen.value_for(k, prop, "2.1")
                if v is not None:
                    inner[k] = v
                    break
        inner["defanged"] = True
    o = cls.__new__(cls)
    o.__dict__["_inner"] = inner
    seen = []
    saved = sbase.canonicalize
    sbase.canonicalize = lambda obj, utf8=True: (seen.append(obj) or "x")
    try:
        r = o._generate_id()
    finally:
        sbase.canonicalize = saved
    if not want:
        return r is None and not seen
    if len(seen) != 1 or seen[0] != want:
        return False
    return r == "%s--%s" % (name, uuid.uuid5(NS, "x"))


# ---- end to end on real constructors: id == type--uuid5(NS, independent canonical JSON of the contributing properties)
def indep_canon(v):
    """independent RFC 8785 serializer for the value classes used here (no floats other than x.5)"""
    if isinstance(v, bool):
        return "true" if v else "false"
    if isinstance(v, int):
        return str(v)
    if isinstance(v, float):
        return repr(v)
    if isinstance(v, str):
        out = ['"']
        two = {0x08: "\\b", 0x09: "\\t", 0x0A: "\\n", 0x0C: "\\f", 0x0D: "\\r", 0x22: '\\"', 0x5C: "\\\\"}
        for ch in v:
            out.append(two.get(ord(ch)) or ("\\u%04x" % ord(ch) if ord(ch) < 0x20 else ch))
        return "".join(out) + '"'
    if isinstance(v, list):
        return "[" + ",".join(indep_canon(x) for x in v) + "]"
    items = sorted(v.items(), key=lambda kv: kv[0].encode("utf-16-be"))
    return "{" + ",".join(indep_canon(k) + ":" + indep_canon(x) for k, x in items) + "}"


CASES = [
    ("autonomous-system", {"number": 0}, {"number": 0}),
    ("autonomous-system", {"number": 15, "name": "n"}, {"number": 15}),
    ("directory", {"path": ""}, {"path": ""}),
    ("directory", {"path": "C:\\a\"b\n\U0001F600", "path_enc": "x"}, {"path": "C:\\a\"b\n\U0001F600"}),
    ("file", {"name": "f", "size": 3, "hashes": {"SHA-512": "0" * 128, "SHA-1": "1" * 40, "SHA-256": "2" * 64}}, {"name": "f", "hashes": {"SHA-1": "1" * 40}}),
    # none of the four preferred algorithms: the choice cannot depend on the order of the dictionary, so "first" is the first in key order
    ("file", {"name": "f", "hashes": {"SSDEEP": "3:a:b", "SHA3-256": "2" * 64}}, {"name": "f", "hashes": {"SHA3-256": "2" * 64}}),
    ("file", {"hashes": {"TLSH": "0" * 70, "SHA3-512": "5" * 128, "SSDEEP": "3:a:b"}}, {"hashes": {"SHA3-512": "5" * 128}}),
    ("file", {"name": "f", "extensions": {"windows-pebinary-ext": {"pe_type": "exe", "sections": [{"name": "s", "entropy": 0.5}]}}},
     {"name": "f", "extensions": {"windows-pebinary-ext": {"pe_type": "exe", "sections": [{"name": "s", "entropy": 0.5}]}}}),
    # hash dictionaries NESTED in a contributing value are content like any other: only the top-level hashes property is reduced to one hash
    ("file", {"name": "f", "extensions": {"ntfs-ext": {"alternate_data_streams": [{"name": "a", "hashes": {"MD5": "0" * 32, "SHA-256": "2" * 64}}]}}},
     {"name": "f", "extensions": {"ntfs-ext": {"alternate_data_streams": [{"name": "a", "hashes": {"MD5": "0" * 32, "SHA-256": "2" * 64}}]}}}),
    ("file", {"hashes": {"SHA-256": "2" * 64, "MD5": "0" * 32}, "extensions": {"windows-pebinary-ext": {"pe_type": "exe", "file_header_hashes": {"SHA-1": "1" * 40, "MD5": "0" * 32},
                                                                                                            "sections": [{"name": "s", "hashes": {"SHA-512": "0" * 128, "MD5": "0" * 32}}]}}},
     {"hashes": {"MD5": "0" * 32}, "extensions": {"windows-pebinary-ext": {"pe_type": "exe", "file_header_hashes": {"SHA-1": "1" * 40, "MD5": "0" * 32},
                                                                           "sections": [{"name": "s", "hashes": {"SHA-512": "0" * 128, "MD5": "0" * 32}}]}}}),
    # booleans, numbers and nested arrays inside a contributing value (an unregistered property extension)
    ("file", {"name": "f", "extensions": {"extension-definition--" + gen.UU: {"extension_type": "property-extension", "flags": [True, False, 1, 0, [True], 1.5], "n": None or 0}}},
     {"name": "f", "extensions": {"extension-definition--" + gen.UU: {"extension_type": "property-extension", "flags": [True, False, 1, 0, [True], 1.5], "n": 0}}}),
    ("network-traffic", {"protocols": ["tcp"], "src_ref": "ipv4-addr--" + gen.UU, "src_port": 0, "start": "2020-01-01T00:00:00.120Z", "is_active": True},
     {"protocols": ["tcp"], "src_ref": "ipv4-addr--" + gen.UU, "src_port": 0, "start": "2020-01-01T00:00:00.12Z"}),
    ("process", {"pid": 1}, None),
    ("mutex", {"name": "m"}, {"name": "m"}),
    ("email-message", {"is_multipart": False, "subject": "", "body": "b"}, {"subject": "", "body": "b"}),
    ("user-account", {"user_id": "u", "is_privileged": False, "display_name": "d"}, {"user_id": "u"}),
    ("software", {"name": "s", "languages": ["en"], "vendor": ""}, {"name": "s", "vendor": ""}),
    ("x509-certificate", {"serial_number": "1", "issuer": "i"}, {"serial_number": "1"}),
    ("windows-registry-key", {"key": "HKEY_LOCAL_MACHINE\\x", "values": [{"name": "n", "data": "d", "data_type": "REG_SZ"}]},
     {"key": "HKEY_LOCAL_MACHINE\\x", "values": [{"name": "n", "data": "d", "data_type": "REG_SZ"}]}),
]
NCASE = len(CASES)


def end_to_end(ci: int, how: int) -> bool:
    """
    pre: 0 <= ci < NCASE and 0 <= how <= 7
    post: _
    """
    ci, how = pick(ci, NCASE), pick(how, 8)
    with Native():
        ok = run_e2e_case(ci, how)
    V.reached()
    return ok


def rev_dicts(v):
    if isinstance(v, dict):
        return {k: rev_dicts(x) for k, x in reversed(list(v.items()))}
    if isinstance(v, list):
        return [rev_dicts(x) for x in v]
    return v


def run_e2e_case(ci, how):
    name, kw, contrib = CASES[ci]
    cls = CLS[name]
    if how == 0:
        o = cls(**kw)
    elif how == 1:
        o = cls(**dict(reversed(list(kw.items()))))           # argument order
    elif how == 2:
        o = stix2.parse(dict(kw, type=name), version="2.1")   # via parse
    elif how == 7:
        o = cls(**rev_dicts(kw))                              # every dictionary, at every depth, in the opposite order
    elif how == 6:
        o = cls(id=None, **kw)                                # None means "not given", as for every other property
    elif how == 4:
        o = cls(custom_properties=dict(kw))                   # every value handed over through custom_properties
    elif how == 5:
        b = stix2.v21.Bundle(objects=[dict(kw, type=name, spec_version="2.1")])   # as a bundle member given as a dictionary (marked 2.1: without id it would look like 2.0)
        o = b.objects[0]
    else:
        first = cls(**kw)
        d = json.loads(first.serialize())
        d.pop("id")
        o = stix2.parse(json.dumps(d), version="2.1")         # serialization round trip without id
    if contrib is None:
        u = uuid.UUID(o.id[-36:])
        return o.id.startswith(name + "--") and u.version == 4
    want = "%s--%s" % (name, uuid.uuid5(NS, indep_canon(contrib)))
    if o.id != want:
        return False
    given = cls(id=name + "--" + gen.UU, **kw)                # an explicit id is kept
    return given.id == name + "--" + gen.UU


def json_serializable(i: int, b: bool, s: str, kind: int) -> bool:
    """
    pre: len(s) <= 3 and 0 <= kind <= 5
    post: _
    """
    kind = pick(kind, 6)
    v = [i, b, s, [i, s], {"k": [b, {"j": i}]}, None][kind]
    try:
        r = _make_json_serializable(v)
    except ValueError:
        V.reached()
        return kind == 5
    V.reached()
    return kind != 5 and r == v and (kind < 3 or r is not v)


# ---- registered custom observables: id from the declared id-contributing properties only
def custom_observable(has_a: bool, has_b: bool, has_c: bool, falsy: bool, via: int = 0, has_e: bool = False, has_d: bool = False) -> bool:
    """
    pre: 0 <= via <= 2
    post: _
    """
    has_a, has_b, has_c, falsy, via, has_e, has_d = pickb(has_a), pickb(has_b), pickb(has_c), pickb(falsy), pick(via, 3), pickb(has_e), pickb(has_d)
    with Native():
        ok = run_custom_case(has_a, has_b, has_c, falsy, via, has_e, has_d)
    V.reached()
    return ok


def run_custom_case(has_a, has_b, has_c, falsy, via=0, has_e=False, has_d=False):
    """the declared contributors are two own properties, an own property with a default, and two properties every SCO has (extensions,
    defanged); values arrive as keyword arguments, through custom_properties, or by parsing a dictionary; the id is the UUIDv5 of the
    canonical JSON of the contributors the finished object carries"""
    from stix2 import registry
    saved = dict(registry.STIX2_OBJ_MAPS["2.1"]["observables"])
    try:
        @stix2.v21.CustomObservable("x-probe-sco", [("a_val", stix2.properties.StringProperty()), ("b_num", stix2.properties.IntegerProperty()),
                                                    ("c_other", stix2.properties.StringProperty()),
                                                    ("d_dflt", stix2.properties.StringProperty(default=lambda: "dflt"))],
                                       ["a_val", "b_num", "d_dflt", "extensions", "defanged"])
        class Probe(object):
            pass

        @stix2.v21.CustomObservable("x-plain-sco", [("a_val", stix2.properties.StringProperty()), ("c_other", stix2.properties.StringProperty())], ["a_val"])
        class Plain(object):
            pass
        kw, contrib = {}, {"d_dflt": "dflt", "defanged": False}      # what the finished object carries by default
        if has_a:
            kw["a_val"] = contrib["a_val"] = "" if falsy else "é\"\n"
        if has_b:
            kw["b_num"] = contrib["b_num"] = 0 if falsy else 10 ** 21
        if has_c:
            kw["c_other"] = "zz"
        if has_d:
            kw["d_dflt"] = contrib["d_dflt"] = "" if falsy else "given"
        if has_e:
            kw["defanged"] = contrib["defanged"] = not falsy
            kw["extensions"] = {"extension-definition--" + gen.UU: {"extension_type": "property-extension", "k": 0 if falsy else 1}}
            contrib["extensions"] = kw["extensions"]
        want = "x-probe-sco--%s" % uuid.uuid5(NS, indep_canon(contrib).replace(str(10 ** 21), "1e+21"))
        if via == 0:
            o = Probe(**kw)
        elif via == 1:
            split = {k: v for k, v in kw.items() if k in ("a_val", "b_num", "d_dflt")}
            o = Probe(custom_properties=split, **{k: v for k, v in kw.items() if k not in split})
        else:
            o = stix2.parse(dict(kw, type="x-probe-sco"), version="2.1")
        if o.id != want:
            return False
        # a type whose only contributor is absent gets a random id, different every time; present, the deterministic one by any route
        p1, p2 = Plain(c_other="x"), Plain(c_other="x")
        if uuid.UUID(p1.id[-36:]).version != 4 or p1.id == p2.id:
            return False
        w2 = "x-plain-sco--%s" % uuid.uuid5(NS, indep_canon({"a_val": "v"}))
        return Plain(a_val="v").id == w2 and Plain(custom_properties={"a_val": "v"}).id == w2
    finally:
        registry.STIX2_OBJ_MAPS["2.1"]["observables"].clear()
        registry.STIX2_OBJ_MAPS["2.1"]["observables"].update(saved)


# ---- contributing timestamps: the id is hashed over the text THIS object writes (its property's precision), whatever other objects of the process
# wrote for the same instant before; and contributing texts that differ give different ids
INSTANTS = ["2020-01-01T00:00:30Z", "2020-01-01T00:00:30.5Z", "2020-01-01T00:00:30.120Z", "2020-01-01T00:00:30.000001Z"]


def timestamp_contributors(ii: int, order: int, form: int) -> bool:
    """
    pre: 0 <= ii < len(INSTANTS) and 0 <= order <= 2 and 0 <= form <= 1
    post: _
    """
    ii, order, form = pick(ii, len(INSTANTS)), pick(order, 3), pick(form, 2)
    with Native():
        ok = run_ts_contrib_case(ii, order, form)
    V.reached()
    return ok


def run_ts_contrib_case(ii, order, form):
    from stix2 import registry
    import datetime as dt
    saved = (dict(registry.STIX2_OBJ_MAPS["2.1"]["observables"]), dict(registry.STIX2_OBJ_MAPS["2.1"]["extensions"]))
    try:
        @stix2.v21.CustomObservable("x-ts-ms", [("seen", stix2.properties.TimestampProperty(precision="millisecond")), ("n", stix2.properties.IntegerProperty())], ["seen"])
        class Ms(object):
            pass

        @stix2.v21.CustomObservable("x-ts-min", [("seen", stix2.properties.TimestampProperty(precision="millisecond", precision_constraint="min"))], ["seen"])
        class Min(object):
            pass

        @stix2.v21.CustomObservable("x-ts-any", [("seen", stix2.properties.TimestampProperty())], ["seen"])
        class Any(object):
            pass
        text = INSTANTS[ii]
        value = text if form == 0 else stix2.utils.parse_into_datetime(text)
        makers = [lambda: Ms(seen=value), lambda: Min(seen=value), lambda: Any(seen=value),
                  lambda: stix2.v21.NetworkTraffic(start=value, protocols=["tcp"], src_ref="ipv4-addr--" + gen.UU)]
        makers = makers[order:] + makers[:order]                     # which object the process builds first
        for _round in range(2):
            for mk in makers:
                o = mk()
                j = json.loads(o.serialize())
                contrib = {k: j[k] for k in (("seen",) if "seen" in j else ("start", "src_ref", "protocols")) if k in j}
                if o.id != "%s--%s" % (j["type"], uuid.uuid5(NS, indep_canon(contrib))):
                    return False
                again = stix2.parse({k: v for k, v in j.items() if k != "id"}, version="2.1")
                if again.id != o.id:
                    return False
        return True
    finally:
        for m, sv in zip(("observables", "extensions"), saved):
            registry.STIX2_OBJ_MAPS["2.1"][m].clear()
            registry.STIX2_OBJ_MAPS["2.1"][m].update(sv)


NAMES = ["evil?x", "evil\ufffdx", "evil\ud800x", "evil\udc00x", "evil\ud800\udc00x", "evil\U00010000x", "evil\\ud800x", "Evil?x", "evil?x ", "evil\u0000x", "evil x"]


def distinct_values_distinct_ids(i: int, j: int, cls: int) -> bool:
    """
    pre: 0 <= i < len(NAMES) and 0 <= j < len(NAMES) and 0 <= cls <= 2
    post: _
    """
    i, j, cls = pick(i, len(NAMES)), pick(j, len(NAMES)), pick(cls, 3)
    with Native():
        ok = run_distinct_case(i, j, cls)
    V.reached()
    return ok


def run_distinct_case(i, j, cls):
    """two contributing texts (incl. unpaired surrogates, their replacement characters and escaped spellings): a text the library accepts gets the
    UUIDv5 of its own canonical JSON; different texts never share an id; a text that has no UTF-8 form may be refused (RFC 8785 3.2.2.2)"""
    mk = [lambda v: stix2.v21.Mutex(name=v), lambda v: stix2.v21.File(name=v), lambda v: stix2.v21.UserAccount(user_id=v)][cls]
    ids = []
    for v in (NAMES[i], NAMES[j]):
        try:
            o = mk(v)
        except (STIXError, ValueError, TypeError):
            ids.append(None)
            continue
        try:
            want = str(uuid.uuid5(NS, indep_canon({("user_id" if cls == 2 else "name"): v})))
        except UnicodeEncodeError:
            want = None                                   # no independent answer for such a text: only distinctness is checked
        if want is not None and o.id[-36:] != want:
            return False
        ids.append(o.id)
    if NAMES[i] != NAMES[j] and ids[0] is not None and ids[0] == ids[1]:
        return False
    return True
