"""C02 -- whatever the library emits in strict mode is valid STIX."""
from engine.spec import CH, JOB

H = "props.h_C02"
FP = ["stix2.properties." + n for n in (
    "IntegerProperty.clean", "FloatProperty.clean", "BooleanProperty.clean", "StringProperty.clean", "EnumProperty.clean", "OpenVocabProperty.clean",
    "ListProperty.clean", "DictionaryProperty.clean", "HashesProperty.clean", "ExtensionsProperty.clean", "BinaryProperty.clean", "HexProperty.clean",
    "ReferenceProperty.clean", "IDProperty.clean", "SelectorProperty.clean", "TimestampProperty.clean", "_validate_id", "_check_uuid", "_validate_type")]
FE = ["stix2.base._STIXBase.__init__", "stix2.base._STIXBase._check_property", "stix2.serialization.STIXJSONEncoder.default",
      "stix2.serialization.STIXJSONIncludeOptionalDefaultsEncoder.default"]
FC = ["stix2.base._STIXBase._check_mutually_exclusive_properties", "stix2.base._STIXBase._check_at_least_one_property",
      "stix2.base._STIXBase._check_properties_dependency", "stix2.v21.observables.Artifact._check_object_constraints",
      "stix2.v21.observables.File._check_object_constraints", "stix2.v21.observables.NetworkTraffic._check_object_constraints",
      "stix2.v21.sdo.Location._check_object_constraints", "stix2.v21.sdo.ObservedData._check_object_constraints",
      "stix2.v21.sdo.Malware._check_object_constraints", "stix2.v21.sdo.Indicator._check_object_constraints",
      "stix2.v21.sdo.Campaign._check_object_constraints", "stix2.v21.sro.Sighting._check_object_constraints",
      "stix2.v21.observables.EmailMessage._check_object_constraints", "stix2.markings.utils.check_tlp_marking"]
FMT = "message formatting of symbolic values is opaque text (CrossHair plugin)"
MODEL = ("props/spec_model.json: frozen specification model, seeded from the pinned tree's tables and audited by hand (deviations listed in "
         "props/specmodel.py AUDIT); independent of later edits to the tree")

META = {
    "engines": ["crosshair", "re2z3", "pysym"],
    "level_text": "Bounded symbolic model checking of the table-driven object model in four layers: (a) clean() of every Property class with symbolic "
                  "parameters and values (unbounded ints for ranges, strings <= 4, literal tables for booleans/base64/dictionary keys, 12 types x 7 "
                  "reference configurations) and every syntax regex for ALL strings (regex inclusion); (b) every one of ~1350 property slots of "
                  "every class of both registries and embedded types: the live Property instance is introspected and its accept-set compared with "
                  "a frozen specification model by z3 (exists v. impl(v) and not spec(v)); (c) co-constraints of 28 classes/embedded types and the three helper "
                  "methods on directly built instances with symbolic presence flags and integer instants against predicates written from the "
                  "specification sentences; (d) the constructor engine on a synthetic class with symbolic presence/values (required, extra, "
                  "None/[] never stored, falsy values kept, clean failures, fixed values, has_custom, both encoders); (e) TLP instances; "
                  "(f) single-point corruption: every class x slot x 25 junk values/deletion: if strict parse accepts, the serialized JSON must "
                  "satisfy the frozen model under an independent validator.",
    "level_text_more": 'Also: strict refusal of nested custom content in lists, embedded objects, extensions (given as dictionary or as ready-made instance) and hash names; 10 spellings of the TLP colour. Malformed reference texts (extra \'--\' segments, tails) never accepted; the timestamp-slot jobs of C15 (what a slot emits has the digits its precision demands, whatever kind of value came in); the engine\'s custom property ranges over kept false-y and dropped (None, []) values. Rounds 5-6: 17 entry values of unregistered extension-definition extensions x 5 hosts; nulls / empties at any depth of dictionary values; 2.0 observable instances re-checked in a new container; every object reference of a 2.0 container incl. a member under the key `*`; list slots as one-shot iterables; strict bundles with members of unregistered types; members named like constructor flags or _valid_refs; identifier verdicts independent of history.',
    "level_note": "The frozen model is audited, not independent of the pinned tree where the audit did not change it. Pattern validity is delegated "
                  "to stix2patterns; language-content 'contents' structure and co-constraints of classes without a hand-written oracle are outside "
                  "the claim. Table-driven obligations are selector-enumerated.",
    "technique": "CrossHair symbolic execution of the real clean()/constructor/co-constraint code (z3), SMT comparison of introspected slot tables "
                 "with a frozen specification model, regex-to-z3 inclusion; counterexamples replayed natively",
    "outside": ["pattern grammar validity (stix2patterns)", "co-constraints of classes without an oracle in props/h_C02.py", "language-content contents",
                "two simultaneous corruptions"],
    "assumptions": [FMT, MODEL],
}


def obligations(tier):
    t = 200 if tier == "quick" else 600
    simple = [("integer_property", "int_prop", FP[:1], "min/max presence and values, value: unbounded ints"),
              ("float_property", "float_prop", FP[1:2], "min/max in -3..3, value in -4..4 and halves (forked; symbolic floats do not terminate)"),
              ("boolean_property", "bool_prop", FP[2:3], "bool, unbounded int, 16 string literals"),
              ("string_property", "string_prop", FP[3:4], "every str <= 4 chars"),
              ("enum_openvocab_property", "enum_prop", FP[4:6], "every str <= 3 chars vs a 3-entry vocabulary"),
              ("list_property", "list_prop", FP[6:7], "0..2 unbounded ints, symbolic element bound"),
              ("cc_artifact", "cc_artifact", FC[3:4], "presence of payload_bin/url/hashes, both versions"),
              ("cc_file", "cc_file", FC[4:5], "presence of hashes/name, both versions"),
              ("cc_network_traffic", "cc_network_traffic", FC[5:6], "presence flags, unbounded int instants, is_active"),
              ("cc_location", "cc_location", FC[6:7], "presence flags, latitude -90..90, precision 0..5 (incl. 0)"),
              ("cc_ordered_times", "cc_ordered_times", FC[8:12], "8 classes (incl. strict stop_time > start_time), presence flags, unbounded int instants"),
              ("cc_observed_data", "cc_observed_data", FC[7:8], "objects/object_refs presence, unbounded int instants and count"),
              ("cc_malware_family", "cc_malware_family", FC[8:9], "name presence x is_family"),
              ("cc_email_message", "cc_email_message", FC[12:13], "is_multipart x body (absent, non-empty, empty) x body_multipart, both versions"),
              ("cc_socket_options", "cc_socket_options", ["stix2.v21.observables.SocketExt._check_object_constraints"], "7 option names x 9 values (ints, booleans, float, text, null, list)"),
              ("cc_presence_table", "cc_presence", FC[:3], "14 classes/embedded types with presence-only constraints x every presence vector (<= 5 flags, falsy values used)"),
              ("cc_marking_definition_21", "cc_marking_definition", FC[13:], "definition_type / definition / extensions presence"),
              ("cc_helper_methods", "cc_helpers", FC[:3], "presence vector of 3 properties holding falsy values, at_least_one flag")]
    obls = [CH(n, H, f, t, functions=fn, stubs=[FMT], bounds=b) for n, f, fn, b in simple]
    obls += [
        CH("dictionary_keys_and_emptiness", H, "dict_prop", t, mode="E1s", functions=FP[7:10], bounds="12 keys x 2 versions x empty/non-empty x Dictionary/Hashes/Extensions"),
        CH("float_special_values", H, "float_values", t, mode="E1s", functions=FP[1:2] + ["stix2.v21.sdo.Location", "stix2.v21.observables.WindowsPESection"],
           bounds="21 values (infinities, NaN and their text spellings, overflowing text and int, extreme doubles, -0.0, non-numbers) x (bare / bounded FloatProperty, the 4 float-typed properties of real classes): "
                  "refused, or accepted as a finite double that serializes to a JSON number and reads back equal"),
        CH("binary_property", H, "binary_prop", t, mode="E1s", functions=FP[10:11], bounds="12 base64 / non-base64 literals"),
        CH("reference_property", H, "ref_prop", t, mode="E1s", functions=FP[12:13],            bounds="15 type names (two registered for 2.1 only, three registered as extension / marking kinds only) x 7 white/black-list configurations x allow_custom x both spec versions"),
        CH("reference_text_malformed", H, "ref_text", t, mode="E1s", functions=FP[12:13] + ["stix2.properties._validate_id", "stix2.utils.get_type_from_id"],
           bounds="4 type names x 7 configurations x 9 insertions between type and UUID (extra '--' segments, spaces) x 5 tails x both versions x allow_custom: never accepted"),
    ] + [
        CH("constructor_engine_p%02d" % q, H, "engine", t * 2, functions=FE, stubs=[FMT], env={"VERIF_PART": str(q)},
           bounds="synthetic class, partition embedded-kind %d / tags-kind %d: presence/None/[] per property, unbounded int, str <= 2, custom property absent or holding 1 / '' / 0 / None / [], "
                  "embedded object with/without custom, fixed value, allow_custom" % (q // 4, q % 4)) for q in range(16)
    ] + [
        CH("tlp_instances", H, "tlp", t, mode="E1s", functions=FC[13:], bounds="10 colour spellings (4 terms, unknown, case/space variants, empty) x 5 ids x 2 created values x 2 versions"),
        JOB("slot_model", "props.j_tables", "job_slot_model", 300, engine="smt", functions=["stix2.properties.Property.__init__"], stubs=[MODEL],
            bounds="every slot of every registered class and embedded type of both versions (live tables vs frozen model)"),
        JOB("regex_type_names", "props.j_regex", "job_type_names", 120, engine="re2z3", functions=FP[18:], bounds="all strings 3..250 chars"),
        JOB("regex_dict_key_hex", "props.j_regex", "job_dict_key_hex", 120, engine="re2z3", functions=FP[7:8] + FP[11:12], bounds="all strings"),
        JOB("regex_hashes", "props.j_regex", "job_hashes", 300, engine="re2z3", functions=["stix2.hashes.check_hash"], bounds="all strings, 15 algorithms"),
        JOB("regex_selector", "props.j_regex", "job_selector", 120, engine="re2z3", functions=FP[14:15], bounds="all strings"),
        JOB("strict_id_language", "props.j_ids", "job_id_language", 300, engine="re2z3", functions=FP[16:18], bounds="all strings, both versions"),
    ]
    from props import C15
    # timestamp values: what a timestamp slot emits has exactly / at least the digits its precision demands, whatever kind of value came in
    obls += [o for o in C15.obligations(tier) if o.name in ("timestamp_property_clean", "format_is_canonical_truncated")]
    from props import C19
    # the definition_type / definition co-constraint of marking definitions, for every form the definition can be handed over in
    obls += [o for o in C19.obligations(tier) if o.name == "marking_definition_uses_registered_class"]
    H4 = "props.h_C04"
    F4 = ["stix2.properties." + n + ".clean" for n in ("ListProperty", "EmbeddedObjectProperty", "ExtensionsProperty", "HashesProperty")]
    obls += [     # nested custom content is refused in strict mode (harnesses shared with C04; they also assert the flag)
        CH("strict_refuses_custom_in_lists", H4, "prop_list", t, functions=F4[:1], stubs=[FMT], bounds="1..3 children with symbolic custom flags, symbolic allow_custom"),
        CH("strict_refuses_custom_embedded", H4, "prop_embedded", t, functions=F4[1:2], stubs=[FMT], bounds="instance with symbolic flag, or dict with/without a custom property"),
        CH("strict_refuses_custom_in_extensions", H4, "prop_extensions", t * 2, functions=F4[2:3], stubs=[FMT],
           bounds="two registered extensions each clean/custom and each given as dict or ready-made instance, unregistered extension, extension-definition; both orders"),
        CH("strict_refuses_injected_custom_content", H4, "flag_iff_strict_refuses", t * 2, mode="E1s", functions=["stix2.base._STIXBase.__init__"],
           bounds="none, each single and each ordered pair of 45 injection sites on 10 base objects, with and without a legal unregistered property-extension next to them"),
        CH("strict_refuses_reserved_member_names", H4, "reserved_names", t, mode="E1s", functions=["stix2.base._STIXBase.__init__", "stix2.properties.EmbeddedObjectProperty.clean"],
           bounds="members named allow_custom / interoperability / custom_properties / _valid_refs at 16 sites, alone or next to a custom property"),
        CH("unregistered_extension_entries", H, "ext_entries", t, mode="E1s", functions=["stix2.properties.ExtensionsProperty.clean"], stubs=[MODEL],
           bounds="17 entry values (object with each extension type, not an object, empty, nulls and empty containers at depth 1-3, unknown / non-text / missing extension_type) under an unregistered extension-definition key x 5 host objects x parse / constructor"),
        CH("strict_refuses_custom_hash_names", H4, "prop_hashes", t, mode="E1s", functions=F4[3:], bounds="12 algorithm names, singles and pairs"),
    ]
    from props import C14
    obls += [o for o in C14.obligations(tier) if o.name == "strictness_independent_of_history"]       # what 2.0 refuses does not depend on what 2.1 accepted before
    obls.append(CH("observable_instances_rechecked", H, "observable_instances", t, mode="E1s", functions=["stix2.properties.ObservableProperty.clean", "stix2.base._Observable._check_ref"],
                   bounds="2.0 observed-data built from observable INSTANCES taken out of another container (7 selections: valid reuse, missing keys, keys now naming another type) x constructor / new_version / dictionary form; "
                          "accepted output is checked by an independent reference resolver"))
    for q in range(4):
        obls.append(CH("list_slots_as_iterables_p%d" % q, H, "list_slots_as_iterables", t, mode="E1s", functions=["stix2.properties.ListProperty.clean", "stix2.base._STIXBase.__init__"], stubs=[MODEL],
                       env={"VERIF_PART": str(q)}, bounds="every list-valued slot that the generator fills, of every class (index %% 4 == %d) x 7 iterable kinds (iterator, generator, map, filter, tuple, list, keys view) x empty / filled, through the constructor" % q))
    obls.append(CH("strict_bundle_members_validated", H, "strict_bundle_members", t, mode="E1s", functions=["stix2.properties.STIXObjectProperty.clean", "stix2.parsing.dict_to_stix2"],
                   bounds="a member of an unregistered type with an extension entry naming new-sdo / new-sco / new-sro / none x clean or one of 10 corruptions x dictionary / JSON text / constructor x 2.1 / 2.0 bundle"))
    obls.append(CH("object_references_in_local_scope", H, "local_scope", t, mode="E1s", functions=["stix2.base._Observable._check_property", "stix2.base._Observable._check_ref"],
                   bounds="7 reference sites of 2.0 observables (3 on the member itself, 4 inside extensions / embedded objects) x 6 targets (each kind of member present, a key that is absent): accepted containers resolve every reference to an allowed type"))
    for p in range(8):
        obls.append(CH("corruption_then_valid_p%d" % p, H, "corrupt_then_valid", t * 2, mode="E1s", functions=FE[:2] + ["stix2.parsing.parse"], stubs=[MODEL],
                       env={"VERIF_PART": str(p)}, bounds="(class, slot/nested site) cases with index %% 8 == %d x %d junk values + deletion, strict mode" % (p, __import__("props.h_C17", fromlist=["NJ"]).NJ)))
    return obls
