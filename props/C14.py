"""C14 -- a requested spec version is honoured everywhere and never alters strictness."""
from engine.spec import CH, JOB

H = "props.h_C14"
F = ["stix2.parsing.parse", "stix2.parsing.dict_to_stix2", "stix2.parsing.parse_observable", "stix2.datastore.memory._add",
     "stix2.datastore.memory.MemoryStore.__init__", "stix2.datastore.memory.MemorySource.__init__", "stix2.datastore.memory.MemorySink.__init__",
     "stix2.datastore.memory.MemorySink.add", "stix2.datastore.filesystem._check_object_from_file", "stix2.datastore.filesystem.FileSystemSink.add",
     "stix2.datastore.filesystem.FileSystemSource.query", "stix2.datastore.filesystem.FileSystemSource.get",
     "stix2.datastore.filesystem.FileSystemSource.all_versions", "stix2.properties.ObservableProperty.clean", "stix2.utils.detect_spec_version",
     "stix2.properties._check_uuid", "stix2.properties._validate_id"]
REC = "the callee at each call site is replaced by a recorder with the callee's real signature"
FSS = "os/io calls of stix2.datastore.filesystem replaced by an in-memory file system (props/fakefs.py)"

META = {
    "engines": ["crosshair", "re2z3"],
    "level_text": "Bounded symbolic model checking of argument forwarding at every call site that accepts or passes version/allow_custom (parse, "
                  "memory._add and the MemoryStore/Source/Sink constructors and add, filesystem._check_object_from_file, FileSystemSource "
                  "get/all_versions/query, FileSystemSink.add, ObservableProperty.clean): the real caller runs with symbolic version (None or any "
                  "string <= 3 chars) and allow_custom against a recorder with the callee's signature, which must receive exactly those values "
                  "and interoperability=False; end-to-end: 6 documents x (no version, 2.0, 2.1) x 4 entry points must give the class a direct "
                  "parse gives; 6 identifiers only relaxed mode could admit must be refused at every entry point; the identifier accept-language "
                  "of strict mode is compared with the canonical RFC 4122 text form for all strings by regex inclusion with a uuid.UUID model.",
    "level_text_more": 'Also: MemorySource/MemoryStore.load_from_file with a named version on bundles whose members carry no version; 16 objects the library itself builds (empty bundles, mixed bundle, markings, SCO/SRO, language content) recognised as their version when parsed back without naming one. Filesystem forwarding over 3 directory layouts with the number of parser calls equal to the number of stored files. Rounds 5-6: nothing inside a result is built by the other version`s classes; extensions registered for one version only; memory stores / sinks / sources built with each version; references with observable type prefixes under 2.0.',
    "level_note": "Recorder stubs replace the callee; in-memory FS stub; uuid.UUID modelled by its documented normalisation (strip urn:/uuid:/braces/"
                  "hyphens, 32 hex digits) and contract-tested. TAXII store outside the claim.",
    "technique": "CrossHair symbolic execution of the real call sites with recorder stubs (z3), enumerated end-to-end entry points, regex-to-z3 "
                 "inclusion for identifier strictness; counterexamples replayed natively",
    "outside": ["TAXII store/source/sink", "workbench wrappers"],
    "assumptions": [REC, FSS],
}


def obligations(tier):
    t = 200 if tier == "quick" else 600
    return [
        CH("forward_parse", H, "fwd_parse", t, functions=F[:2], stubs=[REC], bounds="allow_custom, interoperability symbolic; version None or any str <= 3"),
        CH("forward_memory_call_sites", H, "fwd_memory", t, functions=F[3:8], stubs=[REC],
           bounds="6 call sites x 3 input forms; allow_custom symbolic; version None or any str <= 3"),
        CH("forward_filesystem_call_sites", H, "fwd_filesystem", t, functions=F[8:13], stubs=[REC, FSS],
           bounds="5 call sites x 3 directory layouts (versioned, flat, mixed incl. legacy flat copies and ids that exist only as flat files); allow_custom symbolic; version None or any str <= 3; every stored file reaches the parser exactly once"),
        CH("forward_observable_property", H, "fwd_observable_property", t, functions=F[13:14], stubs=[REC], bounds="allow_custom symbolic, both spec versions"),
        CH("entry_points_same_class", H, "entry_points", t, mode="E1s", functions=F, stubs=[FSS],
           bounds="12 documents (2.0/2.1 SDO, SCO with/without id, 2.0/2.1 bundles, bundles whose members carry no version / a 2.1-only id, content naming a custom extension registered for the other / the same version only: nothing inside a result is built by the other version's classes) x (no version, 2.0, 2.1) x memory stores, sinks and sources built with (no version, 2.0, 2.1) x "
                  "(parse, store.add, store ctor, FS sink+source with a dictionary / JSON text / a list of texts, MemorySource.load_from_file, MemoryStore.load_from_file)"),
        CH("strictness_independent_of_history", H, "strictness_after_history", t, mode="E1s", functions=F[15:] + F[:1],
           bounds="a UUIDv1 identifier (legal in 2.1 only) as id or inside a reference: refused as 2.0 through 5 entry points, accepted as 2.1, and still refused as 2.0 afterwards"),
        CH("library_output_recognised", H, "produced_recognised", t, mode="E1s", functions=["stix2.utils.detect_spec_version", "stix2.parsing.parse", "stix2.parsing.dict_to_stix2"],
           bounds="16 objects the library builds (empty and non-empty bundles of both versions, mixed bundle, SDO/SRO/SCO, TLP and statement markings, language "
                  "content, 2.0 observed-data) x (compact text, dict, pretty text with defaults): detected version, class and re-serialization"),
        CH("relaxed_only_ids_refused", H, "strictness", t, mode="E1s", functions=F[15:] + F[:1], stubs=[FSS],
           bounds="6 malformed identifiers x (no version, 2.0, 2.1) x 4 entry points"),
        JOB("strict_id_language", "props.j_ids", "job_id_language", 300, engine="re2z3", functions=F[15:],
            stubs=["uuid.UUID(s): documented normalisation model, contract-tested"], bounds="all strings (regex inclusion), both spec versions"),
    ]
