"""C01 harnesses: serialize/parse round trip is lossless for every object and option set."""
import datetime as dt
import json
from collections import OrderedDict

import pytz

import stix2
from stix2 import properties as P
from stix2.exceptions import STIXError
from stix2.serialization import find_property_index
from stix2.v21.base import _STIXBase21

from engine.hlib import K, Native, Part, TIER, V, pick, pickb
from props import gen, specmodel
from props.h_C03 import CLASSES, base_doc

PARTNO = Part.index
NPARTS = 8
_MODEL = specmodel.frozen_model()
UU = gen.UU

STR_POOL = ["", "x", "é\U0001F600", "q\"\\/\b\f\n\r\t\x01\x7f", "퟿￿", "a b"]
INT_POOL = [0, 1, 2 ** 53 + 1, 2 ** 63]
FLOAT_POOL = [0.0, 0.5, 0.1 + 0.2, 1e16, 1e21, 1e-7, 123456789.123456789, 5e-324]
TS_POOL = ["2020-01-01T00:00:00.000001Z", "2020-01-01T00:00:00.001Z", "2020-01-01T00:00:00.999999Z", "2020-01-01T00:00:00.120Z", "0999-01-02T03:04:05.000Z",
           "2020-01-01T00:00:00Z"]
OPTION_SETS = [dict(pretty=p, include_optional_defaults=i, sort_keys=s, **({"indent": 2} if ind else {}), **({"ensure_ascii": False} if ea else {}))
               for p in (False, True) for i in (False, True) for s in (False, True) for ind in (False, True) for ea in (False, True)]
NOPT = len(OPTION_SETS)


def enrich(ver, cat, name, cls, base, pool_i):
    """the base object with every optional slot that can be added, and values drawn from the boundary pools (pool index rotates per slot)"""
    doc = dict(base)
    fz = _MODEL[ver][cat][name]
    k = pool_i
    for pname, desc in fz["props"].items():
        if pname in ("type", "id", "spec_version", "granular_markings", "extensions", "objects", "pattern", "pattern_version", "pattern_type"):
            continue
        kind = desc["kind"]
        cand = None
        if kind == "StringProperty" and pname not in ("name", "definition_type", "lang", "key", "version", "schema"):
            cand = STR_POOL[k % len(STR_POOL)]
        elif kind == "IntegerProperty":
            v = INT_POOL[k % len(INT_POOL)]
            if (desc.get("min") is None or v >= desc["min"]) and (desc.get("max") is None or v <= desc["max"]):
                cand = v
        elif kind == "FloatProperty":
            v = FLOAT_POOL[k % len(FLOAT_POOL)]
            if (desc.get("min") is None or v >= desc["min"]) and (desc.get("max") is None or v <= desc["max"]):
                cand = v
        elif kind == "TimestampProperty" and pname in ("created",):
            cand = TS_POOL[k % len(TS_POOL)] if not (desc.get("constraint") == "exact" and desc.get("precision") == "millisecond") else "2020-01-01T00:00:00.120Z"
        elif kind == "BooleanProperty":
            cand = bool(k % 2)
        elif kind == "DictionaryProperty":
            cand = {"key": STR_POOL[k % len(STR_POOL)], "k-2": [FLOAT_POOL[k % len(FLOAT_POOL)], {"n": None}] if False else [FLOAT_POOL[k % len(FLOAT_POOL)]]}
        elif pname in cls._properties and pname not in doc:
            cand = gen.value_for(pname, cls._properties[pname], ver)
        if cand is None:
            continue
        k += 1
        trial = dict(doc)
        trial[pname] = cand
        if pname == "created" and "modified" in trial:
            trial["modified"] = "2021-01-01T00:00:00.000Z"
        try:
            if cat == "objects":
                stix2.parse(trial, allow_custom=False, version=ver)
            else:
                stix2.parse_observable(trial, allow_custom=False, version=ver)
            doc = trial
        except (STIXError, ValueError, TypeError):
            continue
    return doc


def subsumes(full, val):
    """val equals full up to omitted members of (nested) objects"""
    if isinstance(val, dict):
        return isinstance(full, dict) and all(k in full and subsumes(full[k], v) for k, v in val.items())
    if isinstance(val, list):
        return isinstance(full, list) and len(full) == len(val) and all(subsumes(a, b) for a, b in zip(full, val))
    return type(full) is type(val) and full == val


def keys_in_order(text):
    return list(json.loads(text, object_pairs_hook=OrderedDict).keys())


def roundtrip_ok(o, cls, expect_order=None):
    """every option set: parse back (no version named) gives the same class and an equal object, re-serialization is byte identical, all texts
    denote the same JSON value up to omitted defaulted optionals, pretty output lists top-level properties in specification order"""
    # the other documented ways to the same text and back: str(), serialize to a file object, parse from a file object
    import io
    from stix2.serialization import fp_serialize, serialize as _serialize
    plain = o.serialize()
    buf = io.StringIO()
    fp_serialize(o, buf)
    if buf.getvalue() != plain or _serialize(o) != plain or str(o) != plain:
        return ("entry points disagree", {})
    via_file = stix2.parse(io.StringIO(plain), allow_custom=True)
    if type(via_file) is not cls or via_file != o:
        return ("parse from a file object", {})
    ref = None
    for opts in OPTION_SETS:
        text = o.serialize(**opts)
        back = stix2.parse(text, allow_custom=True)
        if type(back) is not cls or back != o:
            return ("not equal", opts)
        if back.serialize(**opts) != text:
            return ("not byte identical", opts)
        val = json.loads(text)
        full = json.loads(o.serialize(include_optional_defaults=True))
        if opts.get("include_optional_defaults"):
            if val != full:
                return ("optional defaults differ", opts)
        else:
            # compact forms may only omit optional properties that hold their default value
            if not subsumes(full, val):
                return ("compact form has other content", opts)
            for k in set(full) - set(val):
                prop = cls._properties.get(k)
                if prop is None or prop.required or not hasattr(prop, "default"):
                    return ("compact form dropped a non-default property " + k, opts)
        if ref is None:
            ref = val
        if opts.get("pretty") and expect_order is not None:
            got = keys_in_order(text)
            want = [k for k in expect_order if k in got] + sorted(k for k in got if k not in expect_order and not k.startswith("ext_"))
            ext = [k for k in got if k.startswith("ext_")]
            if [k for k in got if not k.startswith("ext_")] != [k for k in want] or (ext and got.index(ext[0]) < max(got.index(k) for k in expect_order if k in got)):
                return ("pretty order", got)
    return True


NCLS = len(CLASSES)


def roundtrip_classes(ci: int, pool: int) -> bool:
    """
    pre: 0 <= ci < NCLS and ci % NPARTS == PARTNO and 0 <= pool < 6
    post: _
    """
    ci, pool = pick(ci, NCLS), pick(pool, 6)
    with Native():
        ok = run_class_case(ci, pool) is True
    V.reached()
    return ok


def run_class_case(ci, pool):
    ver, cat, name, cls, kw = CLASSES[ci]
    base = base_doc(cls, kw)
    doc = enrich(ver, cat, name, cls, base, pool)
    o = stix2.parse(doc, allow_custom=False, version=ver) if cat == "objects" else stix2.parse_observable(doc, allow_custom=False, version=ver)
    order = _MODEL[ver][cat][name]["order"]
    r = roundtrip_ok(o, cls, order)
    if r is not True:
        return (ver, name) + r
    # with custom content: custom properties sort after the specification's properties, alphabetically
    if cat == "objects" or ver == "2.1":
        # (custom values are JSON values of any shape: nulls, empty containers and false-y values nested inside them are content like any other)
        cdoc = dict(doc, x_zz=STR_POOL[pool % len(STR_POOL)], a_note={"k": [1, 2.5], "n": None, "e": {}, "l": [None, [], {"m": None, "z": 0}], "f": False, "s": ""},
                    x_aa=INT_POOL[pool % len(INT_POOL)], x_list=[{"a": None}, None, 0])
        oc = stix2.parse(cdoc, allow_custom=True, version=ver) if cat == "objects" else stix2.parse_observable(cdoc, allow_custom=True, version=ver)
        r = roundtrip_ok(oc, cls, order)
        if r is not True:
            return (ver, name, "custom") + r
    # constructed (not parsed) from datetime values: naive, UTC-aware or in another zone, with digits below the millisecond
    kwargs = dict(doc)
    tz = (None, pytz.utc, dt.timezone(dt.timedelta(hours=-3, minutes=-30)))[pool % 3]
    nts = 0
    for pname, desc in _MODEL[ver][cat][name]["props"].items():
        if desc["kind"] == "TimestampProperty" and isinstance(kwargs.get(pname), str):
            inst = stix2.utils.parse_into_datetime(kwargs[pname])
            d = dt.datetime(inst.year, inst.month, inst.day, inst.hour, inst.minute, inst.second, 123456 if pool % 2 else inst.microsecond)
            kwargs[pname] = d if tz is None else pytz.utc.localize(d).astimezone(tz)
            nts += 1
    if nts:
        kwargs.pop("type", None)
        od = cls(**kwargs)
        r = roundtrip_ok(od, cls, order)
        if r is not True:
            return (ver, name, "from datetime") + r
    # constructed with the library's defaults (generated id, current time)
    dflt = {k: v for k, v in doc.items() if k not in ("type", "id", "created", "modified", "spec_version")}
    try:
        odf = cls(**dflt)
    except (STIXError, ValueError, TypeError):
        odf = None                                   # (the identifier is required for some classes, e.g. 2.0 bundles' members)
    if odf is not None:
        r = roundtrip_ok(odf, cls, order)
        if r is not True:
            return (ver, name, "defaults") + r
    return True


# ---- special shapes: bundles, observed-data containers, markings, toplevel-property extensions, datetime inputs in other zones
NSPECIAL = 24


def special_shapes(si: int) -> bool:
    """
    pre: 0 <= si < NSPECIAL
    post: _
    """
    si = pick(si, NSPECIAL)
    with Native():
        ok = run_special_case(si) is True
    V.reached()
    return ok


def run_special_case(si):
    ident = {"type": "identity", "spec_version": "2.1", "id": "identity--" + UU, "created": "2020-01-01T00:00:00.000001Z",
             "modified": "2020-01-01T00:00:00.120Z", "name": "é\U0001F600\n", "identity_class": "individual"}
    tool20 = {"type": "tool", "id": "tool--" + UU, "created": "2020-01-01T00:00:00.120Z", "modified": "2020-01-01T00:00:00.120Z", "name": "t", "labels": ["x"]}
    if si == 0:
        o = stix2.parse({"type": "bundle", "id": "bundle--" + UU, "objects": [ident, dict(ident, id="identity--" + gen.UU2, modified="2021-01-01T00:00:00.000Z")]})
        return roundtrip_ok(o, stix2.v21.Bundle, ["type", "id", "objects"])
    if si == 1:
        o = stix2.parse({"type": "bundle", "id": "bundle--" + UU, "spec_version": "2.0", "objects": [tool20]})
        return roundtrip_ok(o, stix2.v20.Bundle, ["type", "id", "spec_version", "objects"])
    if si == 2:
        od = {"type": "observed-data", "id": "observed-data--" + UU, "created": "2020-01-01T00:00:00.000Z", "modified": "2020-01-01T00:00:00.000Z",
              "first_observed": "2020-01-01T00:00:00.5Z", "last_observed": "2020-01-01T00:00:01Z", "number_observed": 1,
              "objects": {"0": {"type": "file", "name": "f", "size": 0, "hashes": {"MD5": "0" * 32}, "parent_directory_ref": "1",
                                "extensions": {"ntfs-ext": {"sid": "s", "alternate_data_streams": [{"name": "a", "size": 0}]}}},
                          "1": {"type": "directory", "path": "p"}, "10": {"type": "ipv4-addr", "value": "1.2.3.4"}, "2": {"type": "mutex", "name": ""}}}
        o = stix2.parse(od, version="2.0")
        return roundtrip_ok(o, stix2.v20.ObservedData, _MODEL["2.0"]["objects"]["observed-data"]["order"])
    if si == 3:
        o = stix2.parse({"type": "marking-definition", "spec_version": "2.1", "id": "marking-definition--" + UU, "created": "2020-01-01T00:00:00.000Z",
                         "definition_type": "statement", "definition": {"statement": "é"}})
        return roundtrip_ok(o, stix2.v21.MarkingDefinition, _MODEL["2.1"]["objects"]["marking-definition"]["order"])
    if si == 4:
        o = stix2.v20.TLP_WHITE
        return roundtrip_ok(o, stix2.v20.MarkingDefinition, None) if False else (stix2.parse(o.serialize(), version="2.0") == o and stix2.parse(stix2.v21.TLP_RED.serialize()) == stix2.v21.TLP_RED)
    if si == 5:
        # unregistered toplevel-property-extension: extra top-level properties are extension properties, listed after the specification's
        d = dict(ident, ext_rank=5, ext_alpha="a", extensions={"extension-definition--" + UU: {"extension_type": "toplevel-property-extension"}})
        o = stix2.parse(d)
        return roundtrip_ok(o, stix2.v21.Identity, _MODEL["2.1"]["objects"]["identity"]["order"])
    if si == 6:
        # datetime inputs: naive, pytz.utc, datetime.timezone.utc, another zone -- same instant, same text, byte-identical round trip
        texts = set()
        for tz in (None, pytz.utc, dt.timezone.utc, dt.timezone(dt.timedelta(hours=5)), pytz.timezone("US/Eastern")):
            base = dt.datetime(2020, 1, 1, 12, 0, 0, 120000)
            if tz is None:
                d = base
            elif hasattr(tz, "localize"):
                d = pytz.utc.localize(base).astimezone(tz)
            else:
                d = base.replace(tzinfo=dt.timezone.utc).astimezone(tz)
            for cls, extra in ((stix2.v21.Identity, {"identity_class": "individual"}), (stix2.v20.Identity, {"identity_class": "individual"})):
                o = cls(id="identity--" + UU, name="n", created=d, modified=d, **extra)
                r = roundtrip_ok(o, cls, None)
                if r is not True:
                    return (str(tz),) + r
                texts.add((cls.__module__, json.loads(o.serialize())["created"]))
        return len(texts) == 2 and all(t == "2020-01-01T12:00:00.120Z" for _, t in texts)
    if si == 7:
        # a key that also occurs nested with the same value must not disturb the top-level order
        d = dict(ident, x_nest={"name": ident["name"], "type": "identity", "zzz": 1, "id": ident["id"]}, x_list=[{"name": ident["name"]}])
        o = stix2.parse(d, allow_custom=True)
        return roundtrip_ok(o, stix2.v21.Identity, _MODEL["2.1"]["objects"]["identity"]["order"])
    if si == 8:
        lc = {"type": "language-content", "spec_version": "2.1", "id": "language-content--" + UU, "created": "2020-01-01T00:00:00.000Z",
              "modified": "2020-01-01T00:00:00.000Z", "object_ref": "identity--" + UU, "object_modified": "2020-01-01T00:00:00.120Z",
              "contents": {"de": {"name": "é"}, "fr": {"description": ""}}}
        o = stix2.parse(lc)
        return roundtrip_ok(o, stix2.v21.LanguageContent, _MODEL["2.1"]["objects"]["language-content"]["order"])
    if si in (10, 11):
        # bundles whose members are of the other spec version (each member is dispatched on its own content), strict and permissive first parse
        md20 = {"type": "marking-definition", "id": "marking-definition--" + UU, "created": "2020-01-01T00:00:00Z", "definition_type": "statement",
                "definition": {"statement": "s"}}
        rel20 = {"type": "relationship", "id": "relationship--" + UU, "created": "2020-01-01T00:00:00.120Z", "modified": "2020-01-01T00:00:00.120Z",
                 "relationship_type": "uses", "source_ref": "tool--" + UU, "target_ref": "identity--" + UU}
        if si == 10:
            b = {"type": "bundle", "id": "bundle--" + UU, "objects": [tool20, ident, md20, rel20]}
            bcls = stix2.v21.Bundle
        else:
            # (2.0 bundles refuse members of another version -- a documented limitation; here: members with custom content, permissive only)
            b = {"type": "bundle", "id": "bundle--" + UU, "objects": [dict(tool20, x_foo=1), dict(ident, x_bar=""), dict(rel20, x_baz=[1])]}
            bcls = stix2.v21.Bundle
        for allow in ((False, True) if si == 10 else (True,)):
            o = stix2.parse(b, allow_custom=allow)
            want = [stix2.parse(m, allow_custom=allow).__class__ for m in b["objects"]]
            if [m.__class__ for m in o.objects] != want:
                return ("member classes", allow)
            r = roundtrip_ok(o, bcls, None)
            if r is not True:
                return (allow,) + r
            back = stix2.parse(o.serialize(), allow_custom=True)
            if [m.__class__ for m in back.objects] != want:
                return ("member classes after round trip", allow)
        return True
    if si in (12, 13):
        # values taken from one object and given to a constructor of the other spec version (timestamps with digits below the millisecond,
        # embedded objects, lists): the new object must round trip like any other
        src_cls, dst_cls = (stix2.v21.Identity, stix2.v20.Identity) if si == 12 else (stix2.v20.Identity, stix2.v21.Identity)
        for ts in ("2020-01-01T00:00:00.123456Z", "2020-01-01T00:00:00.120Z", "2020-01-01T00:00:00Z", "2020-01-01T00:00:00.000001Z"):
            src = src_cls(id="identity--" + UU, name="n", identity_class="individual", created=ts, modified=ts, labels=["a"],
                          external_references=[{"source_name": "s", "external_id": "1"}])
            dst = dst_cls(id=src.id, name=src.name, identity_class=src.identity_class, created=src.created, modified=src.modified, labels=src.labels,
                          external_references=src.external_references)
            r = roundtrip_ok(dst, dst_cls, None)
            if r is not True:
                return (ts,) + r
            ind_cls = stix2.v20.Indicator if si == 12 else stix2.v21.Indicator
            extra = {"labels": ["malicious-activity"]} if si == 12 else {"pattern_type": "stix"}
            ind = ind_cls(pattern="[a:b = 1]", valid_from=src.created, created=src.modified, modified=src.modified, **extra)
            r = roundtrip_ok(ind, ind_cls, None)
            if r is not True:
                return (ts, "indicator") + r
        return True
    if si == 14:
        # timestamp OBJECTS that already carry precision metadata (another object's property value, the result of parse_into_datetime, ...)
        # given to constructors whose own slots have other settings, incl. the 2.0 marking definition that chooses its precision per input
        from stix2.utils import Precision, PrecisionConstraint, STIXdatetime
        targets = [(stix2.v20.MarkingDefinition, dict(definition_type="statement", definition={"statement": "s"})),
                   (stix2.v21.MarkingDefinition, dict(definition_type="statement", definition={"statement": "s"})),
                   (stix2.v20.Identity, dict(name="n", identity_class="individual")), (stix2.v21.Identity, dict(name="n", identity_class="individual")),
                   (stix2.v20.Sighting, dict(sighting_of_ref="indicator--" + UU)), (stix2.v21.Sighting, dict(sighting_of_ref="indicator--" + UU))]
        for p in Precision:
            for c in PrecisionConstraint:
                for us in (0, 123456, 120000, 999):
                    v = STIXdatetime(2020, 1, 1, 0, 0, 7, us, tzinfo=pytz.utc, precision=p, precision_constraint=c)
                    for cls, kw in targets:
                        kw2 = dict(kw, created=v)
                        if "modified" in cls._properties:
                            kw2["modified"] = v
                        if cls in (stix2.v20.Sighting, stix2.v21.Sighting):
                            kw2.update(first_seen=v, last_seen=v)
                        r = roundtrip_ok(cls(**kw2), cls, None)
                        if r is not True:
                            return (cls.__module__, p.name, c.name, us) + r
        return True
    if si == 17:
        # custom property names that look like numbers (the pretty printer keys nested observable mappings by number)
        names = ["10", "3", "x_a", "\u00b2", "\u0663"]
        for cls, ver in ((stix2.v20.Identity, "2.0"), (stix2.v21.Identity, "2.1")):
            for chosen in ([0, 1, 2, 3, 4], [1, 2], [3], [4, 2]):
                cp = OrderedDict((names[i], i) for i in sorted(chosen))
                try:
                    o = cls(id="identity--" + UU, name="n", identity_class="individual", created="2020-01-01T00:00:00.000Z", modified="2020-01-01T00:00:00.000Z",
                            custom_properties=cp)
                except (STIXError, ValueError):
                    continue
                rr = roundtrip_ok(o, cls, _MODEL[ver]["objects"]["identity"]["order"])
                if rr is not True:
                    return (ver, list(cp)) + rr
        return True
    if si == 22:
        # properties licensed by an UNREGISTERED toplevel-property-extension are written in the order they were given (any order would do for the
        # round trip, but it must not depend on the interpreter's hash seed: a definite order is the only observable way to say so)
        ext = {"extension-definition--" + UU: {"extension_type": "toplevel-property-extension"}}
        names = ["theta", "alpha", "iota", "beta", "eta", "zeta_long_name", "b2"]
        for cls, extra in ((stix2.v21.Identity, {"name": "x"}), (stix2.v21.File, {"name": "f"}), (stix2.v21.Relationship, {"source_ref": "malware--" + UU, "target_ref": "identity--" + UU,
                                                                                                                            "relationship_type": "uses"})):
            for perm in (names, names[::-1], names[3:] + names[:3]):
                o = cls(extensions=ext, **dict(extra, **{n: i for i, n in enumerate(perm)}))
                text = o.serialize()
                got = [k for k in keys_in_order(o.serialize(pretty=True)) if k in names]
                if got != perm:
                    return ("toplevel extension properties not in the order given", got)
                back = stix2.parse(text)
                if back != o or back.serialize() != text:
                    return ("toplevel extension properties", cls.__name__)
        return True
    if si == 23:
        # values that are not in the form the library writes (bytes for a binary property, text for numbers and booleans): the object holds what
        # it writes, so that it equals what is read back
        cases = [lambda: stix2.v21.Artifact(payload_bin=b"aGVsbG8=", mime_type="text/plain"), lambda: stix2.v20.Artifact(payload_bin=bytearray(b"aGVsbG8="), mime_type="text/plain"),
                 lambda: stix2.v21.File(name="f", size="12"), lambda: stix2.v21.Malware(name="m", is_family="true"), lambda: stix2.v21.Location(latitude="1.5", longitude=2),
                 lambda: stix2.v21.Process(pid="7", is_hidden="false"), lambda: stix2.v21.Identity(name="i", confidence="0", revoked="false")]
        for mk in cases:
            o = mk()
            back = stix2.parse(o.serialize())
            if type(back) is not type(o) or back != o or back.serialize() != o.serialize():
                return ("value not held in the written form", o.serialize()[:80])
        return True
    if si in (20, 21):
        # one type name offered to two registration decorators (observable then object: si 20; object then observable: si 21), whatever each of
        # them answers: instances of every class that WAS registered still come back as that class, alone and as bundle members
        from stix2 import registry
        saved = {ver: {cat: dict(m) for cat, m in cats.items()} for ver, cats in registry.STIX2_OBJ_MAPS.items()}
        try:
            name = "x-dual-%d" % (len(registry.STIX2_OBJ_MAPS["2.1"]["objects"]) + len(registry.STIX2_OBJ_MAPS["2.1"]["observables"]) + si)
            made = []

            def reg_sco():
                @stix2.v21.CustomObservable(name, [("val", P.StringProperty(required=True))], ["val"])
                class DualSco(object):
                    pass
                made.append((DualSco, dict(val="v")))

            def reg_sdo():
                @stix2.v21.CustomObject(name, [("title", P.StringProperty(required=True))])
                class DualSdo(object):
                    pass
                made.append((DualSdo, dict(title="t")))
            for step in ((reg_sco, reg_sdo) if si == 20 else (reg_sdo, reg_sco)):
                try:
                    step()
                except (STIXError, ValueError):
                    pass
            if not made:
                return ("neither registration accepted",)
            for cls, kw in made:
                o = cls(**kw)
                rr = roundtrip_ok(o, cls, None)
                if rr is not True:
                    return ("same name in two categories", cls.__name__) + rr
                b = stix2.v21.Bundle(o)
                back = stix2.parse(b.serialize())
                if type(back.objects[0]) is not cls or back.objects[0] != o:
                    return ("same name in two categories, bundle member", cls.__name__)
            return True
        finally:
            for ver, cats in saved.items():
                for cat, m in cats.items():
                    registry.STIX2_OBJ_MAPS[ver][cat].clear()
                    registry.STIX2_OBJ_MAPS[ver][cat].update(m)
    if si in (18, 19):
        # classes that have never been instantiated in this process (types registered here), whose FIRST instance carries a registered
        # toplevel-property extension with defaulted properties; later instances without the extension hold custom properties of the same names
        # with the default values (si 18), or the other way round (si 19).  Whatever an instance holds is written and read back.
        from stix2 import registry
        saved = {ver: {cat: dict(m) for cat, m in cats.items()} for ver, cats in registry.STIX2_OBJ_MAPS.items()}
        try:
            n = len(registry.STIX2_OBJ_MAPS["2.1"]["extensions"])
            ext = "extension-definition--c01c01c0-f010-4473-83ec-1edf8485%04x" % (n + si)

            @stix2.v21.CustomExtension(ext, [("x_level", P.IntegerProperty(default=lambda: 0)), ("x_on", P.BooleanProperty(default=lambda: False)),
                                             ("x_tag", P.StringProperty(default=lambda: "none"))])
            class Dflt(object):
                extension_type = "toplevel-property-extension"

            @stix2.v21.CustomObject("x-fresh-%d" % (n + si), [("name", P.StringProperty(required=True))])
            class Fresh(object):
                pass

            @stix2.v21.CustomObservable("x-fresh-sco-%d" % (n + si), [("name", P.StringProperty(required=True))], ["name"])
            class FreshSco(object):
                pass
            with_ext = lambda cls: cls(name="a", extensions={ext: {"extension_type": "toplevel-property-extension"}})      # noqa: E731
            coincide = lambda cls: cls(name="b", x_level=0, x_on=False, x_tag="none", allow_custom=True)                     # noqa: E731
            for cls in (Fresh, FreshSco):
                order = (with_ext, coincide, with_ext, coincide) if si == 18 else (coincide, with_ext, coincide)
                for mk in order:
                    o = mk(cls)
                    j = json.loads(o.serialize())
                    if mk is coincide and (j.get("x_level") != 0 or j.get("x_on") is not False or j.get("x_tag") != "none"):
                        return ("custom properties that coincide with an extension's defaults were not written", sorted(j))
                    back = stix2.parse(o.serialize(), allow_custom=True)
                    if type(back) is not cls or back != o or back.serialize() != o.serialize():
                        return ("fresh class", cls.__name__, mk is coincide)
                    full = json.loads(o.serialize(include_optional_defaults=True))
                    if mk is with_ext and (full.get("x_level") != 0 or full.get("x_tag") != "none"):
                        return ("extension defaults missing from the include_optional_defaults form",)
            return True
        finally:
            for ver, cats in saved.items():
                for cat, m in cats.items():
                    registry.STIX2_OBJ_MAPS[ver][cat].clear()
                    registry.STIX2_OBJ_MAPS[ver][cat].update(m)
    if si in (15, 16):
        from stix2 import registry
        saved = {ver: {cat: dict(m) for cat, m in cats.items()} for ver, cats in registry.STIX2_OBJ_MAPS.items()}
        try:
            if si == 15:
                # content of a type is seen BEFORE the type is registered (returned as a dictionary / refused), then the type is registered:
                # from then on its objects round trip like any other, alone and as bundle members
                raw = {"type": "x-late-type", "spec_version": "2.1", "id": "x-late-type--" + UU, "created": "2020-01-01T00:00:00.000Z",
                       "modified": "2020-01-01T00:00:00.000Z", "prop_one": "v"}
                rawsco = {"type": "x-late-sco", "spec_version": "2.1", "id": "x-late-sco--" + UU, "prop_one": "v"}
                for r in (raw, rawsco):
                    if not isinstance(stix2.parse(r, allow_custom=True), dict):
                        return ("unregistered type not kept as a dictionary",)
                    try:
                        stix2.parse(r, allow_custom=False)
                        return ("unregistered type accepted in strict mode",)
                    except (STIXError, ValueError):
                        pass

                @stix2.v21.CustomObject("x-late-type", [("prop_one", P.StringProperty(required=True))])
                class Late(object):
                    pass

                @stix2.v21.CustomObservable("x-late-sco", [("prop_one", P.StringProperty(required=True))], ["prop_one"])
                class LateSco(object):
                    pass
                for cls, r in ((Late, raw), (LateSco, rawsco)):
                    o = stix2.parse(r, allow_custom=False)
                    if type(o) is not cls:
                        return ("registered type not parsed to its class", cls.__name__)
                    rr = roundtrip_ok(o, cls, None)
                    if rr is not True:
                        return (cls.__name__,) + rr
                b = stix2.v21.Bundle(objects=[Late(prop_one="a"), LateSco(prop_one="b"), raw])
                rr = roundtrip_ok(b, stix2.v21.Bundle, None)
                if rr is not True:
                    return ("bundle",) + rr
                back = stix2.parse(b.serialize())
                return [type(m) for m in back.objects] == [Late, LateSco, Late]
            # a registered toplevel-property extension given as a ready-made INSTANCE, and objects rebuilt from a finished object's values
            ext_id = "extension-definition--abababab-f010-4473-83ec-1edf84858f4c"

            @stix2.v21.CustomExtension(ext_id, [("rank_t", P.IntegerProperty(required=True)), ("seen_t", P.TimestampProperty())])
            class TopExt(object):
                extension_type = "toplevel-property-extension"
            import copy as _copy
            o = stix2.v21.Identity(id="identity--" + UU, name="n", identity_class="individual", created="2020-01-01T00:00:00.000Z",
                                   modified="2020-01-01T00:00:00.000Z", extensions={ext_id: TopExt()}, rank_t=3, seen_t="2020-01-01T00:00:00.120Z")
            order = _MODEL["2.1"]["objects"]["identity"]["order"]
            for variant in (o, _copy.deepcopy(o), o.new_version(name="m"), stix2.markings.add_markings(o, "marking-definition--613f2e26-407d-48c7-9eca-b8e91df99dc9"),
                            stix2.parse(o.serialize()), stix2.v21.Bundle(o).objects[0]):
                if variant.has_custom or not isinstance(variant["seen_t"], dt.datetime):
                    return ("extension property treated as custom content",)
                rr = roundtrip_ok(variant, stix2.v21.Identity, None)
                if rr is not True:
                    return rr
                got = keys_in_order(variant.serialize(pretty=True))
                if got.index("rank_t") < got.index("extensions") or [k for k in got if k in order] != [k for k in order if k in got]:
                    return ("pretty order", got)
            return True
        finally:
            for ver, cats in saved.items():
                for cat, m in cats.items():
                    registry.STIX2_OBJ_MAPS[ver][cat].clear()
                    registry.STIX2_OBJ_MAPS[ver][cat].update(m)
    sco = {"type": "network-traffic", "id": "network-traffic--" + UU, "protocols": ["tcp"], "src_ref": "ipv4-addr--" + UU, "src_port": 0, "is_active": False,
           "start": "2020-01-01T00:00:00.000001Z", "extensions": {"http-request-ext": {"request_method": "get", "request_value": "/", "request_header": {"A-b": ["é"]}},
                                                                   "tcp-ext": {"src_flags_hex": "00"}}}
    o = stix2.parse(sco)
    return roundtrip_ok(o, stix2.v21.NetworkTraffic, _MODEL["2.1"]["observables"]["network-traffic"]["order"])


# ---- pretty ordering kernel with symbolic (possibly equal) nested values
class Ord(_STIXBase21):
    _type = "ord"
    _properties = OrderedDict([("type", P.StringProperty()), ("zeta", P.IntegerProperty()), ("alpha", P.IntegerProperty()),
                               ("nest", P.DictionaryProperty(spec_version="2.1"))])


def pretty_order_kernel(z: int, a: int, nz: int, na: int, has_nest: bool, x: int) -> bool:
    """
    pre: 0 <= z <= 2 and 0 <= a <= 2 and 0 <= nz <= 2 and 0 <= na <= 2 and 0 <= x <= 2
    post: _
    """
    o = Ord.__new__(Ord)
    inner = OrderedDict([("type", "ord"), ("zeta", z), ("alpha", a)])
    if has_nest:
        inner["nest"] = {"alpha": na, "zeta": nz, "x_c": x}
    inner["x_c"] = x
    o.__dict__["_inner"] = inner
    keys = sorted(inner.items(), key=lambda kv: find_property_index(o, *kv))
    V.reached()
    return [k for k, _ in keys] == list(inner.keys())
