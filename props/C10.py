"""C10 -- pattern text and pattern object model convert into each other faithfully."""
from engine.spec import CH, JOB

H = "props.h_C10"
FV = ["stix2.pattern_visitor.STIXPatternVisitorForSTIX2." + m for m in (
    "visitPropTestEqual", "visitPropTestOrder", "visitPropTestSet", "visitPropTestLike", "visitPropTestRegex", "visitPropTestIsSubset",
    "visitPropTestIsSuperset", "visitComparisonExpression", "visitComparisonExpressionAnd", "visitObservationExpressions",
    "visitObservationExpressionOr", "visitObservationExpressionAnd", "visitObjectPath", "visitTerminal")]
FP = ["stix2.patterns._ComparisonExpression.__str__", "stix2.patterns._BooleanExpression.__str__", "stix2.patterns._CompoundObservationExpression.__str__",
      "stix2.patterns.ObservationExpression.__str__", "stix2.patterns.ParentheticalExpression.__str__", "stix2.patterns.ObjectPath.__str__",
      "stix2.patterns.quote_if_needed", "stix2.patterns.escape_quotes_and_backslashes", "stix2.patterns.StringConstant.__str__"]
ANTLR = "the ANTLR lexer/parser of stix2patterns is trusted (it turns text into the parse tree the visitor walks)"

META = {
    "engines": ["crosshair", "pysym"],
    "level_text": "Bounded model checking of the real visitor and printers: every prop-test visitor method on stubbed children for every operator "
                  "token x NOT present/absent with a symbolic constant (expected class, operator and negation parity, incl. NOT !=); every "
                  "comparison of a generator (11 operators x legal constant kinds x 15 object paths incl. quoted (also non-ASCII, also followed by an index or [*]), indexed, reference and hash steps "
                  "x NOT) and every 3-atom boolean shape (AND/OR x 3 parenthesisations) and 3-observation shape (AND/OR/FOLLOWEDBY x 3 "
                  "parenthesisations x 4 qualifiers x 3 positions) through the real parser: the model tree must equal the generator's own tree, the "
                  "printed text must parse back to it and printing must be a fixed point; programmatic models with strings needing escapes; "
                  "escape_quotes_and_backslashes is interpreted symbolically (pysym) for all printable-ASCII strings up to 4 (quick) / 6 "
                  "(thorough) characters against an independent model of the StringLiteral lexer rule.",
    "level_text_more": 'Also: 7 four-atom AND/OR shapes over every assignment of 3 object types (satisfiable patterns must be accepted), 9 programmatic object paths (list/reference/basic components, names needing quotes), and reuse of a shared sub-expression in two expressions. Non-ASCII step names; the rule \'printed bare iff a grammar identifier\' decided by regex inclusion over all strings. Rounds 5-6: quoted path steps that need escapes; floats of 7-17 digits and of magnitudes Python writes with an exponent.',
    "level_note": "ANTLR lexer/parser trusted. Generator-driven obligations are selector-enumerated (E1s). STIX 2.0 grammar, patterns with more than 3 "
                  "atoms/observations, and START/STOP with string constants are outside the claim.",
    "technique": "CrossHair on the real visitor methods with stubbed children (symbolic NOT/operator/constant), solver-selected generator cases through "
                 "the real parser with tree comparison, AST-to-SMT interpretation of the escaping kernel, regex-to-z3 inclusion for the quoting rule; counterexamples replayed natively",
    "outside": ["ANTLR lexer/parser", "2.0 grammar", "patterns larger than 4 atoms / 3 observations"],
    "assumptions": [ANTLR],
}


def obligations(tier):
    t = 300 if tier == "quick" else 900
    return [
        CH("visitor_negation_and_operator", H, "visitor_prop_tests", t, functions=FV[:7],
           bounds="7 visitor methods x every operator token x NOT flag (symbolic) x unbounded int constant"),
        CH("comparisons_roundtrip", H, "comparisons", t, mode="E1s", functions=FV + FP, stubs=[ANTLR],
           bounds="22 (operator, constant kind) atoms x 15 object paths x NOT"),
        CH("boolean_structure", H, "boolean_structure", t, mode="E1s", functions=FV[7:9] + FP, stubs=[ANTLR],
           bounds="3 parenthesisations x AND/OR x AND/OR x atoms (%s x 4 x 4) x NOT" % ("8" if tier == "quick" else "22")),
        CH("observation_structure", H, "observation_structure", t, mode="E1s", functions=FV[9:12] + FP, stubs=[ANTLR],
           bounds="3 parenthesisations x 3x3 operators x 4 qualifiers x 3 positions x %s atoms" % ("4" if tier == "quick" else "22")),
        CH("programmatic_models", H, "programmatic", t, mode="E1s", functions=FP, stubs=[ANTLR],
           bounds="7 strings needing escapes/quotes x 3 model shapes (AND list, parenthetical OR, qualified FOLLOWEDBY) x NOT x 4 comparison classes"),
        CH("mixed_object_types", H, "mixed_types", t, mode="E1s", functions=FV[7:9] + ["stix2.patterns._BooleanExpression.__init__"] + FP, stubs=[ANTLR],
           bounds="7 four-atom AND/OR shapes x 3^4 assignments of 3 object types; patterns with an AND over disjoint types carry no claim"),
        CH("programmatic_paths", H, "programmatic_paths", t, mode="E1s", functions=FP + ["stix2.patterns.ListObjectPathComponent.__str__",
           "stix2.patterns._ObjectPathComponent.create_ObjectPathComponent", "stix2.patterns.ObjectPath.make_object_path"], stubs=[ANTLR],
           bounds="10 programmatic object paths (list/reference/basic components, names needing quotes, string lhs) x NOT x 3 wrappers"),
        CH("programmatic_reuse", H, "programmatic_reuse", t, mode="E1s", functions=["stix2.patterns._BooleanExpression.__init__",
           "stix2.patterns.ParentheticalExpression.__init__"], bounds="a shared parenthetical OR used in two AND/OR expressions x 3^4 object types"),
        CH("whole_expression_in_parentheses", H, "whole_group", t, mode="E1s", functions=FV + FP + ["stix2.pattern_visitor.STIXPatternVisitorForSTIX2.visitPropTestParen"], stubs=[ANTLR],
           bounds="8 shapes where the whole comparison expression of an observation is one (doubly) parenthesised group, bare or qualified or combined x AND/OR x atoms x NOT "
                  "x parsed / re-assembled from the model classes"),
        CH("caller_supplied_node_classes", H, "override_classes", t, mode="E1s", functions=["stix2.pattern_visitor.STIXPatternVisitorForSTIX2.instantiate",
           "stix2.pattern_visitor.STIXPatternVisitorForSTIX2.get_class", "stix2.patterns.StringConstant.__init__"], stubs=[ANTLR],
           bounds="8 patterns with strings needing escapes, binary/hex constants and quoted/indexed steps, parsed with module_suffix/module_name overrides for 10 node classes"),
        CH("exists_comparison", H, "exists_test", t, mode="E1s", functions=FV[-2:], stubs=[ANTLR], finding="C10-exists", bounds="[NOT] EXISTS x 3 paths"),
        JOB("path_step_quoting_rule", "props.j_regex", "job_path_step", 120, engine="re2z3", functions=FP[6:7],
            bounds="all strings: printed bare iff in the grammar's IdentifierWithoutHyphen (regex inclusion both ways)"),
        JOB("string_escaping", "props.j_esc", "job_escape", 600, functions=FP[7:8],
            bounds="every printable-ASCII string of length <= %d (symbolic characters)" % (4 if tier == "quick" else 6)),
    ]
