"""C16 -- canonical JSON output conforms to RFC 8785."""
from engine.spec import CH, JOB

J = "props.j_num"
FN = ["stix2.canonicalization.NumberToJson.convert2Es6Format"]
FE = ["stix2.canonicalization.Canonicalize._make_iterencode", "stix2.canonicalization.Canonicalize.py_encode_basestring",
      "stix2.canonicalization.Canonicalize.canonicalize", "stix2.canonicalization.Canonicalize.JSONEncoder.encode"]
REPR = "str(float): CPython shortest-repr rendering of symbolic digits D and point position k (contract-tested vs real repr); C dtoa digit generation trusted"

META = {
    "engines": ["pysym", "re2z3", "crosshair"],
    "level_text": "Bounded symbolic model checking of the real canonicalization code: convert2Es6Format's AST is interpreted over symbolic decimal "
                  "digits for every shape (sign x 1-17 significant digits x decimal point position; quick: positions -12..26 plus extremes, thorough: "
                  "all -330..310) and each path's output is proved equal to ECMAScript Number::toString by a QF_LIA query; the member-sort key "
                  "function is interpreted on two symbolic keys over all of Unicode against UTF-16 code-unit order; the escape character class is "
                  "decided for every code point by regex inclusion; the encoder structure is model-checked on bounded trees with CrossHair.",
    "level_text_more": 'Also: the structure harness has float leaves: 15 doubles with known ES6 answers (RFC 8785 appendix B forms) and non-finite values, which must be refused at any position. Rounds 5-6: every structure case runs after a fixed module history (refused / accepted serialize() and canonicalize() calls).',
    "level_note": "Trusted/stubbed: C dtoa shortest digits and the repr model (contract-tested), str.encode('utf-16_be') model, re.sub applying the "
                  "replacement per matching character, the C _json.encode_basestring (tied to the python encoder by an exhaustive single-code-point "
                  "contract test, labelled enumeration). Trees > 3 nodes / nesting > 2 and strings beyond the pools are outside the structure claim.",
    "technique": "AST-to-SMT symbolic interpretation (pysym/z3 QF_LIA) of the number formatter and sort key, regex-to-z3 inclusion for escaping, "
                 "CrossHair on the encoder; witnesses replayed natively",
    "outside": ["shortest-digit generation (C dtoa)", "C string encoder beyond the single-code-point contract test", "trees larger than 3 leaves",
                "non-string dictionary keys"],
    "assumptions": [REPR],
}


def obligations(tier):
    nparts = 4 if tier == "quick" else 16
    obls = [JOB("numbers_es6_part%d" % i, J, "job_num_%d" % i, 900, functions=FN, stubs=[REPR],
                bounds="shapes: sign x 1..17 digits x point position %s; digits symbolic; partition %d/%d" % (
                    "-12..26 and 8 extremes" if tier == "quick" else "-330..310", i, nparts)) for i in range(nparts)]
    obls.append(JOB("member_order_utf16", J, "job_keyorder", 300, functions=FE[:1],
                    stubs=["str.encode('utf-16_be'): BMP -> one unit, astral -> surrogate pair, big-endian bytes; bytes compare lexicographically"],
                    bounds="two keys of 1..%d code points each, every code point 0..10FFFF except surrogates (symbolic)" % (2 if tier == "quick" else 3)))
    obls.append(JOB("escaping_rfc8785", J, "job_escape", 300, engine="re2z3", functions=FE[1:2],
                    stubs=["re.sub replaces each matching character", "C encode_basestring tied by exhaustive single-code-point contract test"],
                    bounds="every single code point (symbolic char, regex inclusion); 34-entry replacement table"))
    for part in range(20):
        obls.append(CH("encoder_structure_p%02d" % part, "props.h_C16", "struct", 120 if tier == "quick" else 600, mode="E1s",
                       functions=FE, env={"VERIF_PART": str(part)},
                       bounds="tree shape %d of 4, key set %d of 5 (incl. astral-vs-high-BMP, escapes), leaf kinds null/bool/str/int/float (15 doubles incl. non-finite, known ES6 answers), all insertion "
                              "orders; selector-enumerated%s" % (part // 5, part % 5, " (third leaf kind tied)" if tier == "quick" else "")))
    return obls
