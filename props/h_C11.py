"""C11 harnesses: memory and filesystem stores agree with a plain list over any history of additions."""
import json

import stix2
from stix2.datastore import CompositeDataSource
from stix2.datastore import DataSourceError
from stix2.datastore import filesystem as F
from stix2.datastore import memory as M
from stix2.datastore.filters import Filter

from engine.hlib import Native, Part, TIER, V, pick, pickb
from props import fakefs

PARTNO = Part.index
QUICK = TIER == "quick"
IDS = ["identity--311b2d2d-f010-4473-83ec-1edf84858f4c",          # registered type, lower-case id
       "identity--0F862B01-99DA-47CC-9BDB-DB4A86A95BB1",          # registered type, upper-case hex digits in the id
       "x-acme-widget--511b2d2d-f010-4473-83ec-1edf84858f4c",     # unregistered custom type, kept as a dictionary
       "tool--611b2d2d-f010-4473-83ec-1edf84858f4c"]              # STIX 2.0 object
NID = len(IDS)
MODS = ["2020-01-01T00:00:00.000Z", "2020-01-01T00:00:00.001Z", "2021-06-15T12:30:00.000Z"]
UNVERSIONED = {"type": "marking-definition", "spec_version": "2.1", "id": "marking-definition--711b2d2d-f010-4473-83ec-1edf84858f4c",
               "created": "2019-01-01T00:00:00.000Z", "definition_type": "statement", "definition": {"statement": "s"}}


# an unversioned object of the SAME type as the dict-kept versioned ones (no modified: stored flat, next to the per-id directories)
UNVERSIONED2 = {"type": "x-acme-widget", "spec_version": "2.1", "id": "x-acme-widget--911b2d2d-f010-4473-83ec-1edf84858f4c", "x_payload": {"k": [0]}}


def ver(i, m):
    id_ = IDS[i]
    t = id_.split("--")[0]
    d = {"type": t, "id": id_, "created": "2019-01-01T00:00:00.000Z", "modified": MODS[m], "name": "n%d%d" % (i, m)}
    if t == "identity":
        d["spec_version"] = "2.1"
        d["identity_class"] = "individual"
    elif t == "tool":
        d["labels"] = ["remote-access"]
    else:
        d["spec_version"] = "2.1"
        d["x_payload"] = {"k": [1, 2.5, "é\U0001F600"]}
    return d


def form_of(d, form):
    """the documented input forms"""
    if form == 0:
        o = stix2.parse(d, allow_custom=True)
        return o
    if form == 1:
        return dict(d)
    if form == 2:
        return [dict(d)]
    if form == 3:
        return {"type": "bundle", "id": "bundle--811b2d2d-f010-4473-83ec-1edf84858f4c", "objects": [dict(d)]} if "spec_version" in d else \
            {"type": "bundle", "id": "bundle--811b2d2d-f010-4473-83ec-1edf84858f4c", "spec_version": "2.0", "objects": [dict(d)]}
    return json.dumps(d)            # JSON text (documented for the filesystem sink)


def norm(o):
    """value of an object as plain JSON with timestamps as instants"""
    j = json.loads(o.serialize()) if hasattr(o, "serialize") else json.loads(json.dumps(o, default=stix2.utils.format_datetime))
    for k in ("created", "modified"):
        if k in j:
            j[k] = stix2.utils.format_datetime(stix2.utils.parse_into_datetime(j[k], "millisecond"))
    return json.dumps(j, sort_keys=True)


# an identity written by hand in the OLD layout (<type>/<id>.json, no per-id directory), which the library still reads
LEGACY = {"type": "identity", "spec_version": "2.1", "id": "identity--a11b2d2d-f010-4473-83ec-1edf84858f4c", "created": "2019-01-01T00:00:00.000Z",
          "modified": "2020-01-01T00:00:00.000Z", "name": "legacy", "identity_class": "individual"}
QUERIES = [
    ([], lambda d: True),
    ([Filter("type", "=", "identity"), Filter("modified", ">", MODS[0])], lambda d: d["type"] == "identity" and d.get("modified", "") > MODS[0]),
    # properties that hold their default value are not written to disk, but a query on them still finds the object
    ([Filter("revoked", "=", False)], lambda d: d["type"] in ("identity", "tool")),
    ([Filter("revoked", "!=", True), Filter("type", "!=", "tool")], lambda d: d["type"] == "identity"),
    # an id whitelist that spans two types, each possibly with several versions
    ([Filter("id", "in", [IDS[0], IDS[3], IDS[2]])], lambda d: d["id"] in (IDS[0], IDS[3], IDS[2])),
    # ... with fewer ids than one of them has versions, and with an id stored in the old flat layout next to versioned ones
    ([Filter("id", "in", [IDS[3], IDS[0]])], lambda d: d["id"] in (IDS[0], IDS[3])),
    ([Filter("id", "in", [LEGACY["id"], IDS[2], IDS[1]])], lambda d: d["id"] in (LEGACY["id"], IDS[2], IDS[1])),
    ([Filter("id", "=", IDS[0]), Filter("type", "in", ["identity", "tool"])], lambda d: d["id"] == IDS[0]),
]


def check_stores(stores, model, extras):
    """every lookup / query of every store against the list model (versions added: model; other content: extras)"""
    content = [ver(i, m) for (i, m) in model] + list(extras)
    for s in stores:
        for q in range(NID):
            want = [m for (i, m) in model if i == q]
            got = s.get(IDS[q])
            if not want:
                if got is not None or s.all_versions(IDS[q]):
                    return False
                continue
            if got is None or norm(got) != norm(ver(q, max(want))):
                return False
            if sorted(norm(o) for o in s.all_versions(IDS[q])) != sorted(norm(ver(q, m)) for m in want):
                return False
        for filters, pred in QUERIES:
            if sorted(norm(o) for o in s.query(list(filters))) != sorted(norm(d) for d in content if pred(d)):
                return False
        for u in extras:
            g = s.get(u["id"])
            if g is None or norm(g) != norm(u):
                return False
            if [norm(o) for o in s.all_versions(u["id"])] != [norm(u)]:
                return False
    return True


def run(adds, with_unversioned, save_load, bundlify=False, interleave=True, start=None):
    """adds: list of (id idx, mod idx, form).  Both stores vs the list model; returns True iff they agree everywhere.
    The stores live through the whole history and (interleave) answer every question before the first and after every addition.
    start: 0 nothing on disk, 1 empty type directories made beforehand, 2 an identity in the old flat layout written by hand."""
    if start is None:
        start = (sum(i + m for (i, m, _f) in adds) + len(adds)) % 3
    ffs = fakefs.FakeFS()
    saved = fakefs.install(F, ffs)
    saved_m = (M.os, M.io) if save_load else None
    if save_load:
        fakefs.install(M, ffs)
    try:
        fstore = F.FileSystemStore("/fs", allow_custom=True, bundlify=bundlify)      # bundlify: every file holds the object wrapped in a bundle
        mstore = M.MemoryStore(allow_custom=True)
        model = []
        extras = []
        if start == 1:
            for t in ("identity", "tool", "x-acme-widget", "marking-definition"):
                ffs.makedirs("/fs/" + t)
        elif start == 2:
            ffs.makedirs("/fs/identity")
            with ffs.open("/fs/identity/%s.json" % LEGACY["id"], "w") as fh:
                fh.write(json.dumps(LEGACY))
            mstore.add(dict(LEGACY))
            extras.append(LEGACY)
        if interleave and not check_stores((fstore, mstore), model, extras):
            return False
        if with_unversioned:
            for u in (UNVERSIONED, UNVERSIONED2):
                fstore.add(dict(u))
                mstore.add(dict(u))
                extras.append(u)
        for (i, m, form) in adds:
            d = ver(i, m)
            # every second 2.1 addition is written WITHOUT its spec_version member and the version is named by the caller instead (dictionary,
            # list and JSON-text forms): what is stored is the 2.1 object all the same
            named = d.get("spec_version") == "2.1" and d["type"] == "identity" and (i + m) % 2 == 0 and form in (1, 2, 4)
            src = {k: v for k, v in d.items() if k != "spec_version"} if named else d
            kw = {"version": "2.1"} if named else {}
            try:
                fstore.add(form_of(src, form if form != 4 else 4), **kw)
            except DataSourceError:
                if (i, m) not in model:
                    return False          # loud refusal is only acceptable for a version that is already stored
            mstore.add(form_of(src, form if form != 4 else 1), **kw)
            if (i, m) not in model:
                model.append((i, m))
            if interleave and not check_stores((fstore, mstore), model, extras):
                return False          # the same long-lived stores answered before this addition: they must see it now
        if save_load:
            path = mstore.save_to_file("/save/out/bundle.json")
            mstore = M.MemoryStore(allow_custom=True)
            mstore.load_from_file(path)
            if len(adds) >= 2:
                # loading is adding: a store that already holds the first addition loads a file with the later ones (possibly other versions
                # of the same id) and holds them all afterwards; loading the same file twice changes nothing
                part, rest = M.MemoryStore(allow_custom=True), M.MemoryStore(allow_custom=True)
                part.add(dict(ver(adds[0][0], adds[0][1])))
                for (i, m, _f) in adds[1:]:
                    rest.add(dict(ver(i, m)))
                p2 = rest.save_to_file("/save/out/rest.json")
                part.load_from_file(p2)
                if not check_stores((part,), model, []):
                    return False
                part.source.load_from_file(p2)
                if not check_stores((part,), model, []):
                    return False
        if not check_stores((fstore, mstore), model, extras):
            return False
        # the same directory reached through symbolic links (a linked type directory, linked per-id directories / files): same content
        ffs.makedirs("/view")
        for k, t in enumerate(sorted(ffs.listdir("/fs"))):
            if k % 2 == 0:
                ffs.symlink("/fs/" + t, "/view/" + t)
            else:
                ffs.makedirs("/view/" + t)
                for e in ffs.listdir("/fs/" + t):
                    ffs.symlink("/fs/%s/%s" % (t, e), "/view/%s/%s" % (t, e))
        return check_stores((F.FileSystemSource("/view", allow_custom=True),), model, extras)
    finally:
        F.os, F.io = saved
        if saved_m:
            M.os, M.io = saved_m


def hist3(i1: int, m1: int, i2: int, m2: int, i3: int, m3: int) -> bool:
    """
    pre: 0 <= i1 < NID and i1 == PARTNO
    pre: 0 <= i2 < NID and 0 <= i3 < NID and 0 <= m1 < 3 and 0 <= m2 < 3 and 0 <= m3 < 3
    post: _
    """
    adds = [(pick(i1, NID), pick(m1, 3)), (pick(i2, NID), pick(m2, 3)), (pick(i3, NID), pick(m3, 3))]
    adds = [(i, m, (i + m + k) % 5) for k, (i, m) in enumerate(adds)]
    with Native():
        ok = run(adds, adds[0][1] == 1, adds[1][1] == 2)
    V.reached()
    return ok


def hist2_forms(i1: int, m1: int, f1: int, i2: int, m2: int, f2: int, sl: bool) -> bool:
    """
    pre: 0 <= i1 < NID and 0 <= i2 < NID and 0 <= m1 < 3 and 0 <= m2 < 3 and 0 <= f1 < 5 and 0 <= f2 < 5
    pre: f1 == PARTNO
    post: _
    """
    adds = [(pick(i1, NID), pick(m1, 3), pick(f1, 5)), (pick(i2, NID), pick(m2, 3), pick(f2, 5))]
    sl = bool(sl)
    with Native():
        ok = run(adds, True, sl, bundlify=(adds[0][1] + adds[1][1]) % 2 == 1)
    V.reached()
    return ok


FMODS = ["2020-01-01T00:00:00.001Z", "2020-01-01T00:00:00.0011Z", "2020-01-01T00:00:01Z"]      # texts whose order as strings differs from their order as instants
FINST = [1000, 1100, 1000000]


def family(i1: int, i2: int, i3: int) -> bool:
    """
    pre: 0 <= i1 < 3 and 0 <= i2 < 3 and 0 <= i3 < 3
    post: _
    """
    fam = M._ObjectFamily()
    objs = [{"id": "a", "modified": FMODS[i], "n": k} for k, i in enumerate((i1, i2, i3))]
    for o in objs:
        fam.add(o)
    V.reached()
    best = max((i1, i2, i3), key=lambda i: FINST[i])
    return fam.latest_version["modified"] == FMODS[best] and len(fam.all_versions) == len({i1, i2, i3}) and \
        sorted(o["modified"] for o in fam.all_versions.values()) == sorted({FMODS[i1], FMODS[i2], FMODS[i3]})


# ---- versions that differ below the millisecond (legal in 2.1), in several spellings; registered type and dict-kept unregistered type
SUBMS = ["2020-01-01T00:00:00.0011Z", "2020-01-01T00:00:00.0019Z", "2020-01-01T00:00:00.001Z", "2020-01-01T00:00:00.001100Z", "2020-01-01T00:00:00.002Z"]
NSUB = len(SUBMS)


def submillisecond_versions(i: int, a: int, b: int, c: int, f1: int, f2: int) -> bool:
    """
    pre: 0 <= i <= 1 and 0 <= a < NSUB and 0 <= b < NSUB and 0 <= c < NSUB and 0 <= f1 < 5 and 0 <= f2 < 5
    pre: i * 5 + f1 == PARTNO
    post: _
    """
    i, a, b, c, f1, f2 = pick(i, 2), pick(a, NSUB), pick(b, NSUB), pick(c, NSUB), pick(f1, 5), pick(f2, 5)
    with Native():
        ok = run_subms(i, [a, b, c], [f1, f2, (f1 + f2) % 5])
    V.reached()
    return ok


def run_subms(i, mods, forms):
    idx = (0, 2)[i]
    inst = lambda t: stix2.utils.parse_into_datetime(t if isinstance(t, str) else stix2.utils.format_datetime(t))   # noqa: E731
    ffs = fakefs.FakeFS()
    saved = fakefs.install(F, ffs)
    try:
        fstore = F.FileSystemStore("/fs", allow_custom=True)
        mstore = M.MemoryStore(allow_custom=True)
        seen = []
        for m, form in zip(mods, forms):
            d = dict(ver(idx, 0), modified=SUBMS[m], name="n%d" % m)
            dup = inst(SUBMS[m]) in seen
            try:
                fstore.add(form_of(d, form))
            except DataSourceError:
                if not dup:
                    return False          # a different version was refused
            mstore.add(form_of(d, form if form != 4 else 1))
            if not dup:
                seen.append(inst(SUBMS[m]))
        for s in (fstore, mstore):
            allv = s.all_versions(IDS[idx])
            if sorted(inst(o["modified"]) for o in allv) != sorted(seen):
                return False
            g = s.get(IDS[idx])
            if g is None or inst(g["modified"]) != max(seen):
                return False
            q = s.query([Filter("id", "=", IDS[idx]), Filter("modified", ">", "2020-01-01T00:00:00.0011Z")])
            if sorted(inst(o["modified"]) for o in q) != sorted(x for x in seen if x > inst("2020-01-01T00:00:00.0011Z")):
                return False
        # a composite over one source per version picks the greatest instant too, whatever the member order
        singles = [M.MemorySource([dict(ver(idx, 0), modified=SUBMS[m], name="n%d" % m)], allow_custom=True) for m in mods]
        for order in (singles, singles[::-1]):
            comp = CompositeDataSource()
            comp.add_data_sources(order)
            g = comp.get(IDS[idx])
            if g is None or inst(g["modified"]) != max(seen):
                return False
        return True
    finally:
        F.os, F.io = saved


# ---- versions whose modified times are the two readings of an ambiguous local time (same local fields, fold 0 / 1: one hour apart)
def ambiguous_local_versions(order: bool, form: int) -> bool:
    """
    pre: 0 <= form <= 1
    post: _
    """
    order, form = pickb(order), pick(form, 2)
    with Native():
        ok = run_fold_case(order, form)
    V.reached()
    return ok


def run_fold_case(order, form):
    import datetime as dt
    from zoneinfo import ZoneInfo
    from stix2.datastore import CompositeDataSource
    from stix2.utils import deduplicate
    berlin = ZoneInfo("Europe/Berlin")
    mk = lambda name, fold: stix2.v21.Identity(id=IDS[0], name=name, identity_class="individual", created=dt.datetime(2020, 1, 1, tzinfo=dt.timezone.utc),   # noqa: E731
                                               modified=dt.datetime(2020, 10, 25, 2, 30, tzinfo=berlin, fold=fold))
    a, b = mk("earlier", 0), mk("later", 1)
    adds = [a, b] if order else [b, a]
    if form == 1:
        adds = [json.loads(x.serialize()) for x in adds]
    ffs = fakefs.FakeFS()
    saved = fakefs.install(F, ffs)
    try:
        fstore, mstore = F.FileSystemStore("/fs"), M.MemoryStore()
        parts = [M.MemorySource([adds[0]]), M.MemorySource([adds[1]])]
        comp = CompositeDataSource()
        comp.add_data_sources(parts)
        for x in adds:
            fstore.add(x)
            mstore.add(x)
        for s in (fstore, mstore, comp):
            if sorted(o["name"] for o in s.all_versions(IDS[0])) != ["earlier", "later"] or s.get(IDS[0])["name"] != "later":
                return False
            if sorted(o["name"] for o in s.query([Filter("id", "=", IDS[0])])) != ["earlier", "later"]:
                return False
        return len(deduplicate([a, b, a])) == 2
    finally:
        F.os, F.io = saved
