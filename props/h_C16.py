"""C16 structure harness: the real pure-Python encoder (_make_iterencode) on small trees vs an independent RFC 8785 serializer."""
import json
from collections import OrderedDict

from crosshair.core import NoTracing, realize

from stix2.canonicalization import Canonicalize as C

from engine.hlib import Native, V, pick

KEYSETS = [("a", "b", "c"), ("b", "a", "aa"), ("\U0001F600", "דּ", "a"), ("€", "$", "\u0080"), ("k\"q", "k\\", "k\n")]
PERMS = [(0, 1, 2), (0, 2, 1), (1, 0, 2), (1, 2, 0), (2, 0, 1), (2, 1, 0)]
INTS = [7, 0, -1, 1000000, 2 ** 53 + 1, 2 ** 60, 10 ** 17 + 1, -(2 ** 63), 10 ** 21, 2 ** 53, 10 ** 400, -(10 ** 310)]
# Python ints are numbers like any other: beyond 2^53 they are written as the double nearest to them would be (ECMAScript Number::toString)
BIG_INT_TEXT = {2 ** 53 + 1: "9007199254740992", 2 ** 60: "1152921504606847000", 10 ** 17 + 1: "100000000000000000", -(2 ** 63): "-9223372036854776000",
                10 ** 21: "1e+21", 2 ** 53: "9007199254740992", 10 ** 400: None, -(10 ** 310): None}        # None: no double is near it -- must be refused
# doubles whose ECMAScript form differs from Python's repr (known answers: RFC 8785 appendix B / ECMA-262 Number::toString); None = must be refused
FLOATS = [(1.0, "1"), (-0.0, "0"), (1e-7, "1e-7"), (1e16, "10000000000000000"), (1.5, "1.5"), (1e21, "1e+21"), (5e-324, "5e-324"), (0.000001, "0.000001"),
          (float("nan"), None), (float("-inf"), None), (float("inf"), None), (1.152921504606847e18, "1152921504606847000"), (-1e-5, "-0.00001"),
          (123456789012345680000.0, "123456789012345680000"), (-float("nan"), None)]
NF = len(FLOATS)


class Refused(Exception):
    pass


STRS = ["ab", "", "q\"\\\n\x01\u007f \U0001F600"]


def utf16_units(s):
    b = s.encode("utf-16-be")
    return [b[i] * 256 + b[i + 1] for i in range(0, len(b), 2)]


def ref_str(s):
    """RFC 8785 section 3.2.2.2, written independently"""
    out = ['"']
    two = {0x08: "\\b", 0x09: "\\t", 0x0A: "\\n", 0x0C: "\\f", 0x0D: "\\r", 0x22: '\\"', 0x5C: "\\\\"}
    for ch in s:
        o = ord(ch)
        if o in two:
            out.append(two[o])
        elif o < 0x20:
            out.append("\\u%04x" % o)
        else:
            out.append(ch)
    out.append('"')
    return "".join(out)


def ref_ser(v):
    if v is None:
        return "null"
    if v is True:
        return "true"
    if v is False:
        return "false"
    if isinstance(v, int):
        if BIG_INT_TEXT.get(v, "") is None:
            raise Refused()
        return BIG_INT_TEXT.get(v, str(v))
    if isinstance(v, float):
        for f, text in FLOATS:
            if repr(f) == repr(v):
                if text is None:
                    raise Refused()
                return text
        raise AssertionError("float outside the known-answer table")
    if isinstance(v, str):
        return ref_str(v)
    if isinstance(v, list):
        return "[" + ",".join(ref_ser(x) for x in v) + "]"
    items = sorted(v.items(), key=lambda kv: utf16_units(kv[0]))
    return "{" + ",".join(ref_str(k) + ":" + ref_ser(x) for k, x in items) + "}"


def leaf(kind, b, i):
    if kind == 0:
        return None
    if kind == 1:
        return b
    if kind == 2:
        return STRS[i % len(STRS)]
    if kind == 4:
        return FLOATS[i % NF][0]
    return INTS[i % len(INTS)]


def encode(v):
    enc = C.JSONEncoder(sort_keys=True)
    it = C._make_iterencode(None, enc.default, C.py_encode_basestring, None, None, ":", ",", True, False, False)
    return "".join(it(v, 0))


def build(shape, K, perm, a, b, c):
    if shape == 0:
        pairs = [(K[0], a), (K[1], [b, c])]
        return OrderedDict(pairs if perm % 2 == 0 else pairs[::-1])
    if shape == 1:
        pairs = [(K[0], b), (K[1], c)]
        return [a, OrderedDict(pairs if perm % 2 == 0 else pairs[::-1])]
    if shape == 2:
        inner = [(K[1], a), (K[2], b)]
        outer = [(K[0], OrderedDict(inner if perm % 2 == 0 else inner[::-1])), (K[2], c)]
        return OrderedDict(outer if perm < 3 else outer[::-1])
    vals = [a, b, c]
    return OrderedDict((K[j], vals[j]) for j in PERMS[perm])


def plain(v):
    if isinstance(v, OrderedDict):
        return {k: plain(x) for k, x in v.items()}
    if isinstance(v, list):
        return [plain(x) for x in v]
    return v


from engine.hlib import Part, TIER, pickb  # noqa: E402

PARTNO = Part.index          # partition = (shape, key set); 20 partitions
QUICK = TIER == "quick"


def struct(k1: int, b1: bool, k2: int, b2: bool, k3: int, b3: bool, perm: int, shape: int, ks: int) -> bool:
    """
    pre: 0 <= shape <= 3 and 0 <= ks < 5 and shape * 5 + ks == PARTNO
    pre: 0 <= k1 <= 4 and 0 <= k2 <= 4 and 0 <= k3 <= 4 and 0 <= perm < 6
    pre: (not QUICK) or k3 == (k1 + k2 + 1) % 5
    post: _
    """
    shape, ks, perm = pick(shape, 4), pick(ks, 5), pick(perm, 6)
    k1, k2, k3 = pick(k1, 5), pick(k2, 5), pick(k3, 5)
    b1 = pickb(b1) if k1 == 1 else False
    b2 = pickb(b2) if k2 == 1 else False
    b3 = pickb(b3) if k3 == 1 else False
    with Native():
        ok = run_case(shape, ks, perm, k1, b1, k2, b2, k3, b3)
    V.reached()
    return ok


def run_case(shape, ks, perm, k1, b1, k2, b2, k3, b3):
    """all-concrete: the real pure-Python encoder vs the independent serializer, two insertion orders, parse-back fixed point"""
    # what the module was asked before (part of the case, so a witness reproduces): nothing / a refused serialize() / a refused canonicalize() /
    # an accepted then a refused serialize() -- the answer below must not depend on it
    for call in ([], [lambda: C.serialize([float("nan")])], [lambda: C.canonicalize({"b": 1, "a": float("inf")})],
                 [lambda: C.serialize({"b": 1, "a": 2}, utf8=False), lambda: C.serialize({"b": [float("-inf")], "a": 2})])[(perm + k1 + ks) % 4]:
        try:
            call()
        except ValueError:
            pass
    li = (shape + ks) % 4
    fi = li + perm * 2 + k1                    # floats and ints rotate through their whole tables
    a, b, c = leaf(k1, b1, fi if k1 >= 3 else li), leaf(k2, b2, fi + 5 if k2 >= 3 else li + 1), leaf(k3, b3, fi + 9 if k3 >= 3 else li + 2)
    K = KEYSETS[ks]
    v = build(shape, K, perm, a, b, c)
    try:
        want = ref_ser(plain(v))
    except Refused:
        # a non-finite number at any position: the encoder and canonicalize() must refuse
        for f in (lambda: encode(v), lambda: C.canonicalize(plain(v), utf8=False)):
            try:
                f()
                return False
            except ValueError:
                pass
        return True
    out = encode(v)
    out2 = encode(build(shape, K, (perm + 1) % 6, a, b, c))
    if out != want or out2 != want:
        return False
    if any(ch in out for ch in " \t") and not any(isinstance(x, str) and (" " in x) for x in (a, b, c)):
        return False
    if C.canonicalize(plain(v)) != want.encode("utf-8") or C.canonicalize(plain(v), utf8=True) != want.encode("utf-8"):
        return False                      # the default / utf8=True form is the UTF-8 encoding of the same text
    return encode(json.loads(out)) == out and C.canonicalize(plain(v), utf8=False) == ref_ser_c(plain(v))


def ref_ser_c(v):
    """what canonicalize() must give: same as ref_ser (the C string encoder is tied to the python one by the contract test in j_esc)"""
    return ref_ser(v)
