"""C14 harnesses: a requested spec version is honoured everywhere and never alters strictness."""
import json

import stix2
from stix2 import parsing
from stix2 import properties as P
from stix2.datastore import filesystem as F
from stix2.datastore import memory as M
from stix2.exceptions import STIXError

from engine.hlib import Native, V, pick, pickb
from props import fakefs


class Rec:
    calls = []


def rec_parse(data, allow_custom=False, interoperability=False, version=None):
    Rec.calls.append(("parse", allow_custom, interoperability, version))
    return {"id": "x--1", "type": "x"}


def rec_d2s(stix_dict, allow_custom=False, interoperability=False, version=None):
    Rec.calls.append(("dict_to_stix2", allow_custom, interoperability, version))
    return {"id": "x--1", "type": "x"}


def rec_parse_observable(data, _valid_refs=None, allow_custom=False, interoperability=False, version=None):
    Rec.calls.append(("parse_observable", allow_custom, interoperability, version))
    return {"type": "x"}


def expect(kind, allow, interop, version):
    return len(Rec.calls) >= 1 and all(c == (kind, allow, interop, version) for c in Rec.calls)


def fwd_parse(allow: bool, interop: bool, has_v: bool, v: str) -> bool:
    """
    pre: len(v) <= 3
    post: _
    """
    version = v if has_v else None
    Rec.calls = []
    saved = parsing.dict_to_stix2
    parsing.dict_to_stix2 = rec_d2s
    try:
        parsing.parse({"type": "x", "id": "x--1"}, allow, interop, version)
        parsing.parse({"type": "x", "id": "x--1"}, allow_custom=allow, interoperability=interop, version=version)
    finally:
        parsing.dict_to_stix2 = saved
    V.reached()
    return len(Rec.calls) == 2 and expect("dict_to_stix2", allow, interop, version)


def fwd_memory(allow: bool, has_v: bool, v: str, site: int, form: int) -> bool:
    """
    pre: len(v) <= 3 and 0 <= site <= 5 and 0 <= form <= 2
    post: _
    """
    site, form = pick(site, 6), pick(form, 3)
    version = v if has_v else None
    Rec.calls = []
    d = {"type": "x", "id": "x--1"}
    data = [d, [d], {"type": "bundle", "id": "bundle--1", "objects": [d]}][form]
    saved = M.parse
    M.parse = rec_parse
    try:
        if site == 0:
            class S:
                pass
            s = S()
            s._data = {}
            M._add(s, data, allow, version)
        elif site == 1:
            M.MemoryStore(data, allow_custom=allow, version=version)
        elif site == 2:
            M.MemorySource(data, allow_custom=allow, version=version)
        elif site == 3:
            M.MemorySink(data, allow_custom=allow, version=version)
        elif site == 4:
            M.MemorySink(allow_custom=allow).add(data, version=version)
        else:
            M.MemoryStore(allow_custom=allow).add(data, version=version)
    finally:
        M.parse = saved
    V.reached()
    return expect("parse", allow, False, version)


def fwd_filesystem(allow: bool, has_v: bool, v: str, site: int, layout: int = 0, other: bool = False) -> bool:
    """
    pre: len(v) <= 3 and 0 <= site <= 4 and 0 <= layout <= 2
    post: _
    """
    site, layout, other = pick(site, 5), pick(layout, 3), pickb(other)
    version = v if has_v else None
    Rec.calls = []
    ffs = fakefs.FakeFS()
    xid = "x--311b2d2d-f010-4473-83ec-1edf84858f4c"
    yid = "x--411b2d2d-f010-4473-83ec-1edf84858f4c"
    # layouts of a type directory: 0 one directory per id with a file per version; 1 flat <id>.json files only; 2 mixed: a versioned id, the
    # same id once more as a legacy flat file, and another id that exists only as a flat file (unversioned objects are stored that way)
    files = {}
    if layout in (0, 2):
        ffs.makedirs("/fs/x/" + xid)
        files["/fs/x/%s/20200101000000000.json" % xid] = xid
    else:
        ffs.makedirs("/fs/x")
    if layout in (1, 2):
        files["/fs/x/%s.json" % xid] = xid
        files["/fs/x/%s.json" % yid] = yid
    for path, id_ in files.items():
        ffs.files[path] = json.dumps({"type": "x", "id": id_, "modified": "2020-01-01T00:00:00.000Z"} if "/2020" in path else {"type": "x", "id": id_})
    qid = yid if (other and layout != 0) else xid
    saved = fakefs.install(F, ffs)
    saved_p = F.parse
    F.parse = rec_parse
    want_calls = None
    try:
        if site == 0:
            F._check_object_from_file([], sorted(files)[0], allow, version, "utf-8")
            want_calls = 1
        elif site == 1:
            F.FileSystemSource("/fs", allow_custom=allow).query([], version=version)
            want_calls = len(files)                       # every stored file is read and parsed, each with the named version
        elif site == 2:
            F.FileSystemSource("/fs", allow_custom=allow).get(qid, version=version)
            want_calls = sum(1 for i in files.values() if i == qid)
        elif site == 3:
            F.FileSystemSource("/fs", allow_custom=allow).all_versions(qid, version=version)
            want_calls = sum(1 for i in files.values() if i == qid)
        else:
            try:
                F.FileSystemSink("/fs", allow_custom=allow).add({"type": "x", "id": "x--2"}, version=version)
            except Exception:  # noqa: BLE001 - the recorder's return value is written afterwards; only the forwarded arguments matter
                pass
    finally:
        F.parse = saved_p
        F.os, F.io = saved
    V.reached()
    return expect("parse", allow, False, version) and (want_calls is None or len(Rec.calls) == want_calls)


def fwd_observable_property(allow: bool, v21: bool) -> bool:
    """
    post: _
    """
    ver = "2.1" if v21 else "2.0"
    Rec.calls = []
    saved = P.parse_observable
    P.parse_observable = rec_parse_observable
    try:
        try:
            P.ObservableProperty(spec_version=ver).clean({"0": {"type": "x"}}, allow)
        except STIXError:
            pass
    finally:
        P.parse_observable = saved
    V.reached()
    return expect("parse_observable", allow, False, ver)


# ---- end to end: the same dictionary through every entry point with and without version=; ids only relaxed mode admits
UU = "311b2d2d-f010-4473-83ec-1edf84858f4c"
DOCS = [
    # (document, version that must be detected when none is named)
    ({"type": "identity", "id": "identity--" + UU, "created": "2020-01-01T00:00:00.000Z", "modified": "2020-01-01T00:00:00.000Z",
      "name": "n", "identity_class": "individual"}, "2.0"),
    ({"type": "identity", "spec_version": "2.1", "id": "identity--" + UU, "created": "2020-01-01T00:00:00.000Z",
      "modified": "2020-01-01T00:00:00.000Z", "name": "n", "identity_class": "individual"}, "2.1"),
    ({"type": "file", "name": "f"}, "2.0"),
    ({"type": "file", "id": "file--" + UU, "name": "f"}, "2.1"),
    ({"type": "bundle", "id": "bundle--" + UU, "spec_version": "2.0", "objects": [
        {"type": "tool", "id": "tool--" + UU, "created": "2020-01-01T00:00:00.000Z", "modified": "2020-01-01T00:00:00.000Z", "name": "t", "labels": ["x"]}]}, "2.0"),
    ({"type": "bundle", "id": "bundle--" + UU, "objects": [{"type": "file", "id": "file--" + UU, "name": "f"}]}, "2.1"),
    # a bundle whose members carry no version of their own: under a named version each member is that version (a 2.0-looking identity, and an
    # identity whose UUIDv1 id only 2.1 accepts)
    ({"type": "bundle", "id": "bundle--" + UU, "objects": [
        {"type": "identity", "id": "identity--" + UU, "created": "2020-01-01T00:00:00.000Z", "modified": "2020-01-01T00:00:00.000Z", "name": "n",
         "identity_class": "individual"}]}, "2.1"),
    ({"type": "bundle", "id": "bundle--" + UU, "objects": [
        {"type": "identity", "id": "identity--e0a3f0c4-0b9a-11ee-be56-0242ac120002", "created": "2020-01-01T00:00:00.000Z",
         "modified": "2020-01-01T00:00:00.000Z", "name": "n", "identity_class": "individual"}]}, "2.1"),
]


def _version_scoped_extensions():
    """an old-style custom extension registered for ONE version only: under the other version its name means nothing"""
    from stix2 import properties as SP
    if stix2.registry.class_for_type("x-c14-only21-ext", "2.1", "extensions") is None:
        @stix2.v21.CustomExtension("x-c14-only21-ext", [("n", SP.IntegerProperty(required=True))])
        class Only21:
            pass

        @stix2.v20.CustomExtension("x-c14-only20-ext", [("n", SP.IntegerProperty(required=True))])
        class Only20:
            pass


_version_scoped_extensions()
OD20X = {"type": "observed-data", "id": "observed-data--" + UU, "created": "2020-01-01T00:00:00.000Z", "modified": "2020-01-01T00:00:00.000Z",
         "first_observed": "2020-01-01T00:00:00Z", "last_observed": "2020-01-01T00:00:00Z", "number_observed": 1,
         "objects": {"0": {"type": "file", "name": "f", "extensions": {"x-c14-only21-ext": {"n": "7"}}}}}
REFUSED_STRICT = {len(DOCS), len(DOCS) + 1, len(DOCS) + 3}       # documents a strict parse under the detected / named version must refuse (checked without asking the parser)
DOCS += [
    (OD20X, "2.0"),
    ({"type": "file", "id": "file--" + UU, "name": "f", "extensions": {"x-c14-only20-ext": {"n": "7"}}}, "2.1"),
    # and where the name IS registered for the version, the content is that version's
    (dict(OD20X, objects={"0": {"type": "file", "name": "f", "extensions": {"x-c14-only20-ext": {"n": "7"}}}}), "2.0"),
    ({"type": "file", "name": "f", "extensions": {"x-c14-only21-ext": {"n": 7}}}, "2.0"),
]
NDOC = len(DOCS)


def nested_versions(o, acc=None):
    """the spec versions of every library object inside o (extensions, embedded objects, bundle / container members)"""
    acc = set() if acc is None else acc
    if isinstance(o, stix2.base._STIXBase):
        v = class_version(o)
        if v is None:
            for base in type(o).__mro__:
                mod = getattr(base, "__module__", "")
                if mod.startswith("stix2.v20"):
                    v = "2.0"
                    break
                if mod.startswith("stix2.v21"):
                    v = "2.1"
                    break
        acc.add(v)
        for val in o._inner.values():
            nested_versions(val, acc)
    elif isinstance(o, dict):
        for val in o.values():
            nested_versions(val, acc)
    elif isinstance(o, (list, tuple)):
        for val in o:
            nested_versions(val, acc)
    return acc


# what the library itself writes for version V is recognised as version V when no version is named
PRODUCED = [
    (lambda: stix2.v21.Bundle(id="bundle--" + UU), "2.1"), (lambda: stix2.v20.Bundle(id="bundle--" + UU), "2.0"),
    (lambda: stix2.v21.Bundle(stix2.v21.Identity(name="n", identity_class="individual")), "2.1"),
    (lambda: stix2.v20.Bundle(stix2.v20.Identity(name="n", identity_class="individual")), "2.0"),
    (lambda: stix2.v21.Bundle(stix2.v20.Identity(name="n", identity_class="individual")), "2.1"),
    (lambda: stix2.v21.Identity(name="n", identity_class="individual"), "2.1"), (lambda: stix2.v20.Identity(name="n", identity_class="individual"), "2.0"),
    (lambda: stix2.v21.TLP_WHITE, "2.1"), (lambda: stix2.v20.TLP_WHITE, "2.0"),
    (lambda: stix2.v21.MarkingDefinition(definition_type="statement", definition={"statement": "s"}), "2.1"),
    (lambda: stix2.v20.MarkingDefinition(definition_type="statement", definition={"statement": "s"}), "2.0"),
    (lambda: stix2.v21.IPv4Address(value="1.2.3.4"), "2.1"), (lambda: stix2.v21.Relationship("malware--" + UU, "uses", "tool--" + UU), "2.1"),
    (lambda: stix2.v20.Relationship("malware--" + UU, "uses", "tool--" + UU), "2.0"),
    (lambda: stix2.v21.LanguageContent(object_ref="identity--" + UU, contents={"de": {"name": "n"}}), "2.1"),
    (lambda: stix2.v20.ObservedData(first_observed="2020-01-01T00:00:00Z", last_observed="2020-01-01T00:00:00Z", number_observed=1,
                                    objects={"0": {"type": "file", "name": "f"}}), "2.0"),
]
NPROD = len(PRODUCED)


def produced_recognised(pi: int, form: int) -> bool:
    """
    pre: 0 <= pi < NPROD and 0 <= form < 3
    post: _
    """
    pi, form = pick(pi, NPROD), pick(form, 3)
    with Native():
        ok = run_produced_case(pi, form)
    V.reached()
    return ok


def run_produced_case(pi, form):
    make, ver = PRODUCED[pi]
    o = make()
    text = o.serialize()
    data = [text, json.loads(text), o.serialize(pretty=True, include_optional_defaults=True)][form]
    if stix2.utils.detect_spec_version(json.loads(text)) != ver:
        return False
    back = stix2.parse(data)
    return type(back) is type(o) and class_version(back) == ver and back.serialize() == text
BAD_IDS = ["identity--{%s}" % UU, "identity--urn:uuid:" + UU, "identity--" + UU.replace("-", ""), "identity--" + UU + "\n",
           "identity--311b2d2d-f010-1473-c3ec-1edf84858f4c", "identity--not-a-uuid"]


def class_version(o):
    if isinstance(o, stix2.v20._STIXBase20):
        return "2.0"
    if isinstance(o, stix2.v21._STIXBase21):
        return "2.1"
    return None


def entry_points(di: int, named: int, ep: int) -> bool:
    """
    pre: 0 <= di < NDOC and 0 <= named <= 2 and 0 <= ep <= 7
    post: _
    """
    di, named, ep = pick(di, NDOC), pick(named, 3), pick(ep, 8)
    with Native():
        ok = run_entry_case(di, named, ep)
    V.reached()
    return ok


def run_entry_case(di, named, ep):
    doc, detected = DOCS[di]
    version = [None, "2.0", "2.1"][named]
    want = version or detected
    is_bundle = doc["type"] == "bundle"

    def direct(d):
        try:
            return stix2.parse(json.loads(json.dumps(d)), allow_custom=False, version=version)
        except (STIXError, ValueError, TypeError):
            return None
    ref = direct(doc)
    if ref is not None and class_version(ref) != want:
        return False                                # parse itself must interpret the content as the named / detected version
    if di in REFUSED_STRICT and want == detected and ref is not None:
        return False                                # an extension name registered for the other version only was honoured
    if ref is not None and not is_bundle and nested_versions(ref) - {want}:
        return False                                # something inside was built by the other version's classes
    if di in REFUSED_STRICT and want == detected:
        # with customization allowed the content is accepted, the foreign name stays custom content, nothing inside is of the other version
        try:
            lax = stix2.parse(json.loads(json.dumps(doc)), allow_custom=True, version=version)
        except (STIXError, ValueError, TypeError):
            return False
        if not lax.has_custom or nested_versions(lax) - {want}:
            return False
    if ep == 0:
        return True
    # stores add the members of a bundle one by one, each with the named version: the reference is a direct parse of each member
    members = doc["objects"] if is_bundle else [doc]
    if any("id" not in m for m in members):
        return True                                 # objects without id (2.0 SCOs) cannot be stored by id at all
    if ep in (3, 6, 7) and is_bundle:
        return True                                 # FileSystemSink parses a bundle as a whole (members auto-detected): outside the claim, see DESIGN.md
    refs = [direct(m) for m in members]
    ffs = fakefs.FakeFS()
    saved = fakefs.install(F, ffs)
    saved_m = fakefs.install(M, ffs) if ep in (4, 5) else None
    try:
        try:
            if ep in (4, 5):
                # a file written elsewhere, loaded with a named version: MemorySource.load_from_file and MemoryStore.load_from_file
                ffs.makedirs("/in")
                ffs.files["/in/data.json"] = json.dumps(doc)
                store = M.MemorySource(allow_custom=False) if ep == 4 else M.MemoryStore(allow_custom=False)
                store.load_from_file("/in/data.json", version=version)
                objs = store.query()
            elif ep == 1:
                # the version a store was BUILT with governs its initial content only: an addition is read under the version it names
                # (or detects), whatever the store, its sink or its source were built with
                for built in (None, "2.0", "2.1"):
                    store = M.MemoryStore(allow_custom=False, version=built)
                    store.add(json.loads(json.dumps(doc)), version=version)
                    objs = store.query()
                    sink = M.MemorySink(allow_custom=False, version=built)
                    sink.add(json.loads(json.dumps(doc)), version=version)
                    if [type(o) for o in objs] != [type(o) for o in M.MemorySource(_store=True, stix_data=sink._data, allow_custom=False).query()]:
                        return False
                    if any(r is None for r in refs) or [type(o) for o in objs] != [type(r) for r in refs]:
                        return False
            elif ep == 2:
                store = M.MemoryStore(json.loads(json.dumps(doc)), allow_custom=False, version=version)
                objs = store.query()
            else:
                sink = F.FileSystemSink("/fs", allow_custom=False)
                # the sink's documented input forms: dictionary, JSON text, a list of either
                sink.add(json.loads(json.dumps(doc)) if ep == 3 else json.dumps(doc) if ep == 6 else [json.dumps(doc)], version=version)
                objs = F.FileSystemSource("/fs", allow_custom=False).query(version=version)
                # what the sink wrote is the content AS INTERPRETED under the named version: read back without naming one, it is that version
                if all(r is not None for r in refs):
                    plain = F.FileSystemSource("/fs", allow_custom=False).query()
                    if sorted(class_version(o) or "" for o in plain) != sorted(class_version(r) or "" for r in refs):
                        return False
        except (STIXError, ValueError, TypeError):
            return any(r is None for r in refs)     # refused: fine iff a direct parse with the same version refuses too
    finally:
        F.os, F.io = saved
        if saved_m:
            M.os, M.io = saved_m
    if any(r is None for r in refs):
        return False                                # a store accepted what a direct parse with the same version refuses
    return len(objs) == len(refs) and all(type(o) is type(m) for o, m in zip(objs, refs))


def strictness(bi: int, named: int, ep: int) -> bool:
    """
    pre: 0 <= bi < 6 and 0 <= named <= 2 and 0 <= ep <= 3
    post: _
    """
    bi, named, ep = pick(bi, 6), pick(named, 3), pick(ep, 4)
    with Native():
        ok = run_strict_case(bi, named, ep)
    V.reached()
    return ok


def run_strict_case(bi, named, ep):
    """an identifier that only relaxed (interoperability) mode could admit is refused through every entry point, version named or not"""
    version = [None, "2.0", "2.1"][named]
    doc = dict(DOCS[1][0] if version != "2.0" else DOCS[0][0], id=BAD_IDS[bi])
    ffs = fakefs.FakeFS()
    ffs.makedirs("/fs/identity/" + "x")
    saved = fakefs.install(F, ffs)
    try:
        try:
            if ep == 0:
                stix2.parse(doc, allow_custom=False, version=version)
            elif ep == 1:
                M.MemoryStore(allow_custom=False).add(doc, version=version)
            elif ep == 2:
                M.MemorySource(doc, allow_custom=False, version=version)
            else:
                ffs.makedirs("/fs/identity/idir")
                ffs.files["/fs/identity/idir/20200101000000000.json"] = json.dumps(doc)
                got = F._check_object_from_file([], "/fs/identity/idir/20200101000000000.json", False, version, "utf-8")
                if got is None:
                    return True
        except (STIXError, ValueError, TypeError):
            return True
    finally:
        F.os, F.io = saved
    return False


# ---- what version 2.0 accepts does not depend on what was parsed as 2.1 before (and vice versa)
V1_ID = "e0a3f0c4-0b9a-11ee-be56-0242ac120002"        # a UUIDv1: a legal identifier in 2.1, not in 2.0


def strictness_after_history(ep: int, as_ref: bool) -> bool:
    """
    pre: 0 <= ep <= 4
    post: _
    """
    ep, as_ref = pick(ep, 5), pickb(as_ref)
    with Native():
        ok = run_history_strict_case(ep, as_ref)
    V.reached()
    return ok


def run_history_strict_case(ep, as_ref):
    d20 = dict(DOCS[0][0])
    d21 = dict(DOCS[1][0])
    if as_ref:
        d20["created_by_ref"] = d21["created_by_ref"] = "identity--" + V1_ID
        # a reference whose type prefix is a 2.1 observable type is still a 2.0 identifier inside 2.0 content (UUIDv4 only)
        d20["object_marking_refs"] = d21["object_marking_refs"] = ["marking-definition--" + V1_ID]
        for rel_end in ("ipv4-addr", "file", "identity"):
            for uid in (V1_ID, str(__import__("uuid").uuid5(__import__("uuid").NAMESPACE_DNS, "x"))):
                r20 = {"type": "relationship", "id": "relationship--" + UU, "created": "2020-01-01T00:00:00.000Z", "modified": "2020-01-01T00:00:00.000Z",
                       "relationship_type": "uses", "source_ref": "malware--" + UU, "target_ref": "%s--%s" % (rel_end, uid)}
                rep20 = {"type": "report", "id": "report--" + UU, "created": "2020-01-01T00:00:00.000Z", "modified": "2020-01-01T00:00:00.000Z", "name": "r",
                         "published": "2020-01-01T00:00:00Z", "labels": ["threat-report"], "object_refs": ["malware--" + UU, "%s--%s" % (rel_end, uid)]}
                for bad in (r20, rep20):
                    for kw in ({"version": "2.0"}, {}):
                        try:
                            stix2.parse(dict(bad), **kw)
                            return False
                        except (STIXError, ValueError, TypeError):
                            pass
                    try:
                        M.MemoryStore(allow_custom=False).add(dict(bad), version="2.0")
                        return False
                    except (STIXError, ValueError, TypeError):
                        pass
    else:
        d20["id"] = d21["id"] = "identity--" + V1_ID

    def accepts20():
        ffs = fakefs.FakeFS()
        saved = fakefs.install(F, ffs)
        try:
            if ep == 0:
                stix2.parse(dict(d20), version="2.0")
            elif ep == 1:
                stix2.parse(dict(d20))                                   # detected as 2.0
            elif ep == 2:
                stix2.v20.Identity(**{k: v for k, v in d20.items() if k != "type"})
            elif ep == 3:
                M.MemoryStore(allow_custom=False).add(dict(d20), version="2.0")
            else:
                F.FileSystemSink("/fs", allow_custom=False).add(dict(d20), version="2.0")
            return True
        except (STIXError, ValueError, TypeError):
            return False
        finally:
            F.os, F.io = saved
    if accepts20():
        return False
    try:
        stix2.parse(dict(d21), version="2.1")                            # the same identifier is fine as 2.1 content
        stix2.v21.Identity(**{k: v for k, v in d21.items() if k != "type"})
    except (STIXError, ValueError, TypeError):
        return False
    return not accepts20()
