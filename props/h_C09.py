"""C09 harnesses: pattern equivalence is a total, sound equivalence relation."""
import itertools

from stix2.equivalence.pattern import _get_pattern_normalizer, equivalent_patterns, find_equivalent_patterns
from stix2.equivalence.pattern.compare.comparison import comparison_expression_cmp, constant_cmp
from stix2.equivalence.pattern.compare.observation import observation_expression_cmp
from stix2.equivalence.pattern.transform import ChainTransformer, SettleTransformer
from stix2.equivalence.pattern.transform import comparison as TC
from stix2.equivalence.pattern.transform import specials as SP
from stix2.pattern_visitor import create_pattern_object
from stix2.patterns import (
    AndBooleanExpression, AndObservationExpression, BooleanConstant, FloatConstant, FollowedByObservationExpression, IntegerConstant,
    ListConstant, ObjectPath, ObservationExpression, OrBooleanExpression, OrObservationExpression, ParentheticalExpression,
    QualifiedObservationExpression, RepeatQualifier, StringConstant, WithinQualifier, _BooleanExpression, _ComparisonExpression,
    _CompoundObservationExpression,
)

from engine.hlib import K, Native, Part, TIER, V, pick, pickb

PARTNO = Part.index


def raw(cls, v):
    o = cls.__new__(cls)
    o.value = v
    if cls is StringConstant:
        o.needs_to_be_quoted = True
    return o


def mk_const(kind, i, s, b):
    if kind == 0:
        return raw(IntegerConstant, i)
    if kind == 1:
        return raw(StringConstant, s)
    return raw(BooleanConstant, b)


def sgn(x):
    return -1 if x < 0 else (1 if x > 0 else 0)


# ---------------------------------------------------------------- a. comparators are total orders
def cmp_antisym(k1: int, i1: int, s1: str, b1: bool, k2: int, i2: int, s2: str, b2: bool) -> bool:
    """
    pre: 0 <= k1 <= 2 and 0 <= k2 <= 2 and len(s1) <= 2 and len(s2) <= 2
    post: _
    """
    a = mk_const(k1, i1, s1, b1)
    b = mk_const(k2, i2, s2, b2)
    r1, r2 = constant_cmp(a, b), constant_cmp(b, a)
    V.reached()
    same = (k1 == k2) and ((k1 == 0 and i1 == i2) or (k1 == 1 and s1 == s2) or (k1 == 2 and b1 == b2))
    return sgn(r1) == -sgn(r2) and constant_cmp(a, a) == 0 and ((r1 == 0) == same)


def cmp_trans(k1: int, i1: int, b1: bool, k2: int, i2: int, b2: bool, k3: int, i3: int, b3: bool) -> bool:
    """
    pre: k1 in (0, 2) and k2 in (0, 2) and k3 in (0, 2)
    post: _
    """
    a, b, c = mk_const(k1, i1, "", b1), mk_const(k2, i2, "", b2), mk_const(k3, i3, "", b3)
    ab, bc, ac = constant_cmp(a, b), constant_cmp(b, c), constant_cmp(a, c)
    V.reached()
    if ab <= 0 and bc <= 0:
        return ac <= 0 and (ac < 0 or (ab == 0 and bc == 0))
    return True


OPSYM = ["=", ">", "<", ">=", "<="]


def atom(c, neg, op="=", path=("b",)):
    return _ComparisonExpression(op, ObjectPath("a", list(path)), raw(IntegerConstant, c), neg)


def expr_cmp_laws(c1: int, n1: bool, o1: int, c2: int, n2: bool, o2: int, c3: int, n3: bool, o3: int) -> bool:
    """
    pre: 0 <= o1 < 5 and 0 <= o2 < 5 and 0 <= o3 < 5
    post: _
    """
    a, b, c = atom(c1, n1, OPSYM[pick(o1, 5)]), atom(c2, n2, OPSYM[pick(o2, 5)]), atom(c3, n3, OPSYM[pick(o3, 5)])
    ab, ba = comparison_expression_cmp(a, b), comparison_expression_cmp(b, a)
    bc, ac = comparison_expression_cmp(b, c), comparison_expression_cmp(a, c)
    V.reached()
    if sgn(ab) != -sgn(ba) or comparison_expression_cmp(a, a) != 0:
        return False
    if (ab == 0) != (c1 == c2 and n1 == n2 and o1 == o2):
        return False
    if ab <= 0 and bc <= 0 and not ac <= 0:
        return False
    return True


# ---------------------------------------------------------------- b. comparison-expression normaliser is sound
def ev(ast, v):
    if isinstance(ast, _ComparisonExpression):
        c = ast.rhs.value
        r = {"=": v == c, ">": v > c, "<": v < c, ">=": v >= c, "<=": v <= c}[ast.operator]
        return (not r) if ast.negated else r
    if isinstance(ast, ParentheticalExpression):
        return ev(ast.expression, v)
    if ast.operator == "AND":
        return all([ev(o, v) for o in ast.operands])
    return any([ev(o, v) for o in ast.operands])


def comp_normalizer():
    simplify = ChainTransformer(TC.FlattenTransformer(), TC.OrderDedupeTransformer(), TC.AbsorptionTransformer())
    settle = SettleTransformer(simplify)
    return ChainTransformer(settle, TC.DNFTransformer(), settle)


def P_(x):
    return ParentheticalExpression(x)


COMP_SHAPES = [
    lambda a, b, c: OrBooleanExpression([AndBooleanExpression([a, b]), c]),
    lambda a, b, c: AndBooleanExpression([a, P_(OrBooleanExpression([b, c]))]),
    lambda a, b, c: OrBooleanExpression([a, P_(AndBooleanExpression([a, b])), c]),                 # absorption candidate
    lambda a, b, c: AndBooleanExpression([P_(OrBooleanExpression([a, b])), P_(OrBooleanExpression([a, c]))]),
    lambda a, b, c: OrBooleanExpression([a, b, a, c]),                                              # idempotence
    lambda a, b, c: AndBooleanExpression([a, P_(AndBooleanExpression([b, P_(OrBooleanExpression([c, a]))]))]),
    lambda a, b, c: OrBooleanExpression([P_(AndBooleanExpression([a, b])), P_(AndBooleanExpression([b, a, c]))]),
    lambda a, b, c: AndBooleanExpression([a, b, c]),
]
NCS = len(COMP_SHAPES)


def comp_norm_sound(c1: int, c2: int, c3: int, n1: bool, n2: bool, n3: bool, o3: int, v: int) -> bool:
    """
    pre: 0 <= o3 < 5
    post: _
    """
    op3 = OPSYM[pick(o3, 5)]
    mk = lambda: COMP_SHAPES[PARTNO % NCS](atom(c1, n1), atom(c2, n2), atom(c3, n3, op3))   # noqa: E731
    before = ev(mk(), v)
    out, _ = comp_normalizer().transform(mk())
    V.reached()
    return ev(out, v) == before


# ---------------------------------------------------------------- c. observation-expression normaliser is sound
def leaf(c, neg=False):
    return ObservationExpression(atom(c, neg))


def binds(e, obs):
    """set of frozensets of observation indices that satisfy e; obs = [(t, v)] (STIX patterning semantics on a bounded universe)"""
    if isinstance(e, ParentheticalExpression):
        return binds(e.expression, obs)
    if isinstance(e, ObservationExpression):
        if isinstance(e.operand, (ObservationExpression, _CompoundObservationExpression)):
            return binds(e.operand, obs)
        return {frozenset([i]) for i, (t, v) in enumerate(obs) if ev(e.operand, v)}
    if isinstance(e, QualifiedObservationExpression):
        inner = binds(e.observation_expression, obs)
        q = e.qualifier
        if isinstance(q, WithinQualifier):
            n = q.number_of_seconds.value
            return {x for x in inner if max(obs[i][0] for i in x) - min(obs[i][0] for i in x) <= n}
        if isinstance(q, RepeatQualifier):
            k = q.times_to_repeat.value
            res = {frozenset()}
            for _ in range(k):
                res = {x | y for x in res for y in inner if not (x & y)}
            return res
        raise AssertionError("qualifier")
    op = e.operator
    sets = [binds(o, obs) for o in e.operands]
    if op == "OR":
        r = set()
        for s in sets:
            r |= s
        return r
    res = sets[0]
    for s in sets[1:]:
        if op == "AND":
            res = {x | y for x in res for y in s if not (x & y)}
        else:
            res = {x | y for x in res for y in s if not (x & y) and max(obs[i][0] for i in x) <= min(obs[i][0] for i in y)}
    return res


OBS_SHAPES = [
    lambda a, b, c: OrObservationExpression([a, FollowedByObservationExpression([b, c])]),
    lambda a, b, c: AndObservationExpression([P_(OrObservationExpression([a, b])), c]),
    lambda a, b, c: FollowedByObservationExpression([P_(OrObservationExpression([a, b])), c]),
    lambda a, b, c: OrObservationExpression([a, P_(AndObservationExpression([a, b]))]),            # absorption must not fire wrongly
    lambda a, b, c: AndObservationExpression([a, a, b]),                                            # AND operands are not idempotent
    lambda a, b, c: FollowedByObservationExpression([a, P_(FollowedByObservationExpression([b, c]))]),
    lambda a, b, c: OrObservationExpression([QualifiedObservationExpression(P_(AndObservationExpression([a, b])), WithinQualifier(1)), c]),
    lambda a, b, c: QualifiedObservationExpression(P_(OrObservationExpression([a, P_(AndObservationExpression([a, b]))])), RepeatQualifier(2)),
    lambda a, b, c: FollowedByObservationExpression([b, a, c]),                                     # order matters
    lambda a, b, c: AndObservationExpression([c, P_(OrObservationExpression([b, a]))]),
]
NOS = len(OBS_SHAPES)


def obs_norm_sound(c1: int, c2: int, c3: int, v1: int, v2: int, v3: int, t1: int, t2: int, t3: int) -> bool:
    """
    pre: 0 <= t1 <= 2 and 0 <= t2 <= 2 and 0 <= t3 <= 2
    post: _
    """
    mk = lambda: OBS_SHAPES[PARTNO % NOS](leaf(c1), leaf(c2), leaf(c3))   # noqa: E731
    obs = [(t1, v1), (t2, v2), (t3, v3)]
    before = bool(binds(mk(), obs))
    out, _ = _get_pattern_normalizer().transform(mk())
    V.reached()
    return bool(binds(out, obs)) == before


# ---------------------------------------------------------------- d. bounded-universe, through the real parser (selector enumerated)
ATOMS_T = ["a:b = 1", "a:b = 2", "a:b != 1", "a:b > 1", "a:b IN (1, 2)", "a:b NOT IN (1, 2)", "a:b NOT > 1", "a:b = 1.0"]
UNIVERSE = [[(t, v) for t, v in zip(ts, vs)] for n in (1, 2, 3) for ts in itertools.product(range(2), repeat=n) for vs in itertools.product((1, 2, 3), repeat=n)]


def ev_text(ast, v):
    if isinstance(ast, _ComparisonExpression):
        c = ast.rhs.value
        if isinstance(c, list):
            r = any(v == x.value for x in c)
        else:
            r = {"=": v == c, ">": v > c, "<": v < c, ">=": v >= c, "<=": v <= c, "IN": False}[ast.operator]
        return (not r) if ast.negated else r
    if isinstance(ast, ParentheticalExpression):
        return ev_text(ast.expression, v)
    if ast.operator == "AND":
        return all(ev_text(o, v) for o in ast.operands)
    return any(ev_text(o, v) for o in ast.operands)


def binds_text(e, obs):
    if isinstance(e, ObservationExpression) and not isinstance(e.operand, (ObservationExpression, _CompoundObservationExpression)):
        return {frozenset([i]) for i, (t, v) in enumerate(obs) if ev_text(e.operand, v)}
    global ev
    saved = ev
    ev = ev_text
    try:
        return binds(e, obs)
    finally:
        ev = saved


def matches(text):
    ast = create_pattern_object(text, version="2.1")
    return tuple(bool(binds_text(ast, obs)) for obs in UNIVERSE)


def gen_pattern(shape, x, y, z):
    A, B, C = ATOMS_T[x], ATOMS_T[y], ATOMS_T[z]
    return [
        "[%s]" % A,
        "[%s AND %s]" % (A, B), "[%s AND %s]" % (B, A), "[%s OR %s]" % (A, B), "[%s OR %s OR %s]" % (B, A, A),
        "[%s OR (%s AND %s)]" % (A, A, B), "[(%s OR %s) AND (%s OR %s)]" % (A, B, A, C), "[%s OR (%s AND %s)]" % (A, B, C),
        "[%s] AND [%s]" % (A, B), "[%s] AND [%s]" % (B, A), "[%s] OR [%s]" % (A, B), "[%s] OR [%s] OR [%s]" % (B, A, A),
        "[%s] FOLLOWEDBY [%s]" % (A, B), "[%s] FOLLOWEDBY [%s]" % (B, A),
        "([%s] OR [%s]) FOLLOWEDBY [%s]" % (A, B, C), "([%s] FOLLOWEDBY [%s]) OR ([%s] FOLLOWEDBY [%s])" % (A, C, B, C),
        "[%s] AND [%s] AND [%s]" % (A, A, B), "[%s] OR ([%s] AND [%s])" % (A, A, B),
        "([%s] AND [%s]) WITHIN 1 SECONDS" % (A, B), "[%s] REPEATS 2 TIMES" % A, "([%s] OR [%s]) REPEATS 2 TIMES" % (A, B),
        "[%s] AND ([%s] OR [%s])" % (C, B, A), "([%s] AND [%s]) OR ([%s] AND [%s])" % (C, B, C, A),
        # repeated operands: AND binds distinct observations, so a repeated operand is not redundant (absorption / containment must count multiplicity)
        "([%s] AND [%s]) OR ([%s] AND [%s])" % (A, A, A, B), "[%s] AND [%s]" % (A, A), "([%s] AND [%s]) OR ([%s] AND [%s] AND [%s])" % (A, B, A, B, C),
        "([%s] AND [%s] AND [%s]) OR ([%s] AND [%s])" % (A, A, B, A, B), "([%s] FOLLOWEDBY [%s]) OR ([%s] FOLLOWEDBY [%s])" % (A, A, A, B),
        "(([%s] OR [%s]) AND [%s]) OR ([%s] AND [%s])" % (A, A, B, A, B),
        # OR over children with DIFFERENT operators: an ordered sequence is not implied by an unordered conjunction that contains it
        "([%s] FOLLOWEDBY [%s]) OR ([%s] AND [%s] AND [%s])" % (A, B, A, B, C), "([%s] AND [%s]) OR ([%s] FOLLOWEDBY [%s] FOLLOWEDBY [%s])" % (A, B, A, B, C),
    ][shape]


NSHAPE = 31
NAT = len(ATOMS_T)
NX, NY, NZ = (4, 3, 1) if TIER == "quick" else (NAT, NAT, 2)


def pairs_sound(s1: int, s2: int, x: int, y: int, z: int) -> bool:
    """
    pre: 0 <= s1 < NSHAPE and 0 <= s2 < NSHAPE and s1 % 8 == PARTNO % 8 and 0 <= x < NX and 0 <= y < NY and 0 <= z < NZ
    post: _
    """
    s1, s2, x, y, z = pick(s1, NSHAPE), pick(s2, NSHAPE), pick(x, NX), pick(y, NY), pick(z, NZ)
    with Native():
        ok = run_pair_case(s1, s2, x, y, z)
    V.reached()
    return ok


_CACHE = {}


def info(text):
    if text not in _CACHE:
        _CACHE[text] = matches(text)
    return _CACHE[text]


def run_pair_case(s1, s2, x, y, z):
    p, q = gen_pattern(s1, x, y, z), gen_pattern(s2, x, y, z)
    e = equivalent_patterns(p, q, stix_version="2.1")
    if equivalent_patterns(q, p, stix_version="2.1") != e:
        return False                                # symmetric
    if not equivalent_patterns(p, p, stix_version="2.1"):
        return False                                # reflexive
    if e and info(p) != info(q):
        return False                                # sound on the bounded universe (<= 3 observations, values 1..3, 2 instants)
    found = list(find_equivalent_patterns(p, [q, p], stix_version="2.1"))
    return found == ([q] if e else []) + [p]       # search returns exactly the pairwise-equivalent members


def transitive(s1: int, s2: int, s3: int, x: int, y: int) -> bool:
    """
    pre: 0 <= s1 < NSHAPE and 0 <= s2 < NSHAPE and 0 <= s3 < NSHAPE and s1 % 8 == PARTNO % 8 and 0 <= x < 3 and 0 <= y < 3
    post: _
    """
    s1, s2, s3, x, y = pick(s1, NSHAPE), pick(s2, NSHAPE), pick(s3, NSHAPE), pick(x, 3), pick(y, 3)
    with Native():
        p, q, r = gen_pattern(s1, x, y, 1), gen_pattern(s2, x, y, 1), gen_pattern(s3, x, y, 1)
        ok = not (eq(p, q) and eq(q, r)) or eq(p, r)
    V.reached()
    return ok


_EQ = {}


def eq(p, q):
    if (p, q) not in _EQ:
        _EQ[(p, q)] = equivalent_patterns(p, q, stix_version="2.1")
    return _EQ[(p, q)]


# documented rewrites that must be recognised
REWRITES = [
    ("[a:b = 1 AND a:c = 2]", "[a:c = 2 AND a:b = 1]"), ("[a:b = 1 OR a:c = 2]", "[a:c = 2 OR a:b = 1]"),
    ("[a:b = 1 OR a:b = 1]", "[a:b = 1]"), ("[(a:b = 1 AND a:c = 2) AND a:d = 3]", "[a:b = 1 AND (a:c = 2 AND a:d = 3)]"),
    ("[a:b = 1 OR (a:b = 1 AND a:c = 2)]", "[a:b = 1]"), ("[a:b = 1 AND (a:c = 2 OR a:d = 3)]", "[(a:b = 1 AND a:c = 2) OR (a:b = 1 AND a:d = 3)]"),
    ("[a:b = 1] OR [a:c = 2]", "[a:c = 2] OR [a:b = 1]"), ("[a:b = 1] AND [a:c = 2]", "[a:c = 2] AND [a:b = 1]"),
    ("[a:b = 1] OR [a:b = 1]", "[a:b = 1]"), ("[a:b = 1] OR ([a:b = 1] AND [a:c = 2])", "[a:b = 1]"),
    ("([a:b = 1] OR [a:c = 2]) FOLLOWEDBY [a:d = 3]", "([a:b = 1] FOLLOWEDBY [a:d = 3]) OR ([a:c = 2] FOLLOWEDBY [a:d = 3])"),
    ("[a:b = 1] AND ([a:c = 2] OR [a:d = 3])", "([a:b = 1] AND [a:c = 2]) OR ([a:b = 1] AND [a:d = 3])"),
    ("[a:b IN (1, 2, 3)]", "[a:b IN (3, 1, 2)]"), ("[a:b = 1]", "[a:b = 1.0]"), ("[a:b IN (1, 2)]", "[a:b IN (2.0, 1)]"),
    ("[a:b[0].c = 1 OR a:b[0].d = 2]", "[a:b[0].d = 2 OR a:b[0].c = 1]"), ("[a:b[0].c = 1 OR a:b[0].c = 1]", "[a:b[0].c = 1]"),
    ("[a:b = 9007199254740992]", "[a:b = 9007199254740992.0]"), ("[a:b IN (9007199254740993, 1)]", "[a:b IN (1.0, 9007199254740993)]"),
    ("[ipv4-addr:value = '10.1.2.3/8']", "[ipv4-addr:value = '10.0.0.0/8']"), ("[windows-registry-key:key = 'HKLM\\\\Foo']", "[windows-registry-key:key = 'hklm\\\\foo']"),
]
DISTINCT = [
    ("[a:b = 1] FOLLOWEDBY [a:c = 2]", "[a:c = 2] FOLLOWEDBY [a:b = 1]"), ("[a:b = 1] AND [a:b = 1]", "[a:b = 1]"),
    ("[a:b NOT IN (1, 2)]", "[a:b IN (1, 2)]"), ("[a:b NOT > 1]", "[a:b > 1]"), ("[a:b = 1 AND a:c = 2]", "[a:b = 1 OR a:c = 2]"),
    ("[a:b = 1] REPEATS 2 TIMES", "[a:b = 1]"), ("([a:b = 1] AND [a:c = 2]) WITHIN 5 SECONDS", "[a:b = 1] AND [a:c = 2]"),
    ("[a:b = 1] AND ([a:b = 1] OR [a:c = 2])", "[a:b = 1]"),
    # a list index 0 is a path step like any other
    ("[a:b[0].c = 1]", "[a:b[0].d = 1]"), ("[a:b[0] = 1]", "[a:b = 1]"), ("[a:b[0].c = 1 OR a:b[0].d = 1]", "[a:b[0].c = 1]"), ("[a:b[0].c = 1]", "[a:b[1].c = 1]"),
    ("[a:b[0].c = 1 AND a:b[0].d = 1]", "[a:b[0].d = 1]"),
    # integers beyond 2**53 are exact: neighbours, and an integer against the double next to it, are different constants
    ("[a:b = 9007199254740993]", "[a:b = 9007199254740992]"), ("[a:b = 9007199254740993]", "[a:b = 9007199254740992.0]"),
    ("[a:b IN (9007199254740993, 1)]", "[a:b IN (9007199254740992, 1)]"), ("[a:b > 18014398509481985]", "[a:b > 18014398509481984]"),
    ("[a:b = 9007199254740993 OR a:b = 9007199254740992]", "[a:b = 9007199254740992]"),
]
# special-value canonicalisation (registry keys compare without case, addresses by network) applies to exactly the documented paths under the
# operators that compare a key / an address -- not to longer or shorter paths, other object types, regular expressions or text order
_RK, _V4, _V6 = ("'ABC'", "'abc'"), ("'1.2.3.4/24'", "'1.2.3.0/24'"), ("'1:2:3:4:5:6:7:8/112'", "'1:2:3:4:5:6:7:0/112'")
for _t, _paths, (_a, _b) in (("windows-registry-key", ["values[0]", "key.x", "values[0].name.x", "values", "values[0].data", "key[0]", "values[*].data_type"], _RK),
                             ("ipv4-addr", ["value.x", "value[0]", "resolves_to_refs[0].value", "valu"], _V4), ("ipv6-addr", ["value[0]", "value.x"], _V6),
                             ("file", ["name", "key"], _RK), ("domain-name", ["value"], _V4), ("mac-addr", ["value"], _V6), ("x-key", ["key", "values[0].name"], _RK)):
    for _p in _paths:
        DISTINCT.append(("[%s:%s = %s]" % (_t, _p, _a), "[%s:%s = %s]" % (_t, _p, _b)))
for _t, (_a, _b) in (("ipv4-addr", _V4), ("ipv6-addr", _V6)):
    for _op in ("MATCHES", "LIKE", ">", "<", ">=", "<="):
        DISTINCT.append(("[%s:value %s %s]" % (_t, _op, _a), "[%s:value %s %s]" % (_t, _op, _b)))
DISTINCT += [
    # a list index and a key spelled with the same digits are different steps
    ("[process:arguments[1] = '-k']", "[process:arguments.'1' = '-k']"), ("[x-a:b[1] = 1 OR x-a:b.'1' = 1]", "[x-a:b[1] = 1]"), ("[a:b[10].c = 1]", "[a:b.'10'.c = 1]"),
    ("[windows-registry-key:key MATCHES '\\\\D+']", "[windows-registry-key:key MATCHES '\\\\d+']"),
    ("[windows-registry-key:values[0].name MATCHES '^\\\\W\\\\S$']", "[windows-registry-key:values[0].name MATCHES '^\\\\w\\\\s$']"),
    # the same literal on a special path and on an ordinary path of one pattern: only the former compares without case / by network
    ("[windows-registry-key:key = 'HKLM\\\\Run' AND windows-registry-key:values[0].data = 'HKLM\\\\Run']",
     "[windows-registry-key:key = 'HKLM\\\\Run' AND windows-registry-key:values[0].data = 'hklm\\\\run']"),
    ("[ipv4-addr:value = '10.1.2.3/8'] AND [domain-name:value = '10.1.2.3/8']", "[ipv4-addr:value = '10.1.2.3/8'] AND [domain-name:value = '10.0.0.0/8']"),
    ("[ipv4-addr:value = '10.1.2.3/8' OR ipv4-addr:x_note = '10.1.2.3/8']", "[ipv4-addr:value = '10.1.2.3/8' OR ipv4-addr:x_note = '10.0.0.0/8']"),
]
REWRITES += [
    # absorption removes an operand of ANOTHER object type: the two sides then mention different types
    ("[ipv4-addr:value = '198.51.100.7'] OR ([ipv4-addr:value = '198.51.100.7'] AND [domain-name:value = 'example.com'])", "[ipv4-addr:value = '198.51.100.7']"),
    ("[a:b = 1] OR ([c:d = 2] FOLLOWEDBY [a:b = 1])", "[a:b = 1]"), ("[a:b = 1 OR (a:b = 1 AND a:c = 2)] OR [x:y = 3]", "[x:y = 3] OR [a:b = 1]"),
    ("[windows-registry-key:values[3].name = 'ABC']", "[windows-registry-key:values[3].name = 'abc']"), ("[windows-registry-key:values[*].name = 'ABC']", "[windows-registry-key:values[*].name = 'abc']"),
    ("[ipv4-addr:value ISSUBSET '10.1.2.3/8']", "[ipv4-addr:value ISSUBSET '10.0.0.0/8']"), ("[ipv6-addr:value = '1:2:3:4:5:6:7:8/112']", "[ipv6-addr:value = '1:2:3:4:5:6:7:0/112']"),
    ("[ipv4-addr:value != '10.1.2.3/8']", "[ipv4-addr:value != '10.0.0.0/8']"),
]
NRW, NDI = len(REWRITES), len(DISTINCT)
NRD = max(NRW, NDI)
# what the process did before must not matter: each verdict below is taken after these calls (special values canonicalised, literals seen on
# special paths), which is the history a long-running caller has anyway
HISTORY = [("[windows-registry-key:key = 'ABC']", "[windows-registry-key:key = 'abc']"), ("[ipv4-addr:value = '10.1.2.3/8']", "[ipv4-addr:value = '10.0.0.0/8']"),
           ("[ipv4-addr:value = '1.2.3.4/24']", "[ipv4-addr:value = '1.2.3.0/24']"), ("[ipv6-addr:value = '1:2:3:4:5:6:7:8/112']", "[ipv6-addr:value = '1:2:3:4:5:6:7:0/112']"),
           ("[windows-registry-key:key = 'HKLM\\\\Run']", "[windows-registry-key:key = 'hklm\\\\run']")]


def rewrites(i: int, which: int) -> bool:
    """
    pre: 0 <= which <= 1 and 0 <= i < NRD
    post: _
    """
    which, i = pick(which, 2), pick(i, NRD)
    with Native():
        for hp, hq in HISTORY:
            equivalent_patterns(hp, hq, stix_version="2.1")
        if which == 0 and i < NRW:
            p, q = REWRITES[i]
            ok = equivalent_patterns(p, q, stix_version="2.1") and equivalent_patterns(q, p, stix_version="2.1") \
                and list(find_equivalent_patterns(p, [q, "[zz:never = 0]"], stix_version="2.1")) == [q] \
                and list(find_equivalent_patterns(q, ["[zz:never = 0]", p, q], stix_version="2.1")) == [p, q]
        elif which == 1 and i < NDI:
            p, q = DISTINCT[i]
            ok = not equivalent_patterns(p, q, stix_version="2.1") and not equivalent_patterns(q, p, stix_version="2.1") \
                and list(find_equivalent_patterns(p, [q, p], stix_version="2.1")) == [p]
        else:
            ok = True
    V.reached()
    return ok


# ---------------------------------------------------------------- e. special values: canonical, idempotent, never crash
# the documented rewrites applied inside a larger pattern (comparison-level and observation-level contexts; {t} is the pattern's object type)
CCTX = ["[{p} AND {t}:z = 9]", "[({p}) OR {t}:z = 9]", "[{t}:y = 8 OR (({p}) AND {t}:z = 9)]", "[({p}) AND ({t}:y = 8 OR {t}:z = 9)]", "[(({p}) OR {t}:y = 8) AND {t}:z = 9]",
        "[(({p}) AND {t}:z = 9) OR (({q}) AND {t}:z = 9)]", "[{t}:z = 9 AND (({p}) OR ({q}))]"]
OCTX = ["({p}) AND [a:z = 9]", "({p}) OR [a:z = 9]", "[a:y = 8] FOLLOWEDBY (({p}) OR [a:z = 9])", "(({p}) AND [a:y = 8]) OR [a:z = 9]", "(({p}) OR [a:y = 8]) AND [a:z = 9]",
        "({p}) FOLLOWEDBY [a:z = 9]", "(({p}) OR [a:y = 8]) FOLLOWEDBY [a:z = 9]", "(({p}) AND [a:z = 9]) WITHIN 5 SECONDS", "(({p}) OR [a:y = 8]) REPEATS 2 TIMES",
        "(({p}) AND [a:z = 9]) OR (({q}) AND [a:z = 9])", "[a:z = 9] FOLLOWEDBY (({p}) OR ({q}))", "(({p}) OR ({q})) AND [a:z = 9]"]
NCTX = len(CCTX) + len(OCTX)


def rewrites_nested(i: int, ci: int) -> bool:
    """
    pre: 0 <= i < NRW and 0 <= ci < NCTX
    post: _
    """
    i, ci = pick(i, NRW), pick(ci, NCTX)
    with Native():
        ok = run_nested_rewrite(i, ci)
    V.reached()
    return ok


def run_nested_rewrite(i, ci):
    """C[p] ~ C[q] for every documented rewrite p ~ q and context C; contexts with two holes hold p and q on the left and q twice on the right"""
    p, q = REWRITES[i]
    comp = p.count("[") == 1 and q.count("[") == 1
    if ci < len(CCTX):
        if not comp:
            return True
        t = p[1:p.index(":")].lstrip("(")
        left = CCTX[ci].format(p="(%s)" % p[1:-1], q="(%s)" % q[1:-1], t=t)
        right = CCTX[ci].format(p="(%s)" % q[1:-1], q="(%s)" % q[1:-1], t=t)
    else:
        c = OCTX[ci - len(CCTX)]
        left, right = c.format(p=p, q=q), c.format(p=q, q=q)
    return bool(equivalent_patterns(left, right, stix_version="2.1")) and bool(equivalent_patterns(right, left, stix_version="2.1")) \
        and list(find_equivalent_patterns(left, [right, "[a:never = 0]"], stix_version="2.1")) == [right]


SPECIAL_PATHS = [("ipv4-addr", ["value"]), ("ipv6-addr", ["value"]), ("windows-registry-key", ["key"]), ("windows-registry-key", ["values", 0, "name"]),
                 ("ipv4-addr", ["resolves_to_refs", 0]), ("file", ["name"])]
SPECIAL_VALUES = ["10.1.2.3/8", "10.1.2.3", "10.1.2.3/32", "10.1.2.3/0", "10.1.2.3/33", "10.1.2.3/x", "999.1.1.1", "", "/", "1::2/64", "1:2:3:4:5:6:7:8/127",
                  "FE80::1", "HKEY_Local\\Foo", 1, 0, True, 2.5, [1, "10.1.2.3/8"]]
NSP, NSV = len(SPECIAL_PATHS), len(SPECIAL_VALUES)


def specials_total(pi: int, vi: int, opi: int, neg: bool) -> bool:
    """
    pre: 0 <= pi < NSP and 0 <= vi < NSV and 0 <= opi < 4
    post: _
    """
    pi, vi, opi, neg = pick(pi, NSP), pick(vi, NSV), pick(opi, 4), pickb(neg)
    with Native():
        ok = run_special_case(pi, vi, opi, neg)
    V.reached()
    return ok


def const_text(v):
    if isinstance(v, bool):
        return "true" if v else "false"
    if isinstance(v, (int, float)):
        return repr(v)
    if isinstance(v, list):
        return "(" + ", ".join(const_text(x) for x in v) + ")"
    return "'" + v.replace("\\", "\\\\").replace("'", "\\'") + "'"


def run_special_case(pi, vi, opi, neg):
    typ, path = SPECIAL_PATHS[pi]
    v = SPECIAL_VALUES[vi]
    op = ["=", "!=", "IN", "ISSUBSET"][opi]
    if isinstance(v, list) and op != "IN":
        return True                      # set literals are only legal with IN
    if op == "IN" and not isinstance(v, list):
        v = [v]
    if op == "ISSUBSET" and not isinstance(v, str):
        return True
    steps = "".join("[%d]" % s if isinstance(s, int) else ("." + s if k else s) for k, s in enumerate(path))
    text = "[%s:%s %s%s %s]" % (typ, steps, "NOT " if neg else "", op, const_text(v))
    # never fails on a syntactically valid pattern; reflexive; normal form is a fixed point of normalisation
    if not equivalent_patterns(text, text, stix_version="2.1"):
        return False
    n1, _ = _get_pattern_normalizer().transform(create_pattern_object(text, version="2.1"))
    n2, _ = _get_pattern_normalizer().transform(create_pattern_object(str(n1), version="2.1"))
    return observation_expression_cmp(n1, n2) == 0


# ---------------------------------------------------------------- qualifier order: zero iff the same qualifier (START/STOP, WITHIN, REPEATS)
from stix2.patterns import StartStopQualifier  # noqa: E402


def mk_qual(kind, a, b):
    if kind == 0:
        q = RepeatQualifier.__new__(RepeatQualifier)
        q.times_to_repeat = raw(IntegerConstant, a)
    elif kind == 1:
        q = WithinQualifier.__new__(WithinQualifier)
        q.number_of_seconds = raw(IntegerConstant, a)
    else:
        q = StartStopQualifier.__new__(StartStopQualifier)
        q.start_time = raw(IntegerConstant, a)        # integers stand for instants: only their order is used
        q.stop_time = raw(IntegerConstant, b)
    return QualifiedObservationExpression(leaf(1), q)


def qualifier_order_laws(k1: int, a1: int, b1: int, k2: int, a2: int, b2: int, k3: int, a3: int, b3: int) -> bool:
    """
    pre: 0 <= k1 <= 2 and 0 <= k2 <= 2 and 0 <= k3 <= 2
    post: _
    """
    k1, k2, k3 = pick(k1, 3), pick(k2, 3), pick(k3, 3)
    x, y, z = mk_qual(k1, a1, b1), mk_qual(k2, a2, b2), mk_qual(k3, a3, b3)
    xy, yx = observation_expression_cmp(x, y), observation_expression_cmp(y, x)
    yz, xz = observation_expression_cmp(y, z), observation_expression_cmp(x, z)
    V.reached()
    same = k1 == k2 and a1 == a2 and (k1 != 2 or b1 == b2)
    if (xy == 0) != same or sgn(xy) != -sgn(yx) or observation_expression_cmp(x, x) != 0:
        return False
    return not (xy <= 0 and yz <= 0) or xz <= 0


# ---- thorough: 4-atom comparison shapes
COMP_SHAPES4 = [
    lambda a, b, c, d: AndBooleanExpression([P_(OrBooleanExpression([a, b])), P_(OrBooleanExpression([c, d]))]),
    lambda a, b, c, d: AndBooleanExpression([a, P_(OrBooleanExpression([b, P_(AndBooleanExpression([c, d]))]))]),
    lambda a, b, c, d: OrBooleanExpression([P_(AndBooleanExpression([a, b])), P_(AndBooleanExpression([c, d]))]),
    lambda a, b, c, d: OrBooleanExpression([a, P_(AndBooleanExpression([b, P_(OrBooleanExpression([c, d]))]))]),
    lambda a, b, c, d: OrBooleanExpression([P_(AndBooleanExpression([a, b])), P_(AndBooleanExpression([a, b, c])), d]),     # absorption inside OR
    lambda a, b, c, d: AndBooleanExpression([P_(OrBooleanExpression([a, b])), P_(OrBooleanExpression([b, a])), c, d]),       # dedupe of equal ORs
]
NCS4 = len(COMP_SHAPES4)


def comp_norm_sound4(c1: int, c2: int, c3: int, c4: int, n1: bool, n2: bool, n3: bool, n4: bool, v: int) -> bool:
    """
    post: _
    """
    mk = lambda: COMP_SHAPES4[PARTNO % NCS4](atom(c1, n1), atom(c2, n2), atom(c3, n3), atom(c4, n4, ">"))   # noqa: E731
    before = ev(mk(), v)
    out, _ = comp_normalizer().transform(mk())
    V.reached()
    return ev(out, v) == before


# ---------------------------------------------------------------- f. address canonicalisation is sound: only well-formed addresses are rewritten
import ipaddress  # noqa: E402
import re as _re  # noqa: E402

IP4_BASES = ["1.2.3.4", "1.2.3.0", "10.1.2.3", "1.2.0.3", "0.0.0.1", "8.1.1.1", "1.0.0.0"]
IP6_BASES = ["1::2", "1:0:0:0:0:0:0:2", "1::", "a::b", "1:2:3:4:5:6:7:8"]
# how a pattern author may spell (or mis-spell) the value; {a} is the address, {s3} its three-part short form (a.b.(c*256+d))
DECOR = ["{a}", "{a}/32", "{a}/24", "{a}/8", "{a}/0", "{a}/128", "{a}/64", "{a} xyz", "{a} ", " {a}", "{a}\n", "{a}/+24", "{a}/ 24", "{a}/24 ", "{a}/2_4",
         "{a}/٢٤", "{a}/024", "{a}/33", "{a}/-1", "{a}/", "{s3}", "0x{a}", "0{a}", "{a}/+64", "{a}/6_4", "{a}/129", "{A}", "{a}.", "{a}/24/8"]
PLAIN = [0, 1, 2, 3, 4, 5, 6]      # decorations of the second value: the well-formed ones
NDEC = len(DECOR)


def _decorate(base, di, v6):
    parts = base.split(".")
    s3 = base if v6 or len(parts) != 4 else "%s.%s.%d" % (parts[0], parts[1], int(parts[2]) * 256 + int(parts[3]))
    return DECOR[di].format(a=base, s3=s3, A=base.upper())


def _ref_net(v, v6):
    """reference reading of an address value: ('net', network integer, prefix) for a strictly well-formed address / CIDR block, ('raw', text) for
    anything else (which then equals only itself); None where notations legitimately disagree (leading zeros: octal vs decimal)"""
    m = _re.fullmatch(r"([^/]*)(?:/([0-9]+))?", v, _re.ASCII)
    if not m:
        return ("raw", v)
    ip, pre = m.group(1), m.group(2)
    bits = 128 if v6 else 32
    if v6:
        if "%" in ip or "." in ip:
            return None
        try:
            n = int(ipaddress.IPv6Address(ip))
        except ValueError:
            return ("raw", v)
    else:
        q = _re.fullmatch(r"([0-9]+)\.([0-9]+)\.([0-9]+)\.([0-9]+)", ip, _re.ASCII)
        if not q:
            return ("raw", v)
        if any(len(g) > 1 and g[0] == "0" for g in q.groups()):
            return None
        if any(int(g) > 255 for g in q.groups()):
            return ("raw", v)
        n = 0
        for g in q.groups():
            n = n * 256 + int(g)
    if pre is None:
        k = bits
    else:
        if len(pre) > 1 and pre[0] == "0":
            return None
        k = int(pre)
        if k > bits:
            return ("raw", v)
    return ("net", (n >> (bits - k)) << (bits - k), k)


def specials_sound(v6: bool, bi: int, di: int, bj: int, dj: int) -> bool:
    """
    pre: 0 <= bi < 7 and 0 <= bj < 7 and 0 <= di < NDEC and 0 <= dj < 7
    pre: bi + (7 if v6 else 0) == PARTNO
    post: _
    """
    v6 = pickb(v6)
    nb = len(IP6_BASES) if v6 else len(IP4_BASES)
    if bi >= nb or bj >= nb:
        return True
    bi, di, bj, dj = pick(bi, nb), pick(di, NDEC), pick(bj, nb), pick(dj, 7)
    with Native():
        ok = run_specials_sound(v6, bi, di, bj, dj)
    V.reached()
    return ok


def run_specials_sound(v6, bi, di, bj, dj):
    bases = IP6_BASES if v6 else IP4_BASES
    v1, v2 = _decorate(bases[bi], di, v6), _decorate(bases[bj], PLAIN[dj], v6)
    r1, r2 = _ref_net(v1, v6), _ref_net(v2, v6)
    if r1 is None or r2 is None:
        return True
    t = "ipv6-addr" if v6 else "ipv4-addr"
    esc = lambda s: s.replace("\\", "\\\\").replace("'", "\\'")   # noqa: E731
    p1, p2 = "[%s:value = '%s']" % (t, esc(v1)), "[%s:value = '%s']" % (t, esc(v2))
    e = bool(equivalent_patterns(p1, p2, stix_version="2.1"))
    if bool(equivalent_patterns(p2, p1, stix_version="2.1")) != e:
        return False
    # sound: equivalent only if both denote the same network (or are the same text); complete for the documented CIDR canonicalisation
    return e == (r1 == r2)


# ---- the matcher that decides whether a comparison is on a special-value path: exact length, step by step
from stix2.equivalence.pattern.transform import specials as _SP   # noqa: E402
import stix2.patterns as _PT   # noqa: E402
STEP_ALPHABET = ["key", "values", "name", "value", 0, 3, "*", "x"]
PATH_PATTERNS = [("key",), ("values", _SP._ANY_IDX, "name"), ("value",), ("values", _SP._ANY, "name"), (_SP._ANY_KEY, "name"), ()]


def path_matcher(pi: int) -> bool:
    """
    pre: 0 <= pi < 6
    post: _
    """
    pi = pick(pi, 6)
    res = True
    with Native():
        for n in range(1, 5):
            for steps in itertools.product(STEP_ALPHABET, repeat=n):
                res = res and _path_case(list(steps), pi)
    V.reached()
    return res


def _path_case(steps, pi):
    # a path is a list of key steps, each optionally followed by an index step; an index cannot come first
    comps, i = [], 0
    while i < len(steps):
        st = steps[i]
        if not isinstance(st, str) or st == "*":
            return True
        if i + 1 < len(steps) and (isinstance(steps[i + 1], int) or steps[i + 1] == "*"):
            comps.append(_PT.ListObjectPathComponent(st, steps[i + 1]))
            i += 2
        else:
            comps.append(_PT.BasicObjectPathComponent(st, False))
            i += 1
    got = _SP._path_is(_PT.ObjectPath("t", comps), PATH_PATTERNS[pi])
    pat = PATH_PATTERNS[pi]

    def one(v, p):
        if p is _SP._ANY:
            return True
        if p is _SP._ANY_IDX:
            return isinstance(v, int) or v == "*"
        if p is _SP._ANY_KEY:
            return isinstance(v, str) and v != "*"
        return v == p
    return bool(got) == (len(steps) == len(pat) and all(one(v, p) for v, p in zip(steps, pat)))
