"""C09 -- pattern equivalence is a total, sound equivalence relation."""
from engine.spec import CH, JOB

H = "props.h_C09"
FC = ["stix2.equivalence.pattern.compare.comparison.constant_cmp", "stix2.equivalence.pattern.compare.comparison.comparison_expression_cmp",
      "stix2.equivalence.pattern.compare.comparison.simple_comparison_expression_cmp", "stix2.equivalence.pattern.compare.comparison.object_path_cmp",
      "stix2.equivalence.pattern.compare.generic_cmp", "stix2.equivalence.pattern.compare.iter_lex_cmp"]
FT = ["stix2.equivalence.pattern.transform.comparison.FlattenTransformer.transform", "stix2.equivalence.pattern.transform.comparison.OrderDedupeTransformer.transform",
      "stix2.equivalence.pattern.transform.comparison.AbsorptionTransformer.transform", "stix2.equivalence.pattern.transform.comparison.DNFTransformer.transform",
      "stix2.equivalence.pattern.transform.SettleTransformer.transform", "stix2.equivalence.pattern.transform.ChainTransformer.transform"]
FO = ["stix2.equivalence.pattern.transform.observation.FlattenTransformer.transform", "stix2.equivalence.pattern.transform.observation.OrderDedupeTransformer.transform",
      "stix2.equivalence.pattern.transform.observation.AbsorptionTransformer.transform", "stix2.equivalence.pattern.transform.observation.DNFTransformer.transform",
      "stix2.equivalence.pattern.transform.observation.NormalizeComparisonExpressionsTransformer.transform",
      "stix2.equivalence.pattern.compare.observation.observation_expression_cmp", "stix2.equivalence.pattern._get_pattern_normalizer"]
FE = ["stix2.equivalence.pattern.equivalent_patterns", "stix2.equivalence.pattern.find_equivalent_patterns"]
FS = ["stix2.equivalence.pattern.transform.specials._mask_bytes", "stix2.equivalence.pattern.transform.specials.ipv4_addr",
      "stix2.equivalence.pattern.transform.specials.ipv6_addr", "stix2.equivalence.pattern.transform.specials.windows_reg_key",
      "stix2.equivalence.pattern.transform.specials._path_is"]
FMT = "message formatting of symbolic values is opaque text (CrossHair plugin)"
ANTLR = "ANTLR lexer/parser of stix2patterns trusted"
SEM = ("reference semantics: binding-set evaluator written from the STIX patterning specification (disjoint bindings for AND, time order for "
       "FOLLOWEDBY, WITHIN span, REPEATS k disjoint); atoms are comparisons of one integer property")

META = {
    "engines": ["crosshair", "pysym"],
    "level_text": "Bounded symbolic model checking of the real equivalence code: the comparators used for sorting and the final comparison are checked "
                  "for reflexivity, antisymmetry, transitivity and 'zero iff same denotation' on directly built nodes with unbounded symbolic ints, "
                  "strings <= 2 chars, bools and kinds; the comparison-expression normaliser (flatten, order/dedupe, absorb, DNF, settle) is run by "
                  "CrossHair on 8 AST shapes whose atoms carry symbolic integer constants, negation flags and an operator, against a boolean "
                  "evaluator on a symbolic observed value; the full observation-level normaliser on 10 AND/OR/FOLLOWEDBY/WITHIN/REPEATS shapes with "
                  "symbolic constants, observed values and timestamps against a binding-set evaluator; through the real parser: every pair of 31 "
                  "generated pattern shapes over an atom table is checked for symmetry, reflexivity, soundness on a bounded universe of all "
                  "observation sequences of length <= 3 (values 1..3, 2 instants), and search = pairwise; transitivity over all triples; 17 "
                  "documented rewrites recognised and 8 non-equivalences kept apart; _mask_bytes for all 2^32 x 33 (thorough: also 2^128 x 129) "
                  "inputs by pysym; special-value handling never crashes for any constant kind and normal forms are fixed points.",
    "level_text_more": 'Also: 6 pattern shapes with repeated AND/FOLLOWEDBY operands (multiplicity matters); the 17 documented rewrites inside 19 comparison- and observation-level contexts; ipv4/ipv6 value canonicalisation against an independent strict reading over 12 addresses x 29 spellings. Integer constants beyond 2^53 (neighbours and the adjacent double are different constants). Rounds 5-6: special-value canonicalisation confined to its paths, object types and operators (56 non-equivalences, each after a fixed history of special-value comparisons, also by search); the path matcher over every path of <= 4 steps x 6 patterns; search agrees with the pairwise test across object types; index steps vs keys of the same digits.',
    "level_note": "ANTLR parsing trusted; semantics of LIKE/MATCHES/ISSUBSET are opaque (not evaluated); the reference semantics is mine, written from "
                  "the specification. Shapes are fixed (<= 3 atoms / leaves); text-level obligations are selector-enumerated over tables. "
                  "CIDR canonicalisation under '=' is the library's documented design and is not judged against string equality.",
    "technique": "CrossHair symbolic execution of the real comparators/normalisers on fixed-shape ASTs with symbolic constants vs independent "
                 "evaluators; enumerated pattern pairs through the real parser on a bounded universe; AST-to-SMT (pysym) for the CIDR mask kernel",
    "outside": ["ANTLR parsing", "LIKE/MATCHES/ISSUBSET/ISSUPERSET semantics", "patterns with more than 3 atoms / leaves", "START/STOP qualifiers",
                "address notations whose reading is ambiguous (zero-padded octets / prefix sizes, IPv6 zone ids and embedded IPv4)"],
    "assumptions": [FMT, ANTLR, SEM],
}


def obligations(tier):
    t = 300 if tier == "quick" else 1500
    obls = [
        CH("constant_cmp_order_laws", H, "cmp_antisym", t, functions=FC[:1] + FC[4:5], stubs=[FMT], bounds="two constants: kind in int/str/bool, ints unbounded, str <= 2"),
        CH("constant_cmp_transitive", H, "cmp_trans", t, functions=FC[:1], stubs=[FMT], bounds="three constants, kinds int/bool, ints unbounded"),
        CH("comparison_expression_cmp_laws", H, "expr_cmp_laws", t, functions=FC[1:4], stubs=[FMT], bounds="three atoms: 5 operators, NOT flag, unbounded int constant"),
    ]
    obls.append(CH("qualifier_order_laws", H, "qualifier_order_laws", t, functions=FO[5:6] + ["stix2.equivalence.pattern.compare.observation.startstop_cmp",
                   "stix2.equivalence.pattern.compare.observation.within_cmp", "stix2.equivalence.pattern.compare.observation.repeats_cmp"], stubs=[FMT],
                   bounds="three qualified expressions: qualifier kind REPEATS/WITHIN/START-STOP, unbounded int parameters (ints stand for instants)"))
    nshapes_c = 8
    for p in range(nshapes_c):
        obls.append(CH("comparison_normaliser_sound_s%d" % p, H, "comp_norm_sound", t, functions=FT + FC[1:4], stubs=[FMT, SEM], env={"VERIF_PART": str(p)},
                       bounds="AST shape %d of 8 with 3 atoms: symbolic int constants, negation flags, third operator; symbolic observed int" % p))
    if tier == "thorough":
        for p in range(6):
            obls.append(CH("comparison_normaliser_sound4_s%d" % p, H, "comp_norm_sound4", 2400, functions=FT + FC[1:4], stubs=[FMT, SEM], env={"VERIF_PART": str(p)},
                           bounds="4-atom AST shape %d of 6: symbolic int constants, negation flags; symbolic observed int" % p))
    obs_shapes = range(10) if tier == "thorough" else (3, 4)
    for p in obs_shapes:
        obls.append(CH("observation_normaliser_sound_s%d" % p, H, "obs_norm_sound", t * 2 if tier == "quick" else t, functions=FO + FT, stubs=[FMT, SEM],
                       env={"VERIF_PART": str(p)},
                       bounds="observation shape %d of 10, 3 leaves with symbolic int constants; 3 observations with symbolic values and instants in 0..2" % p))
    for p in range(8):
        obls.append(CH("pairs_sound_symmetric_search_p%d" % p, H, "pairs_sound", t, mode="E1s", functions=FE + FO[5:], stubs=[ANTLR, SEM], env={"VERIF_PART": str(p)},
                       bounds="pattern shapes s1 %% 8 == %d x 31 shapes x atoms (%s); universe: sequences <= 3 obs, values 1..3, 2 instants" % (
                           p, "4x3" if tier == "quick" else "8x8x2")))
    if tier == "thorough":
        for p in range(8):
            obls.append(CH("transitive_p%d" % p, H, "transitive", t, mode="E1s", functions=FE, stubs=[ANTLR], env={"VERIF_PART": str(p)},
                           bounds="all triples of 31 shapes (first shape %% 8 == %d) x 3x3 atoms" % p))
    obls.append(CH("documented_rewrites", H, "rewrites", t, mode="E1s", functions=FE, stubs=[ANTLR], bounds="26 documented rewrites (both directions), 56 non-equivalences (integers beyond 2^53, paths through index 0; special-value canonicalisation confined to its paths, object types and operators: longer / shorter paths, other types, MATCHES / LIKE / order operators, the same literal on a special and an ordinary path), each after a fixed history of special-value comparisons, also by search"))
    obls.append(CH("special_path_matcher", H, "path_matcher", t, mode="E1s", functions=["stix2.equivalence.pattern.transform.specials._path_is"],
                   bounds="every object path of 1-4 steps over an 8-symbol alphabet (keys, indices, *) x 6 path patterns (the three used by the library, wildcards, the empty pattern): match iff same length and step-wise match"))
    obls.append(CH("documented_rewrites_in_context", H, "rewrites_nested", t, mode="E1s", functions=FE + FT, stubs=[ANTLR],
                   bounds="26 documented rewrites x 19 comparison-/observation-level contexts (one and two holes): C[p] ~ C[q] both directions and by search"))
    obls.append(CH("special_values_total", H, "specials_total", t, mode="E1s", functions=FS + FE, stubs=[ANTLR],
                   bounds="6 object paths x 18 constants of every kind x 4 operators x NOT"))
    for p in list(range(7)) + list(range(7, 12)):
        obls.append(CH("address_canonicalisation_sound_p%02d" % p, H, "specials_sound", t, mode="E1s", functions=FS + FE, stubs=[ANTLR], env={"VERIF_PART": str(p)},
                   bounds="first address: " + ("ipv4 #%d" % p if p < 7 else "ipv6 #%d" % (p - 7)) + "; ipv4/ipv6 value comparisons: 7/5 addresses x 29 spellings (CIDR sizes, trailing/leading junk, signed/spaced/underscored/non-ASCII/zero-padded "
                          "prefix sizes, short and hex forms) vs 7/5 addresses x 7 well-formed spellings: equivalent iff same network per an independent strict reading"))
    obls.append(JOB("cidr_mask_bytes", "props.j_mask", "job_mask", 900, functions=FS[:1],
                    bounds="all 2^32 addresses x 33 prefix sizes (quick); also all 2^128 x 129 (thorough); symbolic bytes and prefix"))
    return obls
