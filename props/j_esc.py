"""pysym job: string constants print to lexable, meaning-preserving text (C10.b)."""
import time

import z3

from engine import xcheck

from engine.pysym import Engine, Interp, SStr, Unsupported, lift_c, mk
from stix2 import patterns as PT


def unescape_lexer(chars, eng):
    """STIX StringLiteral body: ( ~['\\\\] | '\\\\' ['\\\\] )* ; returns the denoted characters or None if the text is not in the language"""
    out = []
    i = 0
    while i < len(chars):
        c = lift_c(chars[i])
        if eng.decide(c == ord("'")):
            return None
        if eng.decide(c == ord("\\")):
            if i + 1 >= len(chars):
                return None
            n = lift_c(chars[i + 1])
            if eng.decide(z3.Or(n == ord("'"), n == ord("\\"))):
                out.append(chars[i + 1])
                i += 2
            else:
                return None
        else:
            out.append(chars[i])
            i += 1
    return out


def replay_escape(s):
    """real StringConstant(s) printed, parsed by the real pattern parser, denotes s again"""
    from stix2.pattern_visitor import create_pattern_object
    text = "[a:b = %s]" % PT.StringConstant(s)
    o = create_pattern_object(text, version="2.1")
    raw = o.operand.rhs.value
    back = raw.replace("\\\\", "\x00").replace("\\'", "'").replace("\x00", "\\")
    return back == s


def job_escape(tier, seed):
    t0 = time.time()
    maxlen = 4 if tier == "quick" else 6
    I = Interp({})
    eng = Engine()
    bad, cands, asserting, samples = 0, [], 0, []
    try:
        for L in range(0, maxlen + 1):
            def body(eng):
                cs = []
                for i in range(L):
                    c = z3.Int("c%d" % i)
                    eng.assume(z3.And(c >= 32, c <= 126))
                    cs.append(c)
                out = I.call_function(PT.escape_quotes_and_backslashes, [SStr(cs) if cs else ""], {})
                out = SStr.of(out)
                back = unescape_lexer(out.chars, eng)
                return cs, out, back
            for pc, (kind, val) in eng.explore(body):
                asserting += 1
                if kind != "return":
                    return {"verdict": "INCONCLUSIVE", "detail": "escape raised %r" % (val,)}
                cs, out, back = val
                if back is None or len(back) != len(cs):
                    post = z3.BoolVal(False)
                else:
                    post = z3.And([lift_c(a) == lift_c(b) for a, b in zip(back, cs)] + [z3.BoolVal(True)])
                s = z3.Solver()
                s.add(*pc)
                s.add(z3.Not(post))
                eng.queries += 1
                r = xcheck.check(s)
                if r == "unsat":
                    if len(samples) < 3:
                        samples.append({"length": L, "path_condition": [str(x) for x in pc[-2:]], "query": "unescape(escape(s)) != s", "result": "unsat"})
                    continue
                if r != "sat":
                    return {"verdict": "INCONCLUSIVE", "detail": "solver %s" % r}
                bad += 1
                m = s.model()
                w = "".join(chr(m.eval(c, model_completion=True).as_long()) for c in cs)
                cands.append({"call": "replay_escape(%r)" % w, "desc": "escaped text does not denote the original string"})
    except Unsupported as e:
        return {"verdict": "INCONCLUSIVE", "detail": "translator does not cover: %s" % e}
    # translator validation on concrete strings
    val = 0
    for w in ["", "a", "'", "\\", "\\'", "it's", "a\\b'c", "''", "\\\\"]:
        Engine.cur = eng
        if I.call_function(PT.escape_quotes_and_backslashes, [w], {}) != PT.escape_quotes_and_backslashes(w):
            return {"verdict": "ERROR", "detail": "translator validation failed on %r" % w}
        val += 1
    res = {"paths": eng.paths, "queries": eng.queries, "decisions": eng.decisions, "solver_s": round(eng.solver_time, 3), "reached": asserting > 0,
           "validated": val, "samples": samples, "extra": {"functions_interpreted": I.sources, "max_len": maxlen, "wall_s": round(time.time() - t0, 1)}}
    if cands:
        seen = []
        for c in cands:
            if c["call"] not in [x["call"] for x in seen]:
                seen.append(c)
        res.update(verdict="CANDIDATE", candidates=seen[:3], detail="%d violating path(s)" % bad)
    else:
        res.update(verdict="HOLDS", detail="%d paths discharged" % asserting)
    return res
