"""C18 -- federated sources and relationship navigation equal a scan of the data."""
from engine.spec import CH

H = "props.h_C18"
F = ["stix2.datastore.CompositeDataSource.get", "stix2.datastore.CompositeDataSource.all_versions", "stix2.datastore.CompositeDataSource.query",
     "stix2.datastore.CompositeDataSource.relationships", "stix2.datastore.CompositeDataSource.related_to",
     "stix2.datastore.DataSource.relationships", "stix2.datastore.DataSource.related_to", "stix2.datastore.DataSource.creator_of",
     "stix2.utils.deduplicate", "stix2.environment.Environment.__init__"]

META = {
    "engines": ["crosshair", "pysym"],
    "level_text": "Bounded model checking of the real federation and navigation code against a scan of the data: every assignment of 3 versions of an "
                  "object to 3 member sources (each version in any subset of members, 8^3) x every attachment order (6) x with/without a filter "
                  "attached to the composite, checked through CompositeDataSource and Environment (get = newest across members, all_versions / "
                  "query = each (id, version) once, creator_of); every graph of 2 relationships over 3 nodes (types tied) x queried node x "
                  "relationship-type filter x source-only/target-only flags (incl. the refused both-flags case) x 2 ways of splitting the data "
                  "over composite members, through MemorySource, MemoryStore, CompositeDataSource and Environment, by id string and by object, "
                  "with and without extra filters; deduplicate over all 3-element lists from a 2x3 (id, version) table.",
    "level_text_more": 'Also: two-level composites (a composite as member of the composite that carries the filter; filter on the Environment) and two versions within one millisecond; deduplicate on library objects as well as dicts. After answering through an outer composite / environment an inner composite carries no filters and answers unfiltered; the composite\'s choice of the latest answer decided by pysym. Rounds 5-6: the query as a FilterSet object used twice; objects without versions under attached filters; a FileSystemSource among the members; an Environment built over the still empty composite; deduplicate() by instant.',
    "level_note": "Selector-enumerated (CrossHair picks the configuration, the real code runs concretely). Member sources are MemorySources. "
                  "Graphs with more than 2 relationships / 3 nodes and more than 3 members are outside the claim.",
    "technique": "CrossHair-driven bounded enumeration of member assignments / relationship graphs on the real composite and navigation code vs a "
                 "scan model; AST-to-SMT interpretation (pysym, z3) of the composite's choice of the latest answer; counterexamples replayed natively",
    "outside": ["Environment equivalence scoring", "graphs > 2 relationships", "TAXII/FileSystem members (C11/C12 cover FS)"],
    "assumptions": [],
}


def obligations(tier):
    t = 300 if tier == "quick" else 900
    obls = [
        CH("federation_newest_dedup_w%d" % w, H, "federation", t, mode="E1s", functions=F[:3] + F[7:], env={"VERIF_PART": str(w)},
           bounds="wiring %d of 9 (6 attachment orders of a flat composite; 3 two-level composites, one with the filter on the Environment) x 3 versions (two "
                  "within one millisecond) x any subset of 3 members each x filter on/off; get/all_versions/query/creator_of via composite and Environment; the query as list, as a FilterSet object used twice (unchanged afterwards), as a single filter; an object without versions (2.1 SCO) that fails the filter" % w)
        for w in range(9)] + [
        CH("deduplicate", H, "dedup", t, mode="E1s", functions=F[8:9], bounds="all lists of 3 objects (dicts or library objects) from 2 ids x 3 versions, two of them within one millisecond, the third spelled three ways (a version is an instant)"),
    ]
    for q in range(3):
        obls.append(CH("navigation_q%d" % q, H, "navigation", t, mode="E1s", functions=F[3:8], env={"VERIF_PART": str(q)},
                       bounds="queried node %d; 2 relationships over 3 nodes (18 x 9 graphs) x 3 type filters x 4 flag settings x 2 member splits x 4 access paths; then the same with a filter attached to a memory source, a composite and a composite of a composite that hides one relationship" % q))
    from props import C11
    obls += [o for o in C11.obligations(tier) if o.name == "composite_latest_by_instant"]      # shared: the composite's choice of the latest answer
    return obls
