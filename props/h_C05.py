"""C05 harnesses: new versions are strictly newer, identity-preserving and exact."""
import copy
import datetime as dt
import json

import pytz

import stix2
from stix2 import utils, versioning
from stix2.exceptions import InvalidValueError, RevokeError, STIXError, UnmodifiablePropertyError

from engine.hlib import Native, Part, TIER, V, pick, pickb

PARTNO = Part.index
NSTEPS = 2 if TIER == "quick" else 3
from props import gen

BASE0 = dt.datetime(2020, 1, 1, 0, 0, 0, 0)
BASE = dt.datetime(2020, 1, 1, 0, 0, 0, 0, tzinfo=pytz.utc)
US = dt.timedelta(microseconds=1)


def us_of(d, base=BASE):
    td = d - base
    return td.days * 86400000000 + td.seconds * 1000000 + td.microseconds


# ---------------------------------------------------------------- L1: _fudge_modified
def fudge(old_us: int, new_us: int, v21: bool) -> bool:
    """
    pre: 0 <= old_us <= 5000000 and 0 <= new_us <= 5000000
    pre: v21 or old_us % 1000 == 0
    post: _
    """
    old = BASE0 + dt.timedelta(microseconds=old_us)
    new = BASE0 + dt.timedelta(microseconds=new_us)
    r = versioning._fudge_modified(old, new, v21)
    V.reached()
    r_us = us_of(r, BASE0)
    if v21:
        # strictly later at full (microsecond) precision; the clock reading is kept whenever it already is later
        return r_us > old_us and (r_us == new_us if new_us > old_us else r_us == old_us + 1)
    # 2.0: strictly later after truncation to milliseconds; clock kept whenever that already holds
    strictly = (r_us // 1000) > (old_us // 1000)
    kept = (r_us == new_us) if (new_us // 1000 > old_us // 1000) else (r_us // 1000 == old_us // 1000 + 1)
    return strictly and kept


# ---------------------------------------------------------------- L3: new_version / revoke on dictionaries, symbolic clock
def pid_model(value, precision="any", precision_constraint="exact"):
    """model of utils.parse_into_datetime for aware datetimes at millisecond precision (justified by the C15 obligations
    on the real function: value unchanged for 'min', microseconds truncated to whole milliseconds for 'exact')"""
    assert precision == "millisecond"
    if precision_constraint == "exact":
        return value.replace(microsecond=(value.microsecond // 1000) * 1000)
    return value


ID = "malware--c8d2fae5-7271-400c-b81d-931a4caf20b9"
CREATOR = "identity--311b2d2d-f010-4473-83ec-1edf84858f4c"
CHANGES = [
    {"name": "y"},                      # 0 ordinary change
    {"description": None},              # 1 removal
    {"labels": ["q"]},                  # 2 new key
    {"name": "y", "description": None, "labels": ["q"]},   # 3 all three
    {"created": "2000-01-01T00:00:00.000Z"},   # 4 unmodifiable
    {"id": None},                       # 5 unmodifiable, even as a removal
    {"created_by_ref": None},           # 6 unmodifiable removal
    {"type": "tool"},                   # 7 unmodifiable
    {},                                 # 8 no change
]
NCH = len(CHANGES)


def nv_dict(old_us: int, clock_us: int, v21: bool, has_user: bool, user_us: int, revoked: bool, has_rev: bool, chg: int) -> bool:
    """
    pre: 0 <= old_us <= 3000000 and 0 <= clock_us <= 3000000 and 0 <= user_us <= 3000000
    pre: 0 <= chg < NCH
    pre: v21 or old_us % 1000 == 0
    post: _
    """
    chg = pick(chg, NCH)
    old = BASE + dt.timedelta(microseconds=old_us)
    d = {"type": "malware", "id": ID, "created_by_ref": CREATOR, "created": "2019-01-01T00:00:00.000Z", "modified": old,
         "name": "x", "description": "d", "x_nested": {"a": [1, {"b": 2}]}}
    if v21:
        d["spec_version"] = "2.1"
    if has_rev:
        d["revoked"] = revoked
    snap = copy.deepcopy(d)
    kw = dict(CHANGES[chg])
    if has_user:
        kw["modified"] = BASE + dt.timedelta(microseconds=user_us)
    s1, s2 = versioning.get_timestamp, versioning.parse_into_datetime
    versioning.get_timestamp = lambda: BASE + dt.timedelta(microseconds=clock_us)
    versioning.parse_into_datetime = pid_model
    is_revoked = has_rev and revoked
    unmod = chg in (4, 5, 6, 7)
    old_cmp = old_us if v21 else (old_us // 1000) * 1000
    user_cmp = user_us if v21 else (user_us // 1000) * 1000
    try:
        try:
            n = versioning.new_version(d, **kw)
        finally:
            versioning.get_timestamp, versioning.parse_into_datetime = s1, s2
    except RevokeError:
        V.reached()
        return is_revoked and d == snap
    except UnmodifiablePropertyError:
        V.reached()
        return unmod and not is_revoked and d == snap
    except InvalidValueError:
        V.reached()
        return has_user and user_cmp <= old_cmp and not is_revoked and not unmod and d == snap
    V.reached()
    if is_revoked or unmod or (has_user and user_cmp <= old_cmp):
        return False
    if d != snap:
        return False
    for k in ("type", "id", "created", "created_by_ref"):
        if n.get(k) != snap.get(k):
            return False
    exp = dict(snap)
    for k, v in CHANGES[chg].items():
        if v is None:
            exp.pop(k, None)
        else:
            exp[k] = v
    got = dict(n)
    new_mod = got.pop("modified")
    exp.pop("modified")
    if got != exp:
        return False
    if n["x_nested"] is d["x_nested"] or n["x_nested"]["a"] is d["x_nested"]["a"]:
        return False
    new_us = us_of(new_mod)
    if has_user:
        return new_us == user_us
    if v21:
        return new_us > old_us and (new_us == clock_us if clock_us > old_us else True)
    return new_us // 1000 > old_us // 1000 and (new_us == clock_us if clock_us // 1000 > old_us // 1000 else True)


def chain(old_us: int, c1: int, c2: int, c3: int, v21: bool, rev_at: int) -> bool:
    """
    pre: 0 <= old_us <= 2000000 and 0 <= c1 <= 2000000 and 0 <= c2 <= 2000000 and 0 <= c3 <= 2000000
    pre: 0 <= rev_at <= 3 and (4 if v21 else 0) + rev_at == PARTNO
    pre: v21 or old_us % 1000 == 0
    pre: NSTEPS == 3 or c3 == 0
    post: _
    """
    rev_at = pick(rev_at, 4)
    d = {"type": "malware", "id": ID, "created": "2019-01-01T00:00:00.000Z", "modified": BASE + dt.timedelta(microseconds=old_us), "name": "x"}
    if v21:
        d["spec_version"] = "2.1"
    s1, s2 = versioning.get_timestamp, versioning.parse_into_datetime
    versioning.parse_into_datetime = pid_model
    mods = [old_us]
    cur = d
    ok = True
    try:
        for step, c in enumerate((c1, c2, c3)[:NSTEPS]):
            versioning.get_timestamp = lambda c=c: BASE + dt.timedelta(microseconds=c)
            if step == rev_at:
                cur = versioning.revoke(cur)
                if cur.get("revoked") is not True:
                    ok = False
            else:
                try:
                    cur = versioning.new_version(cur, name="n%d" % step)
                except RevokeError:
                    if rev_at >= step:
                        ok = False
                    break
                if rev_at < step:
                    ok = False          # a revoked object was versioned
            # plain dict again: under CrossHair dict(**kw) yields a proxy mapping whose type() cannot be re-instantiated (artefact)
            cur = {k: cur[k] for k in cur}
            mods.append(us_of(cur["modified"]))
        if rev_at < NSTEPS and ok:
            try:
                versioning.revoke(cur)
                if cur.get("revoked"):
                    ok = False          # revoked twice
            except RevokeError:
                pass
    finally:
        versioning.get_timestamp, versioning.parse_into_datetime = s1, s2
    V.reached()
    if not ok:
        return False
    for a, b in zip(mods, mods[1:]):
        if v21:
            if not b > a:
                return False
        elif not b // 1000 > a // 1000:
            return False
    return True


# ---------------------------------------------------------------- SCO identifier-contributing properties are locked (dict and object)
def sco_locked(form: int, v5: bool, prop: int, to_none: bool) -> bool:
    """
    pre: 0 <= form <= 1 and 0 <= prop <= 5
    post: _
    """
    form, prop, v5, to_none = pick(form, 2), pick(prop, 6), pickb(v5), pickb(to_none)
    with Native():
        ok = run_sco_case(form, v5, prop, to_none)
    V.reached()
    return ok


def run_sco_case(form, v5, prop, to_none):
    # whatever this call did, it is over: legal changes to other objects are applied as in a fresh process (nothing stays locked)
    return _run_sco_case(form, v5, prop, to_none) and _legal_changes_still_apply()


def _legal_changes_still_apply():
    try:
        m = stix2.v21.Malware(name="m", is_family=False).new_version(name="n2")
        t = versioning.new_version({"type": "tool", "id": "tool--" + gen.UU, "created": "2020-01-01T00:00:00.000Z", "modified": "2020-01-01T00:00:00.000Z",
                                    "name": "t", "labels": ["x"]}, name="t2")
        f = versioning.new_version(stix2.v21.File(id="file--" + gen.UU, name="a", created="2020-01-01T00:00:00.000Z", modified="2020-01-01T00:00:00.000Z", revoked=False,
                                                  allow_custom=True), hashes={"MD5": "0" * 32}, extensions={"ntfs-ext": {"sid": "s"}}, allow_custom=True)
        c = stix2.v20.Campaign(name="c").new_version(name="c2")
    except (TypeError, STIXError, ValueError):
        return False
    return m.name == "n2" and t["name"] == "t2" and "hashes" in f and "extensions" in f and c.name == "c2"


def _run_sco_case(form, v5, prop, to_none):
    """2.1 SCOs become versionable when they carry (custom) created / modified / revoked; with a deterministic (UUIDv5) id every change to an
    id-contributing property -- altering, removing, or ADDING one that was absent -- is refused; other changes give a new version with the same id"""
    common = dict(name="data.txt", size=3, mime_type="text/plain", created="2020-01-01T00:00:00.000Z", modified="2020-01-01T00:00:00.000Z", revoked=False, allow_custom=True)
    f = stix2.v21.File(**common) if v5 else stix2.v21.File(id="file--" + gen.UU, **common)
    data = f if form == 0 else json.loads(f.serialize())
    name = ("name", "hashes", "size", "mime_type", "parent_directory_ref", "extensions")[prop]
    val = None if to_none else {"name": "other.txt", "hashes": {"MD5": "0" * 32}, "size": 4, "mime_type": "a/b", "parent_directory_ref": "directory--" + gen.UU,
                                "extensions": {"ntfs-ext": {"sid": "s"}}}[name]
    contributing = name in ("name", "hashes", "parent_directory_ref", "extensions")       # STIX 2.1 section 6.7: file id contributing properties
    if to_none and name not in ("name", "size", "mime_type"):
        return True                                  # removing what is not there is no change
    if to_none and name == "name" and not v5:
        return True                                  # (a file needs name or hashes: the removal is refused for that reason)
    try:
        n = versioning.new_version(data, allow_custom=True, **{name: val})
    except UnmodifiablePropertyError:
        return v5 and contributing
    except (TypeError, STIXError, ValueError):
        return False                                 # this object IS versionable: a legal change must not be refused
    if v5 and contributing:
        return False                                 # silently accepted: the id no longer matches the id-contributing content
    return n["id"] == f.id and (n.get(name) is None) == to_none


# ---------------------------------------------------------------- change sets named through the 'custom_properties' argument
CP_OBJECTS = [lambda: stix2.v21.Malware(name="m", is_family=False, created=BASE, modified=BASE),
              lambda: stix2.v21.Malware(name="m", is_family=False, created=BASE, modified=BASE, created_by_ref=CREATOR),
              lambda: stix2.v20.Tool(name="t", labels=["x"], created=BASE, modified=BASE),
              lambda: stix2.v20.Tool(name="t", labels=["x"], created=BASE, modified=BASE, created_by_ref=CREATOR),
              lambda: stix2.v21.File(name="f", created=BASE, modified=BASE, revoked=False, allow_custom=True)]
CP_CHANGES = [("id", "malware--" + gen.UU2), ("type", "campaign"), ("created", "2019-01-01T00:00:00.000Z"), ("created_by_ref", "identity--" + gen.UU2),
              ("modified", "2019-06-01T00:00:00.000Z"), ("modified", "2020-01-01T00:00:00.000Z"), ("revoked", True), ("x_note", "n"), ("hashes", {"MD5": "0" * 32}), ("name", "other")]


def through_custom_properties(oi: int, ci: int, also_kwarg: bool) -> bool:
    """
    pre: 0 <= oi < len(CP_OBJECTS) and 0 <= ci < len(CP_CHANGES)
    post: _
    """
    oi, ci, also_kwarg = pick(oi, len(CP_OBJECTS)), pick(ci, len(CP_CHANGES)), pickb(also_kwarg)
    with Native():
        ok = run_cp_case(oi, ci, also_kwarg)
    V.reached()
    return ok


def run_cp_case(oi, ci, also_kwarg):
    """new_version(obj, custom_properties={p: v}) is one more way to name a property: either it is refused, or the result keeps type, id, created and
    creator (also a creator that was absent), has a strictly later modified, and a genuinely custom name is applied"""
    old = CP_OBJECTS[oi]()
    p, v = CP_CHANGES[ci]
    kw = {"description": "d"} if also_kwarg else {}
    try:
        new = old.new_version(custom_properties={p: v}, **kw)
    except (TypeError, STIXError, ValueError):
        return p != "x_note"
    for k in ("type", "id", "created", "created_by_ref"):
        if new.get(k) != old.get(k):
            return False
    written = [utils.parse_into_datetime(json.loads(o.serialize())["modified"]) for o in (old, new)]
    if not written[1] > written[0] or not new["modified"] > old["modified"]:
        return False
    if p == "x_note" and new.get("x_note") != "n":
        return False
    if old["type"] == "file" and str(old["id"])[-22] == "5" and p in ("hashes", "name") and new.get(p) != old.get(p):
        return False                       # an id-contributing property changed under a deterministic id
    return True


# ---------------------------------------------------------------- L2/L4: every versionable class, real objects, clock positions around old modified
GOOD, _SK = gen.buildable()
VERSIONABLE = [(ver, name, cls, kw) for (ver, cat, name, cls, kw) in GOOD if cat == "objects" and {"created", "modified", "revoked"} <= set(cls._properties)]
NV = len(VERSIONABLE)
OFFSETS = [-1000000, -1, 0, 1, 999, 1000, 1001, 1000000]
OLD_US = [0, 123000, 123456, 999999]


def real_objects(ci: int, oi: int, ki: int, form: int) -> bool:
    """
    pre: 0 <= ci < NV and 0 <= oi < 8 and 0 <= ki < 4 and 0 <= form <= 1
    post: _
    """
    ci, oi, ki, form = pick(ci, NV), pick(oi, 8), pick(ki, 4), pick(form, 2)
    with Native():
        ok = run_real_case(ci, oi, ki, form)
    V.reached()
    return ok


def run_real_case(ci, oi, ki, form):
    ver, name, cls, kw = VERSIONABLE[ci]
    old = BASE + dt.timedelta(microseconds=OLD_US[ki])
    kw = dict(kw, modified=old, created=BASE - dt.timedelta(days=1))
    obj = cls(**kw)
    data = obj if form == 0 else json.loads(obj.serialize())
    if form == 1 and ver == "2.1":
        data["spec_version"] = "2.1"
    before = obj.serialize() if form == 0 else json.dumps(data, sort_keys=True)
    old_text = json.loads(obj.serialize())["modified"]
    old_eff = utils.parse_into_datetime(old_text)          # what the object actually carries/serializes
    saved = versioning.get_timestamp
    texts = [old_text]
    cur = data
    try:
        for step in range(2):
            cur_mod = utils.parse_into_datetime(json.loads(_ser(cur))["modified"])
            versioning.get_timestamp = lambda m=cur_mod: utils.STIXdatetime(m + dt.timedelta(microseconds=OFFSETS[oi]))
            if form == 0 and OFFSETS[oi] % 2 == 0:
                cur = cur.new_version() if step == 0 else cur.revoke()          # the methods versionable objects carry
            else:
                cur = versioning.new_version(cur) if step == 0 else versioning.revoke(cur)
            texts.append(json.loads(_ser(cur))["modified"])
    finally:
        versioning.get_timestamp = saved
    after = obj.serialize() if form == 0 else json.dumps(data, sort_keys=True)
    if before != after:
        return False
    insts = [utils.parse_into_datetime(t) for t in texts]
    if not all(b > a for a, b in zip(insts, insts[1:])):
        return False
    j0, j2 = json.loads(_ser(obj)), json.loads(_ser(cur))
    for k in ("type", "id", "created", "created_by_ref"):
        if j0.get(k) != j2.get(k):
            return False
    rest0 = {k: v for k, v in j0.items() if k not in ("modified", "revoked")}
    rest2 = {k: v for k, v in j2.items() if k not in ("modified", "revoked")}
    return rest0 == rest2 and j2.get("revoked") is True and old_eff is not None


def _ser(x):
    if hasattr(x, "serialize"):
        return x.serialize()
    return json.dumps(x, default=lambda o: utils.format_datetime(o))


# ---------------------------------------------------------------- marking operations are versioning operations too
MK1 = "marking-definition--613f2e26-407d-48c7-9eca-b8e91df99dc9"
MK2 = "marking-definition--34098fce-860f-48ae-8e50-ebd3cc5e41da"
MK3 = "marking-definition--f88d31f6-486f-44da-b317-01333bde0b82"
MOPS = [
    ("add object marking", lambda o: stix2.markings.add_markings(o, MK2)),
    ("add two object markings", lambda o: stix2.markings.add_markings(o, [MK2, MK3])),
    ("remove object marking", lambda o: stix2.markings.remove_markings(o, MK1)),
    ("set object markings", lambda o: stix2.markings.set_markings(o, [MK3])),
    ("clear object markings", lambda o: stix2.markings.clear_markings(o)),
    ("add granular marking", lambda o: stix2.markings.add_markings(o, MK2, ["name"])),
    ("add granular marking on the marked selector", lambda o: stix2.markings.add_markings(o, MK2, ["description"])),
    ("remove granular marking", lambda o: stix2.markings.remove_markings(o, MK1, ["description"])),
    ("set granular marking", lambda o: stix2.markings.set_markings(o, MK3, ["description"])),
    ("clear granular marking", lambda o: stix2.markings.clear_markings(o, ["description"])),
    ("clear one of two selectors", lambda o: stix2.markings.clear_markings(o, ["labels"])),
]
NMOP = len(MOPS)


def marking_ops(mi: int, oi: int, ki: int, form: int, v21: bool, revoked: bool) -> bool:
    """
    pre: 0 <= mi < NMOP and 0 <= oi < 8 and 0 <= ki < 4 and 0 <= form <= 1
    post: _
    """
    mi, oi, ki, form, v21, revoked = pick(mi, NMOP), pick(oi, 8), pick(ki, 4), pick(form, 2), pickb(v21), pickb(revoked)
    with Native():
        ok = run_marking_case(mi, oi, ki, form, v21, revoked)
    V.reached()
    return ok


def run_marking_case(mi, oi, ki, form, v21, revoked):
    """each marking operation yields a new version: strictly later modified (also as serialized) whatever the clock reads, same identity and
    non-marking content, the original -- including its marking lists -- untouched; on a revoked object it is refused and changes nothing"""
    cls = stix2.v21.Malware if v21 else stix2.v20.Malware
    kw = dict(id=ID, name="x", description="d", labels=["l"], created=BASE - dt.timedelta(days=1), modified=BASE + dt.timedelta(microseconds=OLD_US[ki]),
              object_marking_refs=[MK1], granular_markings=[{"marking_ref": MK1, "selectors": ["description"]}, {"marking_ref": MK2, "selectors": ["labels", "created"]}])
    if v21:
        kw["is_family"] = False
    if revoked:
        kw["revoked"] = True
    obj = cls(**kw)
    data = obj if form == 0 else json.loads(obj.serialize())
    before = _ser(data) if form == 0 else json.dumps(data, sort_keys=True)
    old_text = json.loads(obj.serialize())["modified"]
    cur_mod = utils.parse_into_datetime(old_text)
    saved = versioning.get_timestamp
    versioning.get_timestamp = lambda: utils.STIXdatetime(cur_mod + dt.timedelta(microseconds=OFFSETS[oi]))
    try:
        try:
            new = MOPS[mi][1](data)
            refused = False
        except RevokeError:
            refused = True
    finally:
        versioning.get_timestamp = saved
    after = _ser(data) if form == 0 else json.dumps(data, sort_keys=True)
    if before != after:
        return False
    if revoked or refused:
        return revoked and refused
    j0, j1 = json.loads(obj.serialize()), json.loads(_ser(new))
    if not utils.parse_into_datetime(j1["modified"]) > utils.parse_into_datetime(j0["modified"]):
        return False
    skip = ("modified", "object_marking_refs", "granular_markings")
    if {k: v for k, v in j0.items() if k not in skip} != {k: v for k, v in j1.items() if k not in skip}:
        return False
    if (form == 0) != hasattr(new, "serialize"):
        return False
    stix2.parse(j1, allow_custom=False, version="2.1" if v21 else "2.0")
    return True


# ---------------------------------------------------------------- objects with custom content are versionable like any other
CUSTOM_STYLES = [
    ("x_ keyword with allow_custom", lambda cls, kw: cls(allow_custom=True, x_note="n", **kw)),
    ("custom_properties argument", lambda cls, kw: cls(custom_properties={"x_note": "n", "x_num": 0}, **kw)),
    ("custom_properties with a false-y value only", lambda cls, kw: cls(custom_properties={"x_flag": False}, **kw)),
    ("parsed with allow_custom", lambda cls, kw: stix2.parse(dict(json.loads(cls(**kw).serialize()), x_note="n"), allow_custom=True)),
    ("custom content only inside an embedded object", lambda cls, kw: cls(allow_custom=True, external_references=[{"source_name": "s", "external_id": "1", "x_in": 1}], **kw)),
]
NCS = len(CUSTOM_STYLES)
CUSTOM_OPS = [lambda o: o.new_version(name="changed"), lambda o: o.revoke(), lambda o: versioning.new_version(o, x_note=None),
              lambda o: versioning.new_version(o, x_more=1, allow_custom=True), lambda o: o.new_version(name="a").new_version(name="b").revoke(),
              lambda o: stix2.markings.add_markings(o, MK1).new_version(name="c")]
NCO = len(CUSTOM_OPS)


def custom_content_versions(si: int, oi: int, v21: bool) -> bool:
    """
    pre: 0 <= si < NCS and 0 <= oi < NCO
    post: _
    """
    si, oi, v21 = pick(si, NCS), pick(oi, NCO), pickb(v21)
    with Native():
        ok = run_custom_version_case(si, oi, v21)
    V.reached()
    return ok


def run_custom_version_case(si, oi, v21):
    cls = stix2.v21.Malware if v21 else stix2.v20.Malware
    kw = dict(id=ID, name="x", created=BASE - dt.timedelta(days=1), modified=BASE)
    kw.update({"is_family": False} if v21 else {"labels": ["l"]})
    o = CUSTOM_STYLES[si][1](cls, kw)
    before = o.serialize()
    try:
        n = CUSTOM_OPS[oi](o)
    except (STIXError, ValueError, TypeError):
        return False                             # a legal change set on a versionable object must produce a new version
    if o.serialize() != before:
        return False
    j0, j1 = json.loads(before), json.loads(n.serialize())
    if not utils.parse_into_datetime(j1["modified"]) > utils.parse_into_datetime(j0["modified"]):
        return False
    for k in ("type", "id", "created"):
        if j0[k] != j1[k]:
            return False
    # custom content that was not named in the change set is still there
    keep = [k for k in j0 if k.startswith("x_") and not (oi == 2 and k == "x_note")]
    return all(j1.get(k) == j0[k] for k in keep) and (oi != 2 or "x_note" not in j1)


# ---- the dictionary route for every kind of mapping, and revoked content that carries no 'modified'
import collections as _collections  # noqa: E402


class _SubDict(dict):
    pass


FORMS = [dict, _collections.OrderedDict, _SubDict, _collections.UserDict]
REVOKED_SHAPES = [  # (keys present, is it revoked)
    ({"created": True, "modified": True, "revoked": True}, True), ({"created": True, "modified": False, "revoked": True}, True),
    ({"created": True, "modified": True, "revoked": False}, False), ({"created": True, "modified": False, "revoked": False}, False),
]


def mapping_forms(fi: int, v21: bool, oi: int, ki: int, ri: int, op: int) -> bool:
    """
    pre: 0 <= fi < len(FORMS) and 0 <= oi < 8 and 0 <= ki < 4 and 0 <= ri < len(REVOKED_SHAPES) and 0 <= op <= 2
    post: _
    """
    fi, v21, oi, ki, ri, op = pick(fi, len(FORMS)), pickb(v21), pick(oi, 8), pick(ki, 4), pick(ri, len(REVOKED_SHAPES)), pick(op, 3)
    with Native():
        ok = run_mapping_case(fi, v21, oi, ki, ri, op)
    V.reached()
    return ok


def run_mapping_case(fi, v21, oi, ki, ri, op):
    """content given as any mapping (dict, OrderedDict, a dict subclass, UserDict) is versioned under the rules of ITS spec version: the new
    modified is strictly later as written at that version's precision, whatever the clock reads; revoked content -- also content that has
    'created' and 'revoked' but no 'modified' -- is refused by new_version, revoke and the marking operations"""
    shape, is_revoked = REVOKED_SHAPES[ri]
    old = BASE + dt.timedelta(microseconds=OLD_US[ki] if v21 else (OLD_US[ki] // 1000) * 1000)
    d = {"type": "malware", "id": ID, "created": utils.format_datetime(old), "name": "x"}
    d.update({"spec_version": "2.1", "is_family": False} if v21 else {"labels": ["x"]})
    if shape["modified"]:
        d["modified"] = utils.format_datetime(old)
    d["revoked"] = shape["revoked"]
    data = FORMS[fi](d)
    s1 = versioning.get_timestamp
    versioning.get_timestamp = lambda: utils.STIXdatetime(old + dt.timedelta(microseconds=OFFSETS[oi]))
    try:
        try:
            if op == 0:
                n = versioning.new_version(data, name="y")
            elif op == 1:
                n = versioning.revoke(data)
            else:
                n = stix2.markings.add_markings(data, MK1)
        finally:
            versioning.get_timestamp = s1
    except RevokeError:
        return is_revoked
    except (STIXError, ValueError, TypeError):
        return False
    if is_revoked:
        return False
    text = json.loads(json.dumps(dict(n), default=utils.format_datetime))
    precision = ("millisecond", "min") if v21 else ("millisecond", "exact")
    written = utils.parse_into_datetime(text["modified"], *precision)
    return written > utils.parse_into_datetime(utils.format_datetime(old), *precision) and n["id"] == ID and n["created"] == d["created"] and dict(data) == d
