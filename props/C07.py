"""C07 -- data-marking operations form a consistent algebra over (selector, marking) pairs."""
from engine.spec import CH

H = "props.h_C07"
F = ["stix2.markings.add_markings", "stix2.markings.remove_markings", "stix2.markings.clear_markings", "stix2.markings.set_markings",
     "stix2.markings.get_markings", "stix2.markings.is_marked",
     "stix2.markings.granular_markings.get_markings", "stix2.markings.granular_markings.is_marked",
     "stix2.markings.granular_markings.add_markings", "stix2.markings.granular_markings.remove_markings",
     "stix2.markings.granular_markings.clear_markings", "stix2.markings.granular_markings.set_markings",
     "stix2.markings.object_markings.add_markings", "stix2.markings.object_markings.remove_markings",
     "stix2.markings.object_markings.clear_markings", "stix2.markings.object_markings.set_markings", "stix2.markings.object_markings.is_marked",
     "stix2.markings.utils.expand_markings", "stix2.markings.utils.compress_markings", "stix2.versioning.new_version"]
CLOCK = "stix2.versioning.get_timestamp replaced by a deterministic strictly increasing clock"

META = {
    "engines": ["crosshair"],
    "level_text": "Bounded model checking of the real marking functions against a set-of-pairs reference model: every sequence of 2 (quick) / 3 "
                  "(thorough, third step restricted) add/remove/clear/set operations over 9 selectors of a real 2.1 Malware (incl. the prefix-related "
                  "names created / created_by_ref, list indices and nested paths) x 4 markings (2 marking refs, 2 languages), and every sequence of 3 "
                  "object-level operations; after every step all query functions (granular and API level, all inherited/descendants flag "
                  "combinations, every selector) are compared with the model, inputs are checked unmodified and results strictly parsed. "
                  "Ancestry by path components is checked with symbolic selector strings (<= 8 chars) by CrossHair.",
    "level_text_more": "Also: the same 2-step sequences starting from a parsed library object, and from 5 uncompressed marking lists (duplicate selectors, overlapping entries) as parsed content may carry; the fixture's name and labels.[1] hold false-y values. One operation naming two selectors and one or two markings after a first add (dict and object); the object-form sequences go through the methods objects carry. Rounds 5-6: the selector-walk kernels of C08 (list indices >= 10, hyphenated siblings, selector lists) are part of this check.",
    "level_note": "Sequences are solver-selected but concretely executed (selector-enumerated, E1s); only the ancestry obligation is symbolic over "
                  "arbitrary strings. Dictionary objects only (the functions accept them); marking objects and SRO fixtures outside the claim.",
    "technique": "CrossHair-driven bounded enumeration of operation sequences on the real functions vs a set model; symbolic selector strings for "
                 "ancestry; counterexamples replayed natively",
    "outside": ["sequences longer than 3", "objects other than the Malware fixture", "marking_ref=False/lang=False on clear/set"],
    "assumptions": [CLOCK],
}


def obligations(tier):
    t = 300 if tier == "quick" else 1500
    fn = "seq2" if tier == "quick" else "seq3"
    if tier == "quick":
        obls = [CH("granular_sequences_p%02d" % p, H, "seq2", t, mode="E1s", functions=F, stubs=[CLOCK], env={"VERIF_PART": str(p)},
                   bounds="first op %d of add/remove/clear/set with marking %d; all 9 selectors; second op any of 4 ops x 5 of 9 selectors x 4 markings" % (p // 4, p % 4))
                for p in range(16)]
    else:
        obls = [CH("granular_sequences_p%02d" % p, H, "seq3", 2400, mode="E1s", functions=F, stubs=[CLOCK], env={"VERIF_PART": str(p)},
                   bounds="first op %d of add/remove/clear/set with marking %d on the %s-indexed of 9 selectors; second op any of 4 ops x 9 selectors x 4 markings; third op "
                          "any of 4 ops x 3 selectors x 2 markings" % (p // 8, (p // 2) % 4, "even" if p % 2 == 0 else "odd")) for p in range(32)]
    for p in range(12):
        obls.append(CH("add_add_then_any_p%02d" % p, H, "seq_aao", t, mode="E1s", functions=F, stubs=[CLOCK], env={"VERIF_PART": str(p)},
                       bounds="add on two different selectors (pair index %% 12 == %d of 36 pairs, same or different marking of 4) then any of 4 ops on any of 9 selectors" % p))
    for p in range(10):
        obls.append(CH("from_uncompressed_markings_p%02d" % p, H, "seq_raw", t, mode="E1s", functions=F, stubs=[CLOCK], env={"VERIF_PART": str(p)},
                       bounds="start: raw marking list %d of 5 (duplicate selectors / overlapping entries, as parsed content may carry) on a %s; any op x 9 selectors x 4 markings, "
                              "then %s" % (p // 2, "dict" if p % 2 == 0 else "parsed object", "remove/clear x 2 selectors" if tier == "quick" else "any op x 4 selectors x 2 markings")))
    for p in range(16):
        obls.append(CH("granular_sequences_on_objects_p%02d" % p, H, "seq2_objects", t, mode="E1s", functions=F, stubs=[CLOCK], env={"VERIF_PART": str(p)},
                       bounds="as granular_sequences (2 steps) but on a parsed Malware object through the methods objects carry (obj.add_markings(...), obj.is_marked(...)); first op %d, marking %d" % (p // 4, p % 4)))
    for p in range(9):
        obls.append(CH("multi_selector_operations_p%d" % p, H, "seq_multi", t, mode="E1s", functions=F, stubs=[CLOCK], env={"VERIF_PART": str(p)},
                       bounds="add on selector %d (2 markings), then add/remove/clear/set naming two of 5 selectors and one or two markings, on a dict and on a parsed object" % p))
    obls.append(CH("object_level_sequences", H, "objseq", t * 2, mode="E1s", functions=F, stubs=[CLOCK],
                   bounds="one granular add (any of 9 selectors) then every sequence of 3 object-level add/remove/clear/set over 3 marking ids"))
    obls.append(CH("ancestry_by_path_components", H, "ancestry", 240 if tier == "quick" else 900, functions=F[6:9] + F[-3:], stubs=[CLOCK],
                   bounds="marked selector s and queried selector t: every pair of strings <= 8 chars; inherited/descendants symbolic"))
    # an operation on (selector, marking) pairs starts by finding what the selector addresses: the selector walk itself (C08's kernel obligations)
    from props import C08
    obls += [o for o in C08.obligations(tier) if o.name in ("sorted_walk_indices_and_hyphens", "selector_valid_iff_addresses", "selector_lists_symbolic")]
    return obls
