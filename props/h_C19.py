"""C19 harnesses: custom type registration is exact, exclusive and version-scoped."""
import json

import stix2
from stix2 import properties as P
from stix2 import registry
from stix2.exceptions import DuplicateRegistrationError, ParseError, STIXError

from engine.hlib import K, Native, Part, TIER, V, pick

PARTNO = Part.index
KINDS = ["objects", "observables", "markings", "extensions"]
VERS = ["2.0", "2.1"]
# names: two fresh valid names per kind, a built-in name of that kind, and invalid names
FRESH = {"objects": ["x-new-one", "x-new-two"], "observables": ["x-new-sco", "x-other-sco"], "markings": ["x-new-mark", "x-other-mark"],
         "extensions": ["x-new-ext", "x-other-ext"]}
BUILTIN = {"objects": "identity", "observables": "file", "markings": "tlp", "extensions": "ntfs-ext"}
INVALID = ["X-Bad", "ab", "x_bad", "x-b٣d", "9-starts-with-digit"]
NNAME = 3 + len(INVALID)


def name_of(kind, ni):
    if ni < 2:
        return FRESH[kind][ni]
    if ni == 2:
        return BUILTIN[kind]
    return INVALID[ni - 3]


def name_valid(name, ver, kind):
    ok = all(c in "abcdefghijklmnopqrstuvwxyz0123456789-" for c in name) and 3 <= len(name) <= 250
    if ver == "2.1":
        ok = ok and name[0] in "abcdefghijklmnopqrstuvwxyz"
        if kind == "extensions":
            ok = ok and (name.endswith("-ext") or name.startswith("extension-definition--"))
    return ok


def snapshot():
    return {ver: {cat: dict(m) for cat, m in cats.items()} for ver, cats in registry.STIX2_OBJ_MAPS.items()}


def restore(saved):
    for ver, cats in saved.items():
        for cat, m in cats.items():
            registry.STIX2_OBJ_MAPS[ver][cat].clear()
            registry.STIX2_OBJ_MAPS[ver][cat].update(m)


def register(kind, ver, name):
    mod = stix2.v21 if ver == "2.1" else stix2.v20
    props = [("prop_one", P.StringProperty())]
    if kind == "objects":
        @mod.CustomObject(name, props)
        class K(object):
            pass
    elif kind == "observables":
        @mod.CustomObservable(name, props)
        class K(object):
            pass
    elif kind == "markings":
        @mod.CustomMarking(name, props)
        class K(object):
            pass
    else:
        @mod.CustomExtension(name, props)
        class K(object):
            pass
    return K


def doc_for(kind, ver, name):
    uu = "311b2d2d-f010-4473-83ec-1edf84858f4c"
    if name == BUILTIN[kind]:
        return None                      # built-in classes have their own required properties: registry identity is checked instead
    if kind == "objects":
        d = {"type": name, "id": "%s--%s" % (name, uu), "created": "2020-01-01T00:00:00.000Z", "modified": "2020-01-01T00:00:00.000Z", "prop_one": "v"}
        if ver == "2.1":
            d["spec_version"] = "2.1"
        return d
    if kind == "observables":
        d = {"type": name, "prop_one": "v"}
        if ver == "2.1":
            d["id"] = "%s--%s" % (name, uu)
        return d
    return None


def resolves(kind, ver, name, cls):
    """the registry and the parser resolve exactly this name for exactly this version to cls (None = not registered)"""
    if registry.class_for_type(name, ver, kind) is not cls:
        return False
    d = doc_for(kind, ver, name)
    if d is None:
        return True
    try:
        o = stix2.parse(d, version=ver) if kind == "objects" else stix2.parse_observable(d, version=ver)
    except (ParseError, STIXError, ValueError):
        return cls is None or not isinstance(cls, type)
    if cls is None:
        return False
    if not isinstance(o, cls):
        return False
    # no version named: content of this type is recognised as the version it is written in (spec_version member for 2.1 objects, an id for 2.1
    # observables) and resolves to the same class -- as dictionary, JSON text and bundle member.  Skipped where the other version knows the name
    # too (the detection rule then has two candidates: not part of this claim).
    other = "2.0" if ver == "2.1" else "2.1"
    clash = any(name in registry.STIX2_OBJ_MAPS[other][k] for k in ("objects", "observables"))
    if not clash and (kind == "objects" or ver == "2.1"):
        try:
            forms = [stix2.parse(dict(d)), stix2.parse(json.dumps(d))]
            if ver == "2.1":
                forms.append(stix2.parse({"type": "bundle", "id": "bundle--311b2d2d-f010-4473-83ec-1edf84858f4c", "objects": [dict(d)]})["objects"][0])
        except (ParseError, STIXError, ValueError):
            return False
        if not all(isinstance(x, cls) for x in forms):
            return False
    if kind == "objects":
        again = stix2.parse(o.serialize(), version=ver)
        return again == o and isinstance(again, cls) and o.new_version(prop_one="w")["prop_one"] == "w"
    return True


def run_history(steps):
    """steps: list of (op, kind idx, version idx, name idx); op 0 = register, 1 = parse/lookup only"""
    saved = snapshot()
    try:
        # the library has been in use before this history starts (content of both versions parsed without naming a version)
        stix2.parse({"type": "identity", "id": "identity--311b2d2d-f010-4473-83ec-1edf84858f4c", "created": "2020-01-01T00:00:00.000Z",
                     "modified": "2020-01-01T00:00:00.000Z", "name": "n", "identity_class": "individual"})
        stix2.parse({"type": "file", "id": "file--311b2d2d-f010-4473-83ec-1edf84858f4c", "name": "f"})
        model = {}
        for ver in VERS:
            for kind in KINDS:
                for n, c in registry.STIX2_OBJ_MAPS[ver][kind].items():
                    model[(ver, kind, n)] = c
        base = dict(model)
        for (op, ki, vi, ni) in steps:
            kind, ver = KINDS[ki], VERS[vi]
            name = name_of(kind, ni)
            if op == 1:
                if not resolves(kind, ver, name, model.get((ver, kind, name))):
                    return False
                continue
            try:
                K = register(kind, ver, name)
                ok = True
            except (ValueError, DuplicateRegistrationError, STIXError, TypeError):
                ok = False
            should = name_valid(name, ver, kind) and (ver, kind, name) not in model
            if ok != should:
                return False
            if ok:
                model[(ver, kind, name)] = K
            # exact, exclusive, version scoped: the whole registry equals the model after every step
            cur = {}
            for v in VERS:
                for k in KINDS:
                    for n, c in registry.STIX2_OBJ_MAPS[v][k].items():
                        cur[(v, k, n)] = c
            if cur != model:
                return False
            for v in VERS:
                if not resolves(kind, v, name, model.get((v, kind, name))):
                    return False
        # built-in registrations are intact
        return all(model.get(k) is c for k, c in base.items())
    finally:
        restore(saved)


def history2(o1: int, k1: int, v1: int, n1: int, o2: int, k2: int, v2: int, n2: int) -> bool:
    """
    pre: 0 <= o1 <= 1 and 0 <= k1 < 4 and 0 <= v1 <= 1 and 0 <= n1 < NNAME and k1 == PARTNO
    pre: 0 <= o2 <= 1 and 0 <= k2 < 4 and 0 <= v2 <= 1 and 0 <= n2 < NNAME
    post: _
    """
    steps = [(pick(o1, 2), pick(k1, 4), pick(v1, 2), pick(n1, NNAME)), (pick(o2, 2), pick(k2, 4), pick(v2, 2), pick(n2, NNAME))]
    with Native():
        ok = run_history(steps)
    V.reached()
    return ok


def history3_same_kind(k: int, o1: int, v1: int, n1: int, o2: int, v2: int, n2: int, v3: int, n3: int) -> bool:
    """
    pre: 0 <= k < 4 and k == PARTNO and 0 <= o1 <= 1 and 0 <= o2 <= 1 and 0 <= v1 <= 1 and 0 <= v2 <= 1 and 0 <= v3 <= 1
    pre: 0 <= n1 < 3 and 0 <= n2 < 3 and 0 <= n3 < 3
    post: _
    """
    k = pick(k, 4)
    steps = [(pick(o1, 2), k, pick(v1, 2), pick(n1, 3)), (pick(o2, 2), k, pick(v2, 2), pick(n2, 3)), (1, k, pick(v3, 2), pick(n3, 3))]
    with Native():
        ok = run_history(steps)
    V.reached()
    return ok


# ---------------------------------------------------------------- property naming rules: reference-named properties must be references
REF_NAMES = ["target_ref", "src_host_ref", "x_acme_owner_ref", "a_b_c_d_ref", "target_refs", "related_host_refs", "x_acme_member_refs",       # reference-named
             "href", "xrefs", "ref_count", "refs_seen", "x_ref_note", "preference", "x_refs_"]                                                   # not reference-named
NREFN = len(REF_NAMES)


def _prop_of(ti, ver, kind):
    old_sco = ver == "2.0" and kind == "observables"
    ref = (lambda: P.ObjectReferenceProperty(valid_types="file")) if old_sco else (lambda: P.ReferenceProperty(valid_types="identity", spec_version=ver))
    return [lambda: P.StringProperty(), lambda: P.ListProperty(P.StringProperty), ref, lambda: P.ListProperty(ref()), lambda: P.IntegerProperty(),
            lambda: P.ListProperty(P.IntegerProperty)][ti]()


def ref_property_rules(ki: int, vi: int, ni: int, ti: int) -> bool:
    """
    pre: 0 <= ki < 4 and 0 <= vi < 2 and 0 <= ni < NREFN and 0 <= ti < 6
    post: _
    """
    ki, vi, ni, ti = pick(ki, 4), pick(vi, 2), pick(ni, NREFN), pick(ti, 6)
    with Native():
        ok = run_ref_rule_case(ki, vi, ni, ti)
    V.reached()
    return ok


def run_ref_rule_case(ki, vi, ni, ti):
    """a property whose name ends in _ref must be a reference property and one ending in _refs a list of them (object references for 2.0
    observables); a registration that breaks the rule is refused and leaves the registry as it was; any other name takes any property type"""
    kind, ver, pname = KINDS[ki], VERS[vi], REF_NAMES[ni]
    mod = stix2.v21 if ver == "2.1" else stix2.v20
    tail = pname.split("_")[-1]
    want_ok = (tail == "ref" and ti == 2) or (tail == "refs" and ti == 3) or tail not in ("ref", "refs")
    deco = {"objects": mod.CustomObject, "observables": mod.CustomObservable, "markings": mod.CustomMarking, "extensions": mod.CustomExtension}[kind]
    name = FRESH[kind][0]
    saved = snapshot()
    try:
        try:
            @deco(name, [("prop_one", P.StringProperty()), (pname, _prop_of(ti, ver, kind))])
            class K(object):
                pass
            ok = True
        except (ValueError, STIXError, TypeError):
            ok = False
        if ok != want_ok:
            return False
        if not ok and snapshot() != saved:
            return False
        return ok == (registry.class_for_type(name, ver, kind) is not None)
    finally:
        restore(saved)


# ---------------------------------------------------------------- registered custom markings: definition_type decides the class of the definition
def marking_definition_forms(v21: bool, ti: int, fi: int) -> bool:
    """
    pre: 0 <= ti < 4 and 0 <= fi < 7
    post: _
    """
    v21, ti, fi = bool(v21) and True or False, pick(ti, 4), pick(fi, 7)
    with Native():
        ok = run_marking_form_case(v21, ti, fi)
    V.reached()
    return ok


def run_marking_form_case(v21, ti, fi):
    """a marking-definition's definition is built from a dictionary, an instance of the right class, an instance of ANOTHER registered marking
    class, a built-in marking instance, JSON text or junk: either refused, or the definition is an instance of the class registered for
    definition_type, the object round trips and parses to the same class"""
    mod = stix2.v21 if v21 else stix2.v20
    ver = "2.1" if v21 else "2.0"
    saved = snapshot()
    try:
        @mod.CustomMarking("x-mark-a", [("prop_one", P.StringProperty(required=True))])
        class MarkA(object):
            pass

        @mod.CustomMarking("x-mark-b", [("prop_one", P.StringProperty(required=True)), ("other", P.IntegerProperty())])
        class MarkB(object):
            pass
        dtype = ["x-mark-a", "x-mark-b", "statement", "tlp"][ti]
        want_cls = [MarkA, MarkB, mod.StatementMarking, mod.TLPMarking][ti]
        forms = [{"prop_one": "v"}, MarkA(prop_one="v"), MarkB(prop_one="v", other=1), mod.StatementMarking(statement="s"), mod.TLPMarking(tlp="red"),
                 json.dumps({"prop_one": "v"}), 5]
        if ti == 2 and fi == 0:
            forms[0] = {"statement": "s"}
        kw = {}
        if ti == 3:
            # a TLP marking definition is one of the four fixed objects of the specification
            forms[0] = {"tlp": "red"}
            kw = {"id": stix2.TLP_RED["id"], "created": stix2.TLP_RED["created"]} if not v21 else {"id": stix2.v21.TLP_RED["id"], "created": stix2.v21.TLP_RED["created"],
                                                                                                   "name": "TLP:RED"}
        try:
            md = mod.MarkingDefinition(definition_type=dtype, definition=forms[fi], **kw)
        except (STIXError, ValueError, TypeError):
            return fi not in ((0, 1), (0, 2), (0, 3), (0, 4))[ti]     # the dictionary and the right-class instance must be accepted
        if not isinstance(md.definition, want_cls):
            return False
        text = md.serialize()
        back = stix2.parse(text, version=ver)
        return type(back) is type(md) and isinstance(back.definition, want_cls) and back.serialize() == text
    finally:
        restore(saved)


# ---------------------------------------------------------------- custom types may declare every property kind, also as list elements
PROP_KINDS = [
    ("string", lambda: P.StringProperty(), "v"), ("integer", lambda: P.IntegerProperty(), 0), ("float", lambda: P.FloatProperty(), 0.5),
    ("boolean", lambda: P.BooleanProperty(), False), ("timestamp", lambda: P.TimestampProperty(), "2020-01-01T00:00:00.120Z"),
    ("binary", lambda: P.BinaryProperty(), "YWJj"), ("hex", lambda: P.HexProperty(), "00ff"), ("enum", lambda: P.EnumProperty(["a", "b"]), "b"),
    ("open vocabulary", lambda: P.OpenVocabProperty(["a", "b"]), "zz"), ("dictionary", lambda: P.DictionaryProperty(spec_version="2.1"), {"key": 1}),
    ("hashes", lambda: P.HashesProperty(["MD5"], spec_version="2.1"), {"MD5": "0" * 32}),
    ("reference", lambda: P.ReferenceProperty(valid_types="identity", spec_version="2.1"), "identity--311b2d2d-f010-4473-83ec-1edf84858f4c"),
    ("embedded object", lambda: P.EmbeddedObjectProperty(stix2.v21.KillChainPhase), {"kill_chain_name": "k", "phase_name": "p"}),
]
NPK = len(PROP_KINDS)


def custom_property_kinds(ki: int, as_list: bool, kind: int) -> bool:
    """
    pre: 0 <= ki < NPK and 0 <= kind <= 2
    post: _
    """
    ki, as_list, kind = pick(ki, NPK), bool(as_list) and True or False, pick(kind, 3)
    with Native():
        ok = run_prop_kind_case(ki, as_list, kind)
    V.reached()
    return ok


def run_prop_kind_case(ki, as_list, kind):
    """a custom object / observable / extension declaring a property of each kind (single or as ListProperty) accepts a legal value,
    serializes it, and parses its own serialization back to an equal object in strict mode"""
    name, mk, val = PROP_KINDS[ki]
    prop = P.ListProperty(mk()) if as_list else mk()
    value = [val, val] if as_list else val
    saved = snapshot()
    try:
        uu = "311b2d2d-f010-4473-83ec-1edf84858f4c"
        if kind == 0:
            @stix2.v21.CustomObject("x-kinds", [("p_val", prop)])
            class K(object):
                pass
            o = K(p_val=value)
        elif kind == 1:
            @stix2.v21.CustomObservable("x-kinds-sco", [("name", P.StringProperty(required=True)), ("p_val", prop)], ["name"])
            class K(object):
                pass
            o = K(name="n", p_val=value)
        else:
            @stix2.v21.CustomExtension("extension-definition--" + uu, [("p_val", prop)])
            class K(object):
                extension_type = "property-extension"
            o = stix2.v21.Identity(name="n", identity_class="individual", extensions={"extension-definition--" + uu: {"extension_type": "property-extension", "p_val": value}})
        text = o.serialize()
        back = stix2.parse(text, allow_custom=False)
        if type(back) is not type(o) or back != o or back.serialize() != text:
            return False
        j = json.loads(text)
        got = j["p_val"] if kind != 2 else j["extensions"]["extension-definition--" + uu]["p_val"]
        if name == "timestamp":
            inst = stix2.utils.parse_into_datetime
            return [inst(x) for x in (got if as_list else [got])] == [inst(x) for x in (value if as_list else [value])]
        return got == value
    finally:
        restore(saved)


# ---------------------------------------------------------------- types declared with extension_name: own defining extension next to other extensions
def extension_name_types(sco: bool, other: int, own_given: bool, route: int) -> bool:
    """
    pre: 0 <= other <= 3 and 0 <= route <= 2
    post: _
    """
    sco, other, own_given, route = bool(sco) and True or False, pick(other, 4), bool(own_given) and True or False, pick(route, 3)
    with Native():
        ok = run_extension_name_case(sco, other, own_given, route)
    V.reached()
    return ok


def run_extension_name_case(sco, other, own_given, route):
    """a custom object / observable declared with extension_name carries its own defining extension; whatever other extensions it is given
    (registered property extension, unregistered one, both, none) are kept, through the constructor, parse of a dictionary and parse of text"""
    saved = snapshot()
    try:
        own = "extension-definition--0a0a0a0a-f010-4473-83ec-1edf84858f4c"
        reg = "extension-definition--0b0b0b0b-f010-4473-83ec-1edf84858f4c"
        unreg = "extension-definition--0c0c0c0c-f010-4473-83ec-1edf84858f4c"

        @stix2.v21.CustomExtension(reg, [("k", P.StringProperty())])
        class RegExt(object):
            extension_type = "property-extension"
        if sco:
            @stix2.v21.CustomObservable("x-own-sco", [("name", P.StringProperty(required=True))], ["name"], extension_name=own)
            class T(object):
                pass
        else:
            @stix2.v21.CustomObject("x-own-sdo", [("name", P.StringProperty(required=True))], extension_name=own)
            class T(object):
                pass
        exts = {}
        if other in (1, 3):
            exts[reg] = {"extension_type": "property-extension", "k": "v"}
        if other in (2, 3):
            exts[unreg] = {"extension_type": "property-extension", "q": 1}
        if own_given:
            exts[own] = {"extension_type": "new-sco" if sco else "new-sdo"}
        kw = {"name": "n"}
        if exts:
            kw["extensions"] = exts
        if route == 0:
            o = T(**kw)
        else:
            d = dict(kw, type="x-own-sco" if sco else "x-own-sdo", spec_version="2.1")
            d["id"] = "%s--311b2d2d-f010-4473-83ec-1edf84858f4c" % d["type"]
            if not sco:
                d.update(created="2020-01-01T00:00:00.000Z", modified="2020-01-01T00:00:00.000Z")
            o = stix2.parse(d if route == 1 else json.dumps(d), allow_custom=False)
        if type(o) is not T:
            return False
        j = json.loads(o.serialize())
        want_keys = set(exts) | {own}
        if set(j.get("extensions", {})) != want_keys:
            return False
        for k, v in exts.items():
            if k != own and j["extensions"][k] != v:
                return False
        back = stix2.parse(o.serialize(), allow_custom=False)
        return type(back) is T and back == o and back.serialize() == o.serialize()
    finally:
        restore(saved)


# ---------------------------------------------------------------- a registration is version-scoped for references too
def version_scoped_references(reg21: bool, ref21: bool, allow: bool, sight: bool) -> bool:
    """
    post: _
    """
    reg21, ref21, allow, sight = (bool(x) and True or False for x in (reg21, ref21, allow, sight))
    with Native():
        ok = run_scoped_ref_case(reg21, ref21, allow, sight)
    V.reached()
    return ok


def run_scoped_ref_case(reg21, ref21, allow, sight):
    """a custom object type registered for ONE spec version (name without x- prefix) is a known type for references from objects of that
    version only; from the other version a reference to it is custom content (refused in strict mode, flagged otherwise)"""
    saved = snapshot()
    try:
        regmod, refmod = (stix2.v21 if reg21 else stix2.v20), (stix2.v21 if ref21 else stix2.v20)

        @regmod.CustomObject("acme-widget", [("prop_one", P.StringProperty())])
        class W(object):
            pass
        target = "acme-widget--311b2d2d-f010-4473-83ec-1edf84858f4c"
        known = reg21 == ref21
        try:
            if sight:
                o = refmod.Sighting(sighting_of_ref=target, allow_custom=allow)
            else:
                o = refmod.Relationship("malware--311b2d2d-f010-4473-83ec-1edf84858f4c", "uses", target, allow_custom=allow)
        except (STIXError, ValueError):
            return not known and not allow
        return (known or allow) and o.has_custom == (not known)
    finally:
        restore(saved)


# ---------------------------------------------------------------- a refused registration leaves nothing behind, also when it registers two things at once
OWN_EXT = "extension-definition--0d0d0d0d-f010-4473-83ec-1edf84858f4c"
TAKEN_EXT = "extension-definition--0e0e0e0e-f010-4473-83ec-1edf84858f4c"
REG_FAIL = [
    # (type name, extension name, expected to be refused)
    ("identity", OWN_EXT, True), ("file", OWN_EXT, True), ("relationship", OWN_EXT, True), ("x-fresh-type", OWN_EXT, False), ("X-Bad", OWN_EXT, True), ("ab", OWN_EXT, True),
    ("x-fresh-type", TAKEN_EXT, True), ("x-fresh-type", "extension-definition--foo", True), ("x-fresh-type", "extension-definition--", True),
    ("x-fresh-type", "bad name", True), ("x-fresh-type", "x-fresh-ext", True), ("x-fresh-type", None, False), ("identity", None, True), ("file", None, True),
    ("indicator", None, True), ("x-taken-sco", None, True), ("x-taken-sdo", None, True), ("x-taken-sdo", OWN_EXT, True), ("x-taken-sco", OWN_EXT, True),
    ("x-fresh-type", "extension-definition--0D0D0D0D-f010-4473-83ec-1edf84858f4c", True), ("x-fresh-type", "ntfs-ext", True),
]
NRF = len(REG_FAIL)


def _is_uuid(t):
    import uuid
    try:
        return str(uuid.UUID(t)) == t
    except ValueError:
        return False


def registration_failures(ci: int, kind: int) -> bool:
    """
    pre: 0 <= ci < NRF and 0 <= kind <= 2
    post: _
    """
    ci, kind = pick(ci, NRF), pick(kind, 3)
    with Native():
        ok = run_reg_failure_case(ci, kind)
    V.reached()
    return ok


def run_reg_failure_case(ci, kind):
    """kind 0: CustomObject (new SDO), 1: CustomObject(is_sdo=False) (new SRO), 2: CustomObservable"""
    tname, ename, refused = REG_FAIL[ci]
    if ename and ename.startswith("extension-definition--") and not _is_uuid(ename[len("extension-definition--"):]) and ename.islower() and K.open("C19-extension-id-not-uuid"):
        return True                 # listed finding: an extension-definition name whose tail is not a UUID is registered
    saved = snapshot()
    try:
        @stix2.v21.CustomExtension(TAKEN_EXT, [("k", P.StringProperty())])
        class Taken(object):
            extension_type = "property-extension"

        @stix2.v21.CustomObject("x-taken-sdo", [("k", P.StringProperty())])
        class TakenSdo(object):
            pass

        @stix2.v21.CustomObservable("x-taken-sco", [("k", P.StringProperty())], ["k"])
        class TakenSco(object):
            pass
        before = snapshot()
        try:
            kw = {"extension_name": ename} if ename else {}
            if kind == 2:
                @stix2.v21.CustomObservable(tname, [("name", P.StringProperty(required=True))], ["name"], **kw)
                class T(object):
                    pass
            else:
                @stix2.v21.CustomObject(tname, [("name", P.StringProperty(required=True))], is_sdo=kind == 0, **kw)
                class T(object):
                    pass
            got_refused = False
        except (STIXError, ValueError, TypeError):
            got_refused = True
        if got_refused != refused:
            return False
        after = snapshot()
        if got_refused:
            return after == before                                   # nothing was added, nothing was replaced
        # accepted: exactly the type (and its extension, if named) were added
        cat = "observables" if kind == 2 else "objects"
        added = {(c, n) for c in KINDS for n in after["2.1"][c] if n not in before["2.1"][c]}
        want = {(cat, tname)} | ({("extensions", ename)} if ename else set())
        if added != want or after["2.0"] != before["2.0"] or any(after["2.1"][c][n] is not before["2.1"][c][n] for c in KINDS for n in before["2.1"][c]):
            return False
        doc = {"type": tname, "spec_version": "2.1", "id": tname + "--311b2d2d-f010-4473-83ec-1edf84858f4c", "name": "n"}
        if kind != 2:
            doc.update(created="2020-01-01T00:00:00.000Z", modified="2020-01-01T00:00:00.000Z")
        return type(stix2.parse(doc)) is T
    finally:
        restore(saved)
