"""C06 -- STIX 2.1 observable identifiers are deterministic and specification-exact."""
from engine.spec import CH, JOB

H = "props.h_C06"
F = ["stix2.base._Observable._generate_id", "stix2.base._choose_one_hash", "stix2.base._make_json_serializable", "stix2.v21.base._Observable.__init__"]

META = {
    "engines": ["crosshair", "pysym", "re2z3"],
    "level_text": "Bounded model checking of the real id-generation code: _choose_one_hash for every presence vector of 6 hash kinds and both "
                  "insertion orders (symbolic bools); _generate_id on directly built instances of every 2.1 SCO class for every presence vector of "
                  "the specified contributing properties, ordinary and falsy values, with/without non-contributing properties, with canonicalize "
                  "replaced by a recorder (the hashed dictionary must be exactly the specified one); real constructors/parse/round trip on 15 "
                  "cases against an independent canonicalizer + uuid5; _make_json_serializable on symbolic leaves. Canonical bytes are C16's obligations.",
    "level_text_more": 'Also: Custom observables whose contributors include a defaulted own property and common SCO properties (extensions, defanged); values arriving as keyword arguments, through custom_properties, as a bundle member dictionary. Rounds 5-6: contributing timestamps across precisions and construction orders; distinct contributing texts (unpaired surrogates, U+FFFD, escaped spellings) get distinct ids.',
    "level_note": "Frozen copy of the per-type contributing lists (props/h_C06.py, from the specification text; 'languages' for software follows the "
                  "pinned tree, see DESIGN.md). uuid5/SHA-1 trusted. Presence vectors are selector-enumerated (E1s); value universes are small tables.",
    "technique": "CrossHair symbolic/enumerated execution of the real id-generation functions with a recorder stub for canonicalize; "
                 "counterexamples replayed natively",
    "outside": ["uuid.uuid5 / SHA-1", "custom observables' id_contrib_props beyond the registration check in C19", "values outside the tables"],
    "assumptions": ["canonicalize replaced by a recorder in the contributing-set obligation (its own behaviour is C16)"],
}


def obligations(tier):
    t = 300 if tier == "quick" else 900
    return [
        CH("choose_one_hash", H, "choose_hash", t, functions=F[1:2], bounds="presence of MD5/SHA-1/SHA-256/SHA-512 and two others, both insertion orders (symbolic bools)"),
        CH("contributing_set_every_sco", H, "contributing", t, mode="E1s", functions=F[:3],
           bounds="18 SCO classes x every presence vector of the specified contributing properties x ordinary/falsy values x with/without other properties"),
        CH("end_to_end_ids", H, "end_to_end", t, mode="E1s", functions=F,
           bounds="19 constructor cases (incl. hash dictionaries and boolean arrays nested in contributing extensions) x (kwargs, reversed kwargs, parse, round trip without id, custom_properties, bundle member, id=None, every nested dictionary in the opposite order); explicit id kept"),
        CH("custom_observable_ids", H, "custom_observable", t, mode="E1s", functions=F[:1] + ["stix2.custom._custom_observable_builder"],
           bounds="registered custom observable whose contributors are 2 own properties, an own property with a default, extensions and defanged: every presence vector x ordinary/falsy values (incl. 10^21) x (kwargs, custom_properties, parse)"),
        CH("timestamp_contributors_across_formats", H, "timestamp_contributors", t, mode="E1s", functions=F[:1] + F[2:3],
           bounds="4 instants (0-6 fraction digits) as text or datetime x three custom observables whose contributing timestamp has precision millisecond-exact / millisecond-min / any and network-traffic.start, "
                  "built in each rotation of the order, twice: every id is the UUIDv5 of the text that object writes, and survives a round trip"),
        CH("distinct_values_distinct_ids", H, "distinct_values_distinct_ids", t, mode="E1s", functions=F[:1],
           bounds="every ordered pair of 11 texts (unpaired surrogates, U+FFFD, '?', astral, escaped spellings, NUL, case / trailing blank) as the contributing value of 3 observable types: accepted texts get their own UUIDv5, different texts different ids"),
        CH("make_json_serializable", H, "json_serializable", t, functions=F[2:3], bounds="int unbounded, bool, str <= 3, nested list/dict, None"),
    ] + canonical_bytes(tier)


def canonical_bytes(tier):
    """C06.e: the exact byte string hashed is RFC 8785 canonical JSON -- the C16 solver obligations on the canonicalizer, shared"""
    from props import C16
    return [o for o in C16.obligations(tier) if not o.name.startswith("encoder_structure")]
