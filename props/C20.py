"""C20 -- confidence-scale conversions are total, monotone and round-trip."""
from engine.spec import CH

F = ["stix2.confidence.scales." + n for n in (
    "value_to_none_low_medium_high", "none_low_med_high_to_value", "value_to_zero_ten", "zero_ten_to_value",
    "value_to_admiralty_credibility", "admiralty_credibility_to_value", "value_to_wep", "wep_to_value",
    "value_to_dni", "dni_to_value")]
M = "props.h_C20"
FMT = "message formatting of symbolic values is opaque text (CrossHair plugin)"

META = {
    "engines": ["crosshair"],
    "level_text": "Bounded symbolic model checking of the ten real conversion functions: every integer (unbounded, symbolic) and every "
                  "string up to 40 characters is covered by CrossHair/z3 to 'Confirmed over all paths'; the functions have no loops, so "
                  "the integer claims need no unwinding bound. Right level because the property is a finite table plus refusal outside it.",
    "level_text_more": 'Also: every label of every scale offered to each of the 5 scales after having been converted by its own scale (answers must not depend on call history). 12 objects that are not strings are refused by every scale. Rounds 5-6: every symbolic verdict also after a fixed history (all values and labels converted once); two-call claims looped inside the harness over -103..103 and over all 52 label spellings incl. a repeated unknown label.',
    "level_note": "Trusts CrossHair 0.0.110 + z3 and the frozen copy of the STIX 2.1 Appendix A tables in props/h_C20.py; "
                  "message formatting of symbolic values is stubbed to opaque text; non-int numeric inputs are outside the claim.",
    "technique": "CrossHair symbolic execution of the real functions (z3), all paths confirmed; counterexamples replayed natively",
    "outside": ["non-int numeric inputs (floats, Decimal) to value_to_*", "labels longer than 40 characters (label_side bound)"],
    "assumptions": ["Appendix A tables of STIX 2.1 as frozen in props/h_C20.py (written from the specification text)"],
}


def obligations(tier):
    t = 60 if tier == "quick" else 300
    return [
        CH("value_to_label", M, "value_side", t, functions=F[0::2], stubs=[FMT],
           bounds="scale in 5 scales (forked), v: every int 0..100 (symbolic); in a fresh state and after a fixed history (every value and label converted once)"),
        CH("out_of_range_refused", M, "out_of_range", t, functions=F[0::2], stubs=[FMT],
           bounds="v: EVERY int < 0 or > 100 (unbounded symbolic int; no loop, so no unwinding bound); in a fresh state and after a fixed history (every value and label converted once)"),
        CH("monotone", M, "monotone", t, functions=F[0::2], stubs=[FMT],
           bounds="all pairs 0 <= a <= b <= 100 (symbolic)"),
        CH("label_to_value_and_unknown_refused", M, "label_side", t, plugin="str", functions=F, stubs=[FMT],
           bounds="s: every str with len <= 40 (symbolic); in a fresh state and after a fixed history"),
        CH("label_roundtrip_table", M, "label_roundtrip", t, functions=F, stubs=[FMT], mode="E1s",
           bounds="every (scale, label) row of the frozen table (selector-enumerated)"),
        CH("value_answers_do_not_depend_on_history", M, "value_after_history", t, functions=F[0::2], stubs=[FMT], mode="E1s",
           bounds="two conversions in a row on the same scale: every ordered pair of ints in -103..103 (and four far values second), 5 scales; both loops inside the harness in a fixed order"),
        CH("label_answers_do_not_depend_on_history", M, "label_pairs", t, functions=F[1::2], stubs=[FMT], mode="E1s",
           bounds="two or three label conversions in a row on the same scale (the second repeated): every ordered pair from all 40 labels of all scales plus 12 unknown spellings, 5 scales"),
        CH("non_label_objects_refused", M, "non_label_objects", t, functions=F[1::2], stubs=[FMT], mode="E1s",
           bounds="5 scales x 12 objects that are not strings (None, bools, numbers, bytes, containers holding a label, NaN)"),
        CH("answers_do_not_depend_on_history", M, "label_after_history", t, functions=F, stubs=[FMT], mode="E1s",
           bounds="every label of every scale converted first, then offered to each of the 5 scales (after a value conversion for symbolic v in -2..102)"),
    ]
