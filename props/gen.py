"""Valid base objects for every registered class of both spec versions, derived from the LIVE property tables.

minimal(cls)   -> kwargs dict with every required property (plus whatever the co-constraints demand)
full(cls)      -> kwargs dict with every property the tables define that can be populated generically
all_classes()  -> [(version, category, type name, class)]
The values are fixed, spec-valid literals per property kind; overrides handle classes whose co-constraints need help.
"""
import stix2
from stix2 import properties as P
from stix2 import registry
from stix2.base import _STIXBase

TS = "2020-01-01T00:00:00.000Z"
TS2 = "2020-01-02T00:00:00.000Z"
UU = "311b2d2d-f010-4473-83ec-1edf84858f4c"
UU2 = "411b2d2d-f010-4473-83ec-1edf84858f4c"

REF_PREF = ["identity", "malware", "file", "ipv4-addr", "relationship", "marking-definition", "indicator", "observed-data", "location",
            "network-traffic", "email-addr", "directory", "user-account", "artifact", "autonomous-system", "mac-addr", "domain-name",
            "email-message", "process", "software", "windows-registry-key", "x509-certificate", "url", "ipv6-addr", "mutex", "campaign",
            "attack-pattern", "course-of-action", "grouping", "infrastructure", "intrusion-set", "malware-analysis", "note", "opinion",
            "report", "threat-actor", "tool", "vulnerability", "sighting", "language-content", "extension-definition"]


def all_classes():
    out = []
    for ver in ("2.0", "2.1"):
        maps = registry.STIX2_OBJ_MAPS[ver]
        for cat in ("objects", "observables", "markings", "extensions"):
            for name, cls in sorted(maps.get(cat, {}).items()):
                if isinstance(cls, type) and issubclass(cls, _STIXBase):
                    out.append((ver, cat, name, cls))
    return out


def ref_value(prop, version, alt=False):
    uu = UU2 if alt else UU
    for t in REF_PREF:
        try:
            v = "%s--%s" % (t, uu)
            prop.clean(v, False)
            return v
        except Exception:  # noqa: BLE001
            continue
    raise ValueError("no acceptable reference type")


def value_for(name, prop, version, depth=0):
    """a spec-valid literal for this property (None if it cannot be produced generically)"""
    if hasattr(prop, "_fixed_value"):
        return prop._fixed_value
    if isinstance(prop, P.TypeProperty):
        return prop._fixed_value
    if isinstance(prop, P.IDProperty):
        return prop.required_prefix + UU
    if isinstance(prop, P.ListProperty):
        c = prop.contained
        if isinstance(c, P.Property):
            v = value_for(name, c, version, depth)
        elif depth < 3:
            v = minimal(c, version, depth + 1)
        else:
            v = None
        return None if v is None else [v]
    if isinstance(prop, P.EnumProperty) or isinstance(prop, P.OpenVocabProperty):
        return list(prop.allowed)[0]
    if isinstance(prop, P.PatternProperty):
        return "[file:name = 'x']"
    if isinstance(prop, P.ObjectReferenceProperty):
        return None                       # 2.0 object references need a surrounding container
    if isinstance(prop, P.StringProperty):
        if name == "pattern_version":
            return "2.1"
        if name == "lang":
            return "en"
        return "x"
    if isinstance(prop, P.IntegerProperty):
        lo = prop.min if prop.min is not None else 0
        return max(lo, 0) if prop.max is None or max(lo, 0) <= prop.max else lo
    if isinstance(prop, P.FloatProperty):
        return 0.5
    if isinstance(prop, P.BooleanProperty):
        return True
    if isinstance(prop, P.TimestampProperty):
        return TS
    if isinstance(prop, P.HashesProperty):
        return {"MD5": "0" * 32} if version == "2.0" or True else None
    if isinstance(prop, P.ExtensionsProperty):
        return None
    if isinstance(prop, P.DictionaryProperty):
        return {"key": "v"}
    if isinstance(prop, P.BinaryProperty):
        return "YWJj"
    if isinstance(prop, P.HexProperty):
        return "0a"
    if isinstance(prop, P.ReferenceProperty):
        return ref_value(prop, version)
    if isinstance(prop, P.SelectorProperty):
        return "type"
    if isinstance(prop, P.EmbeddedObjectProperty):
        return minimal(prop.type, version, depth + 1) if depth < 3 else None
    if isinstance(prop, P.ObservableProperty):
        return {"0": {"type": "file", "name": "x"}}
    if isinstance(prop, P.STIXObjectProperty):
        return None
    return None


OVERRIDES = {
    # (version, type): extra kwargs needed by co-constraints that cannot be derived generically
    ("2.1", "marking-definition"): {"definition_type": "statement", "definition": {"statement": "s"}},
    ("2.0", "marking-definition"): {"definition_type": "statement", "definition": {"statement": "s"}},
    ("2.1", "language-content"): {"object_ref": "identity--" + UU, "contents": {"en": {"name": "x"}}},
    ("2.1", "malware-analysis"): {"product": "p", "result": "benign"},
    ("2.1", "artifact"): {"payload_bin": "YWJj"},
    ("2.0", "artifact"): {"payload_bin": "YWJj"},
    ("2.1", "network-traffic"): {"protocols": ["tcp"], "src_ref": "ipv4-addr--" + UU},
    ("2.1", "sighting"): {"sighting_of_ref": "indicator--" + UU},
    ("2.0", "sighting"): {"sighting_of_ref": "indicator--" + UU},
    ("2.1", "location"): {"country": "us"},
    ("2.1", "file"): {"name": "x"},
    ("2.0", "file"): {"name": "x"},
    ("2.1", "email-message"): {"is_multipart": False},
    ("2.0", "email-message"): {"is_multipart": False},
    ("2.1", "extension-definition"): {"extension_types": ["property-extension"], "schema": "https://x/y", "version": "1.0.0", "created_by_ref": "identity--" + UU},
    ("2.1", "observed-data"): {"object_refs": ["file--" + UU]},
    ("2.1", "indicator"): {"pattern_type": "stix", "pattern": "[file:name = 'x']"},
    ("2.1", "x509-certificate"): {"serial_number": "1"},
    ("2.0", "x509-certificate"): {"serial_number": "1"},
    ("2.1", "opinion"): {"opinion": "agree", "object_refs": ["identity--" + UU]},
    ("2.1", "malware"): {"name": "x", "is_family": True},
    ("2.1", "process"): {"pid": 1},
    ("2.0", "network-traffic"): {"protocols": ["tcp"], "src_ref": "0", "_valid_refs": {"0": "ipv4-addr"}},
    ("2.0", "archive-ext"): {"contains_refs": ["0"], "_valid_refs": {"0": "file"}},
    ("2.1", "windows-registry-key"): {"key": "HKEY_LOCAL_MACHINE\\\\x"},
    ("2.0", "windows-registry-key"): {"key": "HKEY_LOCAL_MACHINE\\\\x"},
}


def _version_of(cls):
    return "2.0" if issubclass(cls, stix2.v20._STIXBase20) else "2.1"


def minimal(cls, version=None, depth=0):
    version = version or _version_of(cls)
    kw = {}
    for name, prop in cls._properties.items():
        if prop.required or name in ("type", "id") and isinstance(prop, (P.TypeProperty, P.IDProperty)):
            if name == "id" and not prop.required:
                continue
            v = value_for(name, prop, version, depth)
            if v is not None:
                kw[name] = v
    kw.update(OVERRIDES.get((version, getattr(cls, "_type", None)), {}))
    if "created" in cls._properties:
        kw.setdefault("created", TS)
    if "modified" in cls._properties:
        kw.setdefault("modified", TS)
    if "id" in cls._properties and "id" not in kw and not issubclass(cls, stix2.v21.base._Observable if hasattr(stix2.v21, "base") else ()):
        kw["id"] = cls._properties["id"].required_prefix + UU
    return kw


def build(cls, kwargs, allow_custom=False):
    return cls(allow_custom=allow_custom, **kwargs)


def buildable():
    """[(version, category, name, cls, kwargs)] for every class a minimal valid instance can be built for; others listed in SKIPPED"""
    out, skipped = [], []
    for ver, cat, name, cls in all_classes():
        kw = minimal(cls, ver)
        tries = [kw]
        # at-least-one-property style constraints: add the first optional simple property
        extra = dict(kw)
        for pname, prop in cls._properties.items():
            if pname not in extra and pname not in ("extensions", "granular_markings", "object_marking_refs", "external_references"):
                v = value_for(pname, prop, ver)
                if v is not None:
                    extra[pname] = v
                    break
        tries.append(extra)
        ok = None
        for t in tries:
            try:
                build(cls, t)
                ok = t
                break
            except Exception:  # noqa: BLE001
                continue
        if ok is None:
            skipped.append((ver, cat, name))
        else:
            out.append((ver, cat, name, cls, ok))
    return out, skipped


if __name__ == "__main__":
    good, bad = buildable()
    print(len(good), "buildable;", "skipped:", bad)
