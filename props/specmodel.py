"""Frozen specification model of every property slot of every registered class, an independent JSON validator driven by it,
and introspection of the LIVE tables into the same shape.

props/spec_model.json was seeded from the pinned tree's tables (python -m props.specmodel --freeze) and then audited by hand against the
STIX 2.0 / 2.1 text (see AUDIT below for every deviation from the pinned tree).  It is independent of later edits to /repo.
"""
import json
import os
import re
import sys

HERE = os.path.dirname(os.path.abspath(__file__))
MODEL_PATH = os.path.join(HERE, "spec_model.json")

# audited deviations from the pinned tree (each is a finding to triage, recorded in DESIGN.md)
AUDIT = {
    # STIX 2.1 section 3.2 common properties: confidence "MUST be a number in the range of 0-100"
    ("2.1", "*", "confidence"): {"min": 0, "max": 100},
}

_TS = re.compile(r"\d{4}-\d{2}-\d{2}T\d{2}:\d{2}:\d{2}(\.\d+)?Z\Z")
_UUID = re.compile(r"[0-9a-fA-F]{8}-[0-9a-fA-F]{4}-[0-9a-fA-F]{4}-[0-9a-fA-F]{4}-[0-9a-fA-F]{12}\Z")


def describe(prop, depth=0):
    """JSON description of a live Property instance"""
    from stix2 import properties as P
    from stix2.base import _STIXBase
    d = {"kind": type(prop).__name__, "required": bool(prop.required), "has_default": hasattr(prop, "default")}
    if hasattr(prop, "_fixed_value"):
        d["fixed"] = prop._fixed_value
    if isinstance(prop, (P.IntegerProperty, P.FloatProperty)):
        d["min"], d["max"] = prop.min, prop.max
    if isinstance(prop, (P.EnumProperty, P.OpenVocabProperty)):
        d["allowed"] = sorted(prop.allowed)
    if isinstance(prop, P.TimestampProperty):
        d["precision"], d["constraint"] = str(prop.precision), str(prop.precision_constraint)
    if isinstance(prop, P.ReferenceProperty):
        d["auth"] = "white" if prop.auth_type == prop._WHITELIST else "black"
        d["generics"] = sorted(g.name for g in prop.generics)
        d["specifics"] = sorted(prop.specifics)
        d["spec_version"] = prop.spec_version
    if isinstance(prop, P.ObjectReferenceProperty):
        d["valid_types"] = sorted(prop.valid_types) if prop.valid_types else None
    if isinstance(prop, (P.DictionaryProperty, P.IDProperty, P.TypeProperty, P.ObservableProperty, P.STIXObjectProperty)):
        d["spec_version"] = getattr(prop, "spec_version", None)
    if isinstance(prop, P.IDProperty):
        d["prefix"] = prop.required_prefix
    if isinstance(prop, P.HashesProperty):
        d["hash_names"] = sorted(prop._HashesProperty__spec_hash_names)
    if isinstance(prop, P.ListProperty):
        c = prop.contained
        if isinstance(c, P.Property):
            d["contained"] = describe(c, depth + 1)
        else:
            d["contained"] = {"kind": "object", "class": c.__name__}
    if isinstance(prop, P.EmbeddedObjectProperty):
        d["class"] = prop.type.__name__
    return d


def live_model():
    """{version: {category: {type: {"class": name, "props": {name: desc}, "order": [...]}}}} from the live registries (+ embedded classes)"""
    from props import gen
    from stix2 import properties as P
    out = {}
    embedded = {}

    def visit_embedded(ver, cls):
        if cls.__name__ in embedded.setdefault(ver, {}):
            return
        embedded[ver][cls.__name__] = {"class": cls.__name__, "order": list(cls._properties), "props": {n: describe(p) for n, p in cls._properties.items()}}
        scan(ver, cls)

    def scan(ver, cls):
        for p in cls._properties.values():
            if isinstance(p, P.EmbeddedObjectProperty):
                visit_embedded(ver, p.type)
            if isinstance(p, P.ListProperty) and not isinstance(p.contained, P.Property):
                visit_embedded(ver, p.contained)

    for ver, cat, name, cls in gen.all_classes():
        out.setdefault(ver, {}).setdefault(cat, {})[name] = {
            "class": cls.__name__, "order": list(cls._properties), "props": {n: describe(p) for n, p in cls._properties.items()},
            "id_contributing": list(getattr(cls, "_id_contributing_properties", []) or []) if cat == "observables" and ver == "2.1" else None}
        scan(ver, cls)
    for ver, e in embedded.items():
        out[ver]["embedded"] = e
    return out


def freeze():
    m = live_model()
    for (ver, typ, prop), patch in AUDIT.items():
        for cat, types in m[ver].items():
            for t, desc in types.items():
                if (typ == "*" or typ == t) and prop in desc["props"]:
                    desc["props"][prop].update(patch)
    with open(MODEL_PATH, "w") as f:
        json.dump(m, f, indent=1, sort_keys=True)
    return m


def frozen_model():
    with open(MODEL_PATH) as f:
        return json.load(f)


# ---------------------------------------------------------------- independent validator (does not import stix2)
class Invalid(Exception):
    pass


EXTENSION_TYPES = ("new-sdo", "new-sco", "new-sro", "property-extension", "toplevel-property-extension")


def _deep_null_or_empty(x):
    if isinstance(x, dict):
        return len(x) == 0 or any(_deep_null_or_empty(v) for v in x.values())
    if isinstance(x, list):
        return len(x) == 0 or any(_deep_null_or_empty(v) for v in x)
    return x is None


def check_value(desc, v, model, ver, path):
    kind = desc["kind"]
    if v is None:
        raise Invalid("%s: null" % path)
    if isinstance(v, (list, dict)) and len(v) == 0:
        raise Invalid("%s: empty %s" % (path, type(v).__name__))
    if "fixed" in desc and v != desc["fixed"]:
        raise Invalid("%s: must equal %r" % (path, desc["fixed"]))
    if kind in ("StringProperty", "PatternProperty", "ObjectReferenceProperty", "BinaryProperty", "HexProperty", "SelectorProperty", "TypeProperty"):
        if not isinstance(v, str):
            raise Invalid("%s: not a string" % path)
        if kind == "HexProperty" and not re.fullmatch(r"([0-9a-fA-F]{2})+", v):
            raise Invalid("%s: not hex" % path)
        if kind == "BinaryProperty" and not re.fullmatch(r"(?:[A-Za-z0-9+/]{4})*(?:[A-Za-z0-9+/]{2}==|[A-Za-z0-9+/]{3}=)?", v):
            raise Invalid("%s: not base64" % path)
    elif kind == "IntegerProperty":
        if isinstance(v, bool) or not isinstance(v, int):
            raise Invalid("%s: not an integer" % path)
        if desc.get("min") is not None and v < desc["min"] or desc.get("max") is not None and v > desc["max"]:
            raise Invalid("%s: %r out of range" % (path, v))
    elif kind == "FloatProperty":
        if isinstance(v, bool) or not isinstance(v, (int, float)):
            raise Invalid("%s: not a number" % path)
        if desc.get("min") is not None and v < desc["min"] or desc.get("max") is not None and v > desc["max"]:
            raise Invalid("%s: %r out of range" % (path, v))
    elif kind == "BooleanProperty":
        if not isinstance(v, bool):
            raise Invalid("%s: not a boolean" % path)
    elif kind == "TimestampProperty":
        if not isinstance(v, str) or not _TS.match(v):
            raise Invalid("%s: not a timestamp" % path)
        if desc.get("precision") == "millisecond":
            frac = v.partition(".")[2].rstrip("Z")
            if desc.get("constraint") == "exact" and len(frac) != 3 or desc.get("constraint") == "min" and len(frac) < 3:
                raise Invalid("%s: fraction digits of %r" % (path, v))
    elif kind == "EnumProperty":
        if v not in desc["allowed"]:
            raise Invalid("%s: %r not in vocabulary" % (path, v))
    elif kind == "OpenVocabProperty":
        if not isinstance(v, str):
            raise Invalid("%s: not a string" % path)
    elif kind == "IDProperty":
        if not isinstance(v, str) or not v.startswith(desc["prefix"]) or not _UUID.match(v[len(desc["prefix"]):]):
            raise Invalid("%s: bad identifier %r" % (path, v))
    elif kind == "ReferenceProperty":
        if not isinstance(v, str) or "--" not in v or not _UUID.match(v.split("--", 1)[1]):
            raise Invalid("%s: bad reference %r" % (path, v))
    elif kind == "ListProperty":
        if not isinstance(v, list):
            raise Invalid("%s: not a list" % path)
        c = desc["contained"]
        for i, x in enumerate(v):
            if c["kind"] == "object":
                check_object(model[ver]["embedded"][c["class"]], x, model, ver, "%s[%d]" % (path, i))
            else:
                check_value(c, x, model, ver, "%s[%d]" % (path, i))
    elif kind in ("DictionaryProperty", "HashesProperty", "ExtensionsProperty", "ObservableProperty"):
        if not isinstance(v, dict):
            raise Invalid("%s: not a dictionary" % path)
        for k, x in v.items():
            if kind != "ObservableProperty" and not (kind == "ExtensionsProperty") and not re.fullmatch(r"[a-zA-Z0-9_-]+", k):
                raise Invalid("%s: bad key %r" % (path, k))
            if x is None or (isinstance(x, (list, dict)) and len(x) == 0):
                raise Invalid("%s.%s: null/empty" % (path, k))
            if kind in ("DictionaryProperty", "ExtensionsProperty") and _deep_null_or_empty(x):
                raise Invalid("%s.%s: null / empty list / empty dictionary nested inside" % (path, k))       # "no nulls or empty lists/dictionaries", at any depth
            if kind == "ExtensionsProperty":
                if not isinstance(x, dict):
                    raise Invalid("%s.%s: an extension is a JSON object" % (path, k))
                if k.startswith("extension-definition--"):
                    # STIX 2.1 section 7.3: an extension names its extension_type, one of five values
                    if "extension_type" not in x:
                        raise Invalid("%s.%s: extension_type missing" % (path, k))
                    if x["extension_type"] not in EXTENSION_TYPES:
                        raise Invalid("%s.%s: unknown extension_type %r" % (path, k, x["extension_type"]))
        if kind == "HashesProperty":
            for k, x in v.items():
                if not isinstance(x, str):
                    raise Invalid("%s.%s: hash not a string" % (path, k))
    elif kind == "EmbeddedObjectProperty":
        check_object(model[ver]["embedded"][desc["class"]], v, model, ver, path)
    # MarkingProperty, STIXObjectProperty, custom kinds: structure checked by their own classes


def check_object(cdesc, obj, model, ver, path="$", allow_extra=False):
    if not isinstance(obj, dict):
        raise Invalid("%s: not an object" % path)
    for name, d in cdesc["props"].items():
        if name not in obj:
            if d["required"] or (d.get("has_default") and "fixed" in d and name in ("type",)):
                raise Invalid("%s.%s: required property missing" % (path, name))
            continue
        check_value(d, obj[name], model, ver, path + "." + name)
    for name in obj:
        if name not in cdesc["props"] and not allow_extra:
            if ver == "2.1" and "type" in cdesc["props"] and "extensions" in obj and isinstance(obj["extensions"], dict) and any(
                    isinstance(e, dict) and e.get("extension_type") == "toplevel-property-extension" for e in obj["extensions"].values()):
                continue
            raise Invalid("%s.%s: unknown property" % (path, name))
        if obj[name] is None or (isinstance(obj[name], (list, dict)) and len(obj[name]) == 0):
            raise Invalid("%s.%s: null or empty" % (path, name))


def validate(doc, ver, cat, typ, model=None):
    """raises Invalid unless doc satisfies the frozen model for (ver, cat, typ)"""
    model = model or frozen_model()
    check_object(model[ver][cat][typ], doc, model, ver)


if __name__ == "__main__":
    sys.path.insert(0, os.path.dirname(HERE))
    if "--freeze" in sys.argv:
        m = freeze()
        print("frozen", sum(len(t) for v in m.values() for t in v.values()), "classes")
