"""pysym job: _mask_bytes clears exactly the host bits, for every address and every prefix size (C09.d)."""
import time

import z3

from engine import xcheck

from engine.pysym import Engine, Interp, SInt, Unsupported, lift
from stix2.equivalence.pattern.transform import specials as S


def replay_mask(hexaddr, prefix):
    b = bytearray(bytes.fromhex(hexaddr))
    bits = 8 * len(b)
    full = int(hexaddr, 16)
    S._mask_bytes(b, prefix)
    return int(b.hex(), 16) == full - full % (2 ** (bits - prefix))


def _mask(nbytes):
    I = Interp({})
    eng = Engine()
    bits = 8 * nbytes
    bad, cands, asserting, samples = 0, [], 0, []

    def body(eng):
        bs = []
        for i in range(nbytes):
            b = z3.Int("b%d" % i)
            eng.assume(z3.And(b >= 0, b <= 255))
            bs.append(SInt(b))
        p = z3.Int("p")
        eng.assume(z3.And(p >= 0, p <= bits))
        orig = list(bs)
        I.call_function(S._mask_bytes, [bs, SInt(p)], {})
        return orig, bs, p
    for pc, (kind, val) in eng.explore(body):
        asserting += 1
        if kind != "return":
            return None, "raised %r" % (val,), eng, I
        orig, out, p = val
        full = sum(lift(o) * 256 ** (nbytes - 1 - i) for i, o in enumerate(orig))
        got = sum(lift(o) * 256 ** (nbytes - 1 - i) for i, o in enumerate(out))
        post = z3.And([z3.Implies(p == k, got == full - full % (2 ** (bits - k))) for k in range(bits + 1)])
        s = z3.Solver()
        s.add(*pc)
        s.add(z3.Not(post))
        eng.queries += 1
        r = xcheck.check(s)
        if r == "unsat":
            if len(samples) < 2:
                samples.append({"bytes": nbytes, "path_condition": [str(x) for x in pc[-2:]], "query": "masked != addr - addr mod 2^(bits-p)", "result": "unsat"})
            continue
        if r != "sat":
            return None, "solver %s" % r, eng, I
        bad += 1
        m = s.model()
        hx = "".join("%02x" % m.eval(lift(o), model_completion=True).as_long() for o in orig)
        cands.append({"call": "replay_mask(%r, %d)" % (hx, m.eval(p, model_completion=True).as_long()), "desc": "mask arithmetic wrong"})
    return (cands, asserting, samples), None, eng, I


def job_mask(tier, seed):
    t0 = time.time()
    tot = {"paths": 0, "queries": 0, "decisions": 0}
    cands, samples, asserting, srcs = [], [], 0, {}
    try:
        for nbytes in ((4,) if tier == "quick" else (4, 16)):
            res, err, eng, I = _mask(nbytes)
            tot["paths"] += eng.paths
            tot["queries"] += eng.queries
            tot["decisions"] += eng.decisions
            srcs.update(I.sources)
            if err:
                return dict(tot, verdict="INCONCLUSIVE", detail=err)
            cands += res[0]
            asserting += res[1]
            samples += res[2]
    except Unsupported as e:
        return dict(tot, verdict="INCONCLUSIVE", detail="translator does not cover: %s" % e)
    # translator validation on concrete inputs
    val = 0
    for hx, p in (("0a010203", 8), ("ffffffff", 0), ("ffffffff", 32), ("ffffffff", 31), ("c0a80101", 20)):
        if not replay_mask(hx, p):
            cands.append({"call": "replay_mask(%r, %d)" % (hx, p), "desc": "concrete probe"})
        val += 1
    out = dict(tot, solver_s=round(time.time() - t0, 2), reached=asserting > 0, validated=val, samples=samples,
               extra={"functions_interpreted": srcs, "address_sizes_bytes": [4] if tier == "quick" else [4, 16], "wall_s": round(time.time() - t0, 1)})
    if cands:
        out.update(verdict="CANDIDATE", candidates=cands[:8], detail="%d violating path(s)" % len(cands))
    else:
        out.update(verdict="HOLDS", detail="%d paths discharged" % asserting)
    return out
