"""C15 enumerated obligation (E1s): non-zero UTC offsets and date inputs, which the pysym datetime model leaves outside (C astimezone/combine)."""
import datetime as dt

import pytz

from stix2 import utils
from stix2.utils import Precision, PrecisionConstraint, STIXdatetime

from engine.hlib import Native, V, pick
from props.j_time import SETTINGS, oracle_text_py

OFFSETS_MIN = [-720, -330, -1, 0, 1, 345, 840]
INSTANTS = [(2020, 1, 1, 0, 0, 0, 0), (2019, 12, 31, 23, 59, 59, 999999), (2020, 2, 29, 12, 0, 0, 120000), (999, 12, 31, 20, 0, 0, 1000),
            (1, 1, 2, 0, 0, 0, 1), (9999, 12, 30, 23, 59, 59, 999000), (2021, 3, 14, 1, 59, 59, 500), (1970, 1, 1, 0, 0, 0, 100000)]
NOFF, NINST, NSET = len(OFFSETS_MIN), len(INSTANTS), len(SETTINGS)


def days_from_civil(y, m, d):
    """independent proleptic Gregorian day number (Howard Hinnant's algorithm)"""
    y -= m <= 2
    era = (y if y >= 0 else y - 399) // 400
    yoe = y - era * 400
    doy = (153 * (m + (-3 if m > 2 else 9)) + 2) // 5 + d - 1
    doe = yoe * 365 + yoe // 4 - yoe // 100 + doy
    return era * 146097 + doe - 719468


def civil_from_days(z):
    z += 719468
    era = (z if z >= 0 else z - 146096) // 146097
    doe = z - era * 146097
    yoe = (doe - doe // 1460 + doe // 36524 - doe // 146096) // 365
    y = yoe + era * 400
    doy = doe - (365 * yoe + yoe // 4 - yoe // 100)
    mp = (5 * doy + 2) // 153
    d = doy - (153 * mp + 2) // 5 + 1
    m = mp + (3 if mp < 10 else -9)
    return y + (m <= 2), m, d


def to_utc_fields(fields, offset_min):
    Y, M, D, h, m, s, us = fields
    secs = days_from_civil(Y, M, D) * 86400 + h * 3600 + m * 60 + s - offset_min * 60
    days, rem = divmod(secs, 86400)
    y2, m2, d2 = civil_from_days(days)
    return y2, m2, d2, rem // 3600, rem % 3600 // 60, rem % 60, us


def offsets(oi: int, ii: int, si: int, kind: int) -> bool:
    """
    pre: 0 <= oi < NOFF and 0 <= ii < NINST and 0 <= si < NSET and 0 <= kind <= 2
    post: _
    """
    oi, ii, si, kind = pick(oi, NOFF), pick(ii, NINST), pick(si, NSET), pick(kind, 3)
    with Native():
        ok = run_offset_case(oi, ii, si, kind)
    V.reached()
    return ok


def run_offset_case(oi, ii, si, kind):
    p, c = SETTINGS[si]
    f = INSTANTS[ii]
    off = OFFSETS_MIN[oi]
    tz = dt.timezone(dt.timedelta(minutes=off)) if kind != 2 else pytz.FixedOffset(off)
    try:
        d = dt.datetime(*f, tzinfo=tz)
        utc = to_utc_fields(f, off)
        if not (1 <= utc[0] <= 9999):
            return True
    except (ValueError, OverflowError):
        return True
    x = utils.parse_into_datetime(d, p, c) if kind != 1 else utils.parse_into_datetime(STIXdatetime(d, precision=Precision.ANY), p, c)
    us = utc[6]
    us_t = 0 if (p == Precision.SECOND and c == PrecisionConstraint.EXACT) else us - us % 1000 if (p == Precision.MILLISECOND and c == PrecisionConstraint.EXACT) else us
    want = oracle_text_py(*utc[:6], us_t, p, c)
    t1 = utils.format_datetime(x)
    if t1 != want:
        return False
    x2 = utils.parse_into_datetime(t1, p, c)
    return utils.format_datetime(x2) == t1 and x2 == x


def dates(ii: int, si: int) -> bool:
    """
    pre: 0 <= ii < NINST and 0 <= si < NSET
    post: _
    """
    ii, si = pick(ii, NINST), pick(si, NSET)
    with Native():
        p, c = SETTINGS[si]
        Y, M, D = INSTANTS[ii][:3]
        x = utils.parse_into_datetime(dt.date(Y, M, D), p, c)
        ok = utils.format_datetime(x) == oracle_text_py(Y, M, D, 0, 0, 0, 0, p, c)
    V.reached()
    return ok
