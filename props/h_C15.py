"""C15 enumerated obligation (E1s): non-zero UTC offsets and date inputs, which the pysym datetime model leaves outside (C astimezone/combine)."""
import datetime as dt

import pytz

from stix2 import utils
from stix2.utils import Precision, PrecisionConstraint, STIXdatetime

from engine.hlib import Native, V, pick
from props.j_time import SETTINGS, oracle_text_py

OFFSETS_MIN = [-720, -330, -1, 0, 1, 345, 840]
INSTANTS = [(2020, 1, 1, 0, 0, 0, 0), (2019, 12, 31, 23, 59, 59, 999999), (2020, 2, 29, 12, 0, 0, 120000), (999, 12, 31, 20, 0, 0, 1000),
            (1, 1, 2, 0, 0, 0, 1), (9999, 12, 30, 23, 59, 59, 999000), (2021, 3, 14, 1, 59, 59, 500), (1970, 1, 1, 0, 0, 0, 100000)]
NOFF, NINST, NSET = len(OFFSETS_MIN), len(INSTANTS), len(SETTINGS)


def days_from_civil(y, m, d):
    """independent proleptic Gregorian day number (Howard Hinnant's algorithm)"""
    y -= m <= 2
    era = (y if y >= 0 else y - 399) // 400
    yoe = y - era * 400
    doy = (153 * (m + (-3 if m > 2 else 9)) + 2) // 5 + d - 1
    doe = yoe * 365 + yoe // 4 - yoe // 100 + doy
    return era * 146097 + doe - 719468


def civil_from_days(z):
    z += 719468
    era = (z if z >= 0 else z - 146096) // 146097
    doe = z - era * 146097
    yoe = (doe - doe // 1460 + doe // 36524 - doe // 146096) // 365
    y = yoe + era * 400
    doy = doe - (365 * yoe + yoe // 4 - yoe // 100)
    mp = (5 * doy + 2) // 153
    d = doy - (153 * mp + 2) // 5 + 1
    m = mp + (3 if mp < 10 else -9)
    return y + (m <= 2), m, d


SUBSEC_US = [0, 600, -600, 500000, 1500000, 30000000]          # fractions of a second (and a half minute) added to the offset: legal for tzinfo objects


def to_utc_fields(fields, offset_min, offset_us=0):
    Y, M, D, h, m, s, us = fields
    total_us = (days_from_civil(Y, M, D) * 86400 + h * 3600 + m * 60 + s - offset_min * 60) * 1000000 + us - offset_us
    secs, us2 = divmod(total_us, 1000000)
    days, rem = divmod(secs, 86400)
    y2, m2, d2 = civil_from_days(days)
    return y2, m2, d2, rem // 3600, rem % 3600 // 60, rem % 60, us2


def offsets(oi: int, ii: int, si: int, kind: int) -> bool:
    """
    pre: 0 <= oi < NOFF and 0 <= ii < NINST and 0 <= si < NSET and 0 <= kind <= 2
    post: _
    """
    oi, ii, si, kind = pick(oi, NOFF), pick(ii, NINST), pick(si, NSET), pick(kind, 3)
    with Native():
        ok = all(run_offset_case(oi, ii, si, kind, ui) for ui in range(len(SUBSEC_US) if kind != 2 else 1))
    V.reached()
    return ok


def run_offset_case(oi, ii, si, kind, ui=0):
    p, c = SETTINGS[si]
    f = INSTANTS[ii]
    off = OFFSETS_MIN[oi]
    sub = SUBSEC_US[ui]
    try:
        tz = dt.timezone(dt.timedelta(minutes=off, microseconds=sub)) if kind != 2 else pytz.FixedOffset(off)
    except ValueError:
        return True                                   # offset out of the range tzinfo allows
    try:
        d = dt.datetime(*f, tzinfo=tz)
        utc = to_utc_fields(f, off, sub)
        if not (1 <= utc[0] <= 9999):
            return True
    except (ValueError, OverflowError):
        return True
    x = utils.parse_into_datetime(d, p, c) if kind != 1 else utils.parse_into_datetime(STIXdatetime(d, precision=Precision.ANY), p, c)
    us = utc[6]
    us_t = 0 if (p == Precision.SECOND and c == PrecisionConstraint.EXACT) else us - us % 1000 if (p == Precision.MILLISECOND and c == PrecisionConstraint.EXACT) else us
    want = oracle_text_py(*utc[:6], us_t, p, c)
    t1 = utils.format_datetime(x)
    if t1 != want:
        return False
    x2 = utils.parse_into_datetime(t1, p, c)
    return utils.format_datetime(x2) == t1 and x2 == x


def dates(ii: int, si: int) -> bool:
    """
    pre: 0 <= ii < NINST and 0 <= si < NSET
    post: _
    """
    ii, si = pick(ii, NINST), pick(si, NSET)
    with Native():
        p, c = SETTINGS[si]
        Y, M, D = INSTANTS[ii][:3]
        x = utils.parse_into_datetime(dt.date(Y, M, D), p, c)
        ok = utils.format_datetime(x) == oracle_text_py(Y, M, D, 0, 0, 0, 0, p, c)
    V.reached()
    return ok


# ---- ambiguous local times: a fold-aware tzinfo (PEP 495); the instant depends on `fold`
class FoldTZ(dt.tzinfo):
    """a zone that falls back from +02:00 to +01:00 at 03:00 local on 2020-10-25: 02:00..02:59 occur twice (fold=0: +02:00, fold=1: +01:00)"""
    def utcoffset(self, d):
        if d is None:
            return dt.timedelta(hours=1)
        local = (d.year, d.month, d.day, d.hour)
        if local < (2020, 10, 25, 2):
            return dt.timedelta(hours=2)
        if local >= (2020, 10, 25, 3):
            return dt.timedelta(hours=1)
        return dt.timedelta(hours=1 if d.fold else 2)

    def dst(self, d):
        return self.utcoffset(d) - dt.timedelta(hours=1)

    def tzname(self, d):
        return "FOLD"

    def fromutc(self, d):
        # d is in this zone's tzinfo but holds UTC fields
        u = d.replace(tzinfo=None)
        if u < dt.datetime(2020, 10, 25, 0):
            return (u + dt.timedelta(hours=2)).replace(tzinfo=self)
        if u < dt.datetime(2020, 10, 25, 1):
            return (u + dt.timedelta(hours=2)).replace(tzinfo=self, fold=0)
        if u < dt.datetime(2020, 10, 25, 2):
            return (u + dt.timedelta(hours=1)).replace(tzinfo=self, fold=1)
        return (u + dt.timedelta(hours=1)).replace(tzinfo=self)


FOLD_CASES = [((2020, 10, 25, 2, 30, 0, 120000), 0, (2020, 10, 25, 0, 30, 0)), ((2020, 10, 25, 2, 30, 0, 120000), 1, (2020, 10, 25, 1, 30, 0)),
              ((2020, 10, 25, 1, 59, 59, 999999), 1, (2020, 10, 24, 23, 59, 59)), ((2020, 10, 25, 3, 0, 0, 0), 1, (2020, 10, 25, 2, 0, 0)),
              ((2020, 10, 25, 2, 0, 0, 1), 1, (2020, 10, 25, 1, 0, 0)), ((2020, 10, 25, 2, 59, 59, 999), 0, (2020, 10, 25, 0, 59, 59))]
NFOLD = len(FOLD_CASES)


def fold_inputs(fi: int, si: int, route: int) -> bool:
    """
    pre: 0 <= fi < NFOLD and 0 <= si < NSET and 0 <= route <= 3
    post: _
    """
    fi, si, route = pick(fi, NFOLD), pick(si, NSET), pick(route, 4)
    with Native():
        ok = run_fold_case(fi, si, route)
    V.reached()
    return ok


def run_fold_case(fi, si, route):
    import stix2
    from stix2.properties import TimestampProperty
    p, c = SETTINGS[si]
    f, fold, utc = FOLD_CASES[fi]
    d = dt.datetime(*f, tzinfo=FoldTZ(), fold=fold)
    us = f[6]
    us_t = 0 if (p == Precision.SECOND and c == PrecisionConstraint.EXACT) else us - us % 1000 if (p == Precision.MILLISECOND and c == PrecisionConstraint.EXACT) else us
    want = oracle_text_py(*utc, us_t, p, c)
    if route == 0:
        got = utils.format_datetime(STIXdatetime(d, precision=p, precision_constraint=c))
    elif route == 1:
        got = utils.format_datetime(utils.parse_into_datetime(d, p, c))
    elif route == 2:
        got = utils.format_datetime(TimestampProperty(precision=p.name.lower(), precision_constraint=c.name.lower()).clean(d)[0])
    else:
        if (p, c) != (Precision.MILLISECOND, PrecisionConstraint.MIN):
            return True
        import json
        o = stix2.v21.Identity(name="n", identity_class="individual", created=d, modified=d)
        got = json.loads(o.serialize())["created"]
    return got == want


# ---- timestamp OBJECTS carrying each precision setting, handed to constructors whose slots have other settings (also via deepcopy)
def timestamp_objects(kind: int) -> bool:
    """
    pre: 0 <= kind <= 2
    post: _
    """
    kind = pick(kind, 3)
    with Native():
        ok = run_ts_object_case(kind)
    V.reached()
    return ok


def run_ts_object_case(kind):
    import copy
    import json
    import stix2
    from props import h_C01
    if kind == 0:
        return h_C01.run_special_case(14) is True
    if kind == 2:
        # a created time given as a factory / environment DEFAULT is written exactly as when it is given to the class directly
        from stix2.environment import Environment, ObjectFactory
        for t in ("2020-01-01T00:00:07.123456Z", "2020-01-01T00:00:07.120Z", "2020-01-01T00:00:07Z", dt.datetime(2020, 1, 1, 0, 0, 7, 999,
                  tzinfo=dt.timezone(dt.timedelta(hours=5, minutes=30))), dt.datetime(999, 12, 31, 23, 59, 59, 999999)):
            for cls, kw in ((stix2.v20.Identity, dict(name="n", identity_class="individual")), (stix2.v21.Identity, dict(name="n", identity_class="individual")),
                            (stix2.v21.Relationship, dict(relationship_type="uses", source_ref="malware--" + "0" * 8 + "-f010-4473-83ec-1edf84858f4c",
                                                          target_ref="tool--" + "0" * 8 + "-f010-4473-83ec-1edf84858f4c"))):
                want = json.loads(cls(created=t, modified=t, **kw).serialize())["created"]
                f1 = ObjectFactory(created=t)
                f2 = ObjectFactory()
                f2.set_default_created(t)
                e1 = Environment(factory=ObjectFactory())
                e1.set_default_created(t)
                for api in (f1, f2, e1):
                    o = api.create(cls, **kw)
                    j = json.loads(o.serialize())
                    if j["created"] != want or j["modified"] != want:
                        return False
        return True
    # deep copies write what the original wrote, and what is written reads back to the same text
    for cls, kw in ((stix2.v20.MarkingDefinition, dict(definition_type="statement", definition={"statement": "s"})),
                    (stix2.v21.MarkingDefinition, dict(definition_type="statement", definition={"statement": "s"})),
                    (stix2.v20.Identity, dict(name="n", identity_class="individual")), (stix2.v21.Identity, dict(name="n", identity_class="individual"))):
        for created in ("2020-01-01T00:00:07.120Z", "2020-01-01T00:00:07.123456Z", "2020-01-01T00:00:07Z", dt.datetime(2020, 1, 1, 0, 0, 7, 250000, tzinfo=pytz.utc)):
            o = cls(created=created, **kw)
            text = json.loads(o.serialize())["created"]
            c = copy.deepcopy(o)
            if json.loads(c.serialize())["created"] != text:
                return False
            back = stix2.parse(o.serialize())
            if json.loads(back.serialize())["created"] != text:
                return False
    return True
