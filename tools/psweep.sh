#!/bin/bash
# tools/psweep.sh [tier] [parallel]: every seeded change through its property's check, N at a time (scratch worktrees); one line per seed
TIER="${1:-quick}"; N="${2:-3}"
cd /verif
one() {
  d="$1"; TIER="$2"
  out=$(tools/runseed.sh "$d" "$TIER" 2>&1)
  rc=$(echo "$out" | grep -E "^seed " | sed 's/.*rc=//')
  obl=$(echo "$out" | grep -E "^VIOLATION +[a-z]" | awk '{print $2}' | sed 's/_p[0-9]*$//;s/_s[0-9]*$//;s/_w[0-9]*$//;s/_kind[0-9]*$//;s/_q[0-9]*$//;s/_part[0-9]*$//' | sort -u | tr '\n' ',' | sed 's/,$//')
  note=$(echo "$out" | grep -E "PATCH-DOES-NOT-APPLY|HARNESS-ERROR" | head -1)
  echo "$(basename $d) rc=$rc caught_by=[$obl] $note"
}
export -f one
ls -d seeded/*/ | sed 's|/$||' | xargs -P "$N" -I{} bash -c 'one {} '"$TIER"
