#!/bin/bash
# tools/r5intake.sh <prop> <k> [suffix=e] : confirm a seeded change delivered under $R_OUT (default /tmp/wt/r5/out)/<prop>-<k>/  (R_NO: round number for the record)
# (seedcheck: demo passes without, fails with, suite unchanged), import it as seeded/<prop>-m<k><suffix>/ and run the property's quick check on it.
P="$1"; K="$2"; SUF="${3:-e}"
SRC=${R_OUT:-/tmp/wt/r5/out}/$P-$K; DST=/verif/seeded/$P-m$K$SUF
[ -f "$SRC/patch.diff" ] && [ -f "$SRC/demo.py" ] || { echo "$P-$K: deliverables missing"; exit 2; }
out=$(/verif/tools/seedcheck.sh "$SRC/patch.diff" "$SRC/demo.py" 2>&1); echo "$out" | tail -5
echo "$out" | grep -q SEED-OK || { echo "$P-$K REJECTED"; exit 1; }
mkdir -p "$DST"; cp "$SRC/patch.diff" "$SRC/demo.py" "$DST/"
python3 - "$SRC" "$DST" "$P" "$K$SUF" <<'PY'
import json, subprocess, sys
src, dst, prop, k = sys.argv[1:5]
try: meta = json.load(open(src + "/meta.json"))
except Exception: meta = {}
meta["property"] = prop
meta["origin"] = "independent sub-agent given only the property text, a list of earlier changes and a scratch worktree (round %s)" % __import__("os").environ.get("R_NO", "5")
meta["confirmed_by"] = ("tools/seedcheck.sh patch.diff demo.py on a scratch worktree of /repo HEAD (%s): demo exits 0 without the change, non-zero with it; "
                        "pinned suite passing set unchanged (tools/suite.py)" % subprocess.check_output(["git", "-C", "/repo", "rev-parse", "--short", "HEAD"], text=True).strip())
meta["run_with"] = "tools/runseed.sh seeded/%s-m%s quick" % (prop, k)
json.dump(meta, open(dst + "/meta.json", "w"), indent=1)
PY
/verif/tools/runseed.sh "$DST" quick 2>&1 | grep -E "^VIOLATION|^seed |HARNESS|SUMMARY" | cut -c1-220 | sort | uniq -c | sort -rn | head -12
