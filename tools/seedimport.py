#!/usr/bin/env python3
"""tools/seedimport.py <prop> <k> : copy a confirmed seeded change from /tmp/wt/<prop>-out into /verif/seeded/<prop>-m<k>/"""
import json, os, shutil, subprocess, sys
prop, k = sys.argv[1], sys.argv[2]
rnd = sys.argv[3] if len(sys.argv) > 3 else ""
src = "/tmp/wt/%s%s-out" % (prop, rnd)
dst = "/verif/seeded/%s-m%s%s" % (prop, k, rnd)
os.makedirs(dst, exist_ok=True)
shutil.copy(os.path.join(src, "m%s.patch" % k), os.path.join(dst, "patch.diff"))
shutil.copy(os.path.join(src, "m%s_demo.py" % k), os.path.join(dst, "demo.py"))
try:
    meta = json.load(open(os.path.join(src, "m%s_meta.json" % k)))
except Exception:
    meta = {}
meta["property"] = prop
meta["origin"] = "independent sub-agent given only the property text and a scratch worktree"
meta["confirmed_by"] = ("tools/seedcheck.sh patch.diff demo.py on a scratch worktree of /repo HEAD (%s): demo exits 0 without the change, non-zero with it; "
                        "pinned suite passing set unchanged (tools/suite.py)" % subprocess.check_output(["git", "-C", "/repo", "rev-parse", "--short", "HEAD"], text=True).strip())
meta["run_with"] = "tools/runseed.sh seeded/%s-m%s%s quick" % (prop, k, rnd)
json.dump(meta, open(os.path.join(dst, "meta.json"), "w"), indent=1)
print(dst)
