#!/usr/bin/env python3
"""Run the repository's pinned test suite on a tree and compare the passing set with /root/.vp/BASELINE.json.
usage: tools/suite.py [tree=/repo]   -> exit 0 iff every baseline-stable passing test still passes."""
import ast, json, os, subprocess, sys, tempfile
import xml.etree.ElementTree as ET
tree = sys.argv[1] if len(sys.argv) > 1 else "/repo"
b = json.load(open("/root/.vp/BASELINE.json"))
stable = b["stable_pass"]
if isinstance(stable, str):
    stable = ast.literal_eval(stable)
stable = set(stable)
fd, xml = tempfile.mkstemp(suffix=".xml"); os.close(fd)
env = dict(os.environ, PYTHONPATH=tree)
subprocess.run(["/venv/bin/python", "-m", "pytest", "-q", "-p", "no:cacheprovider", "--timeout=900", "--continue-on-collection-errors",
                "--junitxml=" + xml], cwd=tree, env=env, stdout=subprocess.DEVNULL, stderr=subprocess.DEVNULL)
passed = set()
for tc in ET.parse(xml).getroot().iter("testcase"):
    if not any(ch.tag in ("failure", "error", "skipped") for ch in tc):
        passed.add("%s::%s" % (tc.get("classname"), tc.get("name")))
os.unlink(xml)
missing = sorted(stable - passed)
print("baseline stable: %d  passed now: %d  baseline tests no longer passing: %d" % (len(stable), len(passed), len(missing)))
for m in missing[:40]:
    print("  LOST", m)
sys.exit(1 if missing else 0)
