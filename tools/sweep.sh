#!/bin/bash
# tools/sweep.sh [tier] [pattern]: run every seeded change (scratch worktrees), one line per seed: id, exit status, flagged obligations
TIER="${1:-quick}"; PAT="${2:-*}"
cd /verif
for d in seeded/$PAT; do
  [ -f "$d/patch.diff" ] || continue
  out=$(tools/runseed.sh "$d" "$TIER" 2>&1)
  rc=$(echo "$out" | grep -E "^seed " | sed 's/.*rc=//')
  obl=$(echo "$out" | grep -E "^VIOLATION +[a-z]" | awk '{print $2}' | sed 's/_p[0-9]*$//;s/_s[0-9]*$//;s/_w[0-9]*$//;s/_kind[0-9]*$//;s/_q[0-9]*$//' | sort -u | tr '\n' ',' | sed 's/,$//')
  note=$(echo "$out" | grep -E "PATCH-DOES-NOT-APPLY|HARNESS-ERROR" | head -1)
  echo "$(basename $d) rc=$rc caught_by=[$obl] $note"
done
