#!/bin/bash
# tools/tsweep.sh <plan.json> [parallel]: targeted sweep -- every seed of the plan through the obligations DESIGN.md names as catching it
# (runseed.sh ... --only <those>); one line per seed.  A seed whose named obligations no longer catch it shows rc=0 and is then run in full by hand.
PLAN="$1"; N="${2:-6}"
cd /verif
python3 -c "
import json
for k,v in sorted(json.load(open('$PLAN')).items()): print(k, ','.join(v))" | xargs -P "$N" -L 1 bash -c '
out=$(tools/runseed.sh seeded/$0 quick --only "$1" 2>&1)
rc=$(echo "$out" | grep -E "^seed " | sed "s/.*rc=//")
obl=$(echo "$out" | grep -E "^VIOLATION +[a-z]" | awk "{print \$2}" | sed "s/_p[0-9]*$//;s/_s[0-9]*$//;s/_w[0-9]*$//;s/_kind[0-9]*$//;s/_q[0-9]*$//;s/_part[0-9]*$//" | sort -u | tr "\n" "," | sed "s/,$//")
note=$(echo "$out" | grep -E "PATCH-DOES-NOT-APPLY|HARNESS-ERROR" | head -1)
echo "$0 rc=$rc caught_by=[$obl] $note"'
