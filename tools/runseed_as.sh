#!/bin/bash
# tools/runseed_as.sh <seeded-dir> <PROPERTY> [vcheck args]: like runseed.sh but checks another property's obligations against the seeded tree
D="$(readlink -f "$1")"; P="$2"; shift; shift
W=/tmp/wt/seedrun-$(basename "$D")-$$
git -C /repo worktree add -q --detach "$W" HEAD || exit 2
trap 'git -C /repo worktree remove --force "$W" 2>/dev/null; rm -rf "$W" "$W.replays"' EXIT
git -C "$W" apply "$D/patch.diff" || { echo "PATCH-DOES-NOT-APPLY"; exit 2; }
cd /verif && VERIF_REPO="$W" VERIF_REPLAY_DIR="$W.replays" ./vcheck "$P" "$@"; rc=$?
echo "seed $(basename $D) checked-as=$P rc=$rc"
exit $rc
