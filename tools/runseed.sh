#!/bin/bash
# tools/runseed.sh <seeded-dir> [tier] [extra vcheck args]: run the property's check against a seeded change.
# The change is applied to a scratch worktree of /repo HEAD (removed afterwards) and analysed through VERIF_REPO, so /repo itself
# is never touched and several seeds can run side by side.  (tools/runseed_inplace.sh does the brief's apply/run/undo on /repo.)
D="$(readlink -f "$1")"; TIER="${2:-quick}"; shift; shift
P=$(python3 -c "import json,sys;print(json.load(open('$D/meta.json'))['property'])")
W=/tmp/wt/seedrun-$(basename "$D")-$$
mkdir -p /tmp/wt
git -C /repo worktree add -q --detach "$W" HEAD || exit 2
trap 'git -C /repo worktree remove --force "$W" 2>/dev/null; rm -rf "$W" "$W.replays"' EXIT
git -C "$W" apply "$D/patch.diff" || { echo "seed $(basename $D) PATCH-DOES-NOT-APPLY"; exit 2; }
cd /verif && VERIF_REPO="$W" VERIF_REPLAY_DIR="$W.replays" ./vcheck "$P" --tier "$TIER" "$@"; rc=$?
echo "seed $(basename $D) property=$P tier=$TIER rc=$rc"
exit $rc
