#!/bin/bash
# tools/seedcheck.sh <patch> <demo.py> : confirm a seeded change on a scratch worktree of /repo HEAD:
#  demo passes without it, fails with it, and the pinned suite's passing set is unchanged with it.
set -u
PATCH="$(readlink -f "$1")"; DEMO="$(readlink -f "$2")"
WT=$(mktemp -d /tmp/seedwt.XXXX); rmdir "$WT"
git -C /repo worktree add -q --detach "$WT" HEAD || exit 2
cleanup() { git -C /repo worktree remove --force "$WT" >/dev/null 2>&1; rm -rf "$WT" "$WT".*.out; }
trap cleanup EXIT
cd "$WT"
PYTHONPATH="$WT" timeout 600 /venv/bin/python "$DEMO" >$WT.clean.out 2>&1; c=$?
git apply "$PATCH" || { echo "PATCH DOES NOT APPLY"; exit 2; }
PYTHONPATH="$WT" timeout 600 /venv/bin/python "$DEMO" >$WT.mut.out 2>&1; m=$?
/verif/tools/suite.py "$WT" > $WT.suite.out 2>&1; s=$?
echo "demo clean rc=$c  demo mutant rc=$m  suite rc=$s ($(head -1 $WT.suite.out))"
tail -3 $WT.mut.out | cut -c1-300
[ $c -eq 0 ] && [ $m -ne 0 ] && [ $s -eq 0 ] && { echo SEED-OK; exit 0; }
echo SEED-REJECTED; exit 1
