#!/bin/bash
# tools/final.sh: regenerate everything that is committed from a run on /repo itself: evidence (quick tier), MANIFEST.json; validate both against the schemas
cd /verif
[ -z "$(git -C /repo status --short)" ] || { echo "/repo not clean"; exit 2; }
./vcheck all 2>&1 | grep -E "SUMMARY|VIOLATION|KNOWN-FINDING|HARNESS" | cut -c1-200
.venv/bin/python -m engine.mkmanifest > /dev/null
python3-vt - <<'PY'
import json, jsonschema, glob
m=json.load(open('/verif/MANIFEST.json')); jsonschema.validate(m, json.load(open('/root/.vp/MANIFEST.schema.json')))
sch=json.load(open('/root/.vp/EVIDENCE.schema.json'))
bad=0
for c in m['checks']:
    d=json.load(open('/verif/'+c['evidence_file']))
    try: jsonschema.validate(d, sch)
    except Exception as e: bad+=1; print(c['property_id'], "EVIDENCE INVALID", str(e)[:200])
    if d.get('tier')!='quick': print(c['property_id'], "evidence is not from the quick tier:", d.get('tier'))
print("manifest ok; evidence files valid:", len(m['checks'])-bad, "of", len(m['checks']))
PY
