#!/usr/bin/env python3
"""tools/seedimport_x.py <Xnn> <k>: import mutant k of a cross-property agent from /tmp/wt/<Xnn>-out into seeded/<prop>-<xnn>m<k>/ (property from its meta)"""
import json, os, shutil, subprocess, sys
x, k = sys.argv[1], sys.argv[2]
src = "/tmp/wt/%s-out" % x
meta = json.load(open(os.path.join(src, "m%s_meta.json" % k)))
prop = meta["property"].strip().upper()[:3]
assert prop[0] == "C" and prop[1:].isdigit(), prop
dst = "/verif/seeded/%s-%sm%s" % (prop, x.lower(), k)
os.makedirs(dst, exist_ok=True)
shutil.copy(os.path.join(src, "m%s.patch" % k), os.path.join(dst, "patch.diff"))
shutil.copy(os.path.join(src, "m%s_demo.py" % k), os.path.join(dst, "demo.py"))
meta["property"] = prop
meta["origin"] = "independent sub-agent given the 20 property statements and a scratch worktree (cross-property round, free choice of property)"
meta["confirmed_by"] = ("tools/seedcheck.sh patch.diff demo.py on a scratch worktree of /repo HEAD (%s): demo exits 0 without the change, non-zero with it; "
                        "pinned suite passing set unchanged (tools/suite.py)" % subprocess.check_output(["git", "-C", "/repo", "rev-parse", "--short", "HEAD"], text=True).strip())
meta["run_with"] = "tools/runseed.sh seeded/%s quick" % os.path.basename(dst)
json.dump(meta, open(os.path.join(dst, "meta.json"), "w"), indent=1)
print(dst)
