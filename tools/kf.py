#!/usr/bin/env python3
"""tools/kf.py fixed <id> <property> <commit> <module> <call> <what failed>   |   tools/kf.py open <id> <property> <obligation> <module> <call> <what fails> <class>"""
import json, sys
p = "/verif/known_findings.json"
d = json.load(open(p))
kind = sys.argv[1]
if kind == "fixed":
    _, _, fid, prop, commit, module, call, what = sys.argv
    e = {"id": fid, "property": prop, "status": "fixed", "commit": commit, "line": "fixed: property=%s %s %s" % (prop, commit, what), "module": module, "call": call}
else:
    _, _, fid, prop, obl, module, call, what, cls = sys.argv
    e = {"id": fid, "property": prop, "status": "open", "obligation": obl, "module": module, "call": call, "what_fails": what, "class_predicate": cls}
d["findings"] = [x for x in d["findings"] if x["id"] != fid] + [e]
json.dump(d, open(p, "w"), indent=1)
print(e.get("line") or e)
