#!/bin/bash
# tools/runseed_inplace.sh <seeded-dir> [tier]: apply a seeded change to /repo, run its property's check, undo.  Nothing else may use /repo meanwhile.
D="$(readlink -f "$1")"; TIER="${2:-quick}"; shift; shift
P=$(python3 -c "import json,sys;print(json.load(open('$D/meta.json'))['property'])")
[ -z "$(git -C /repo status --short)" ] || { echo "/repo not clean"; exit 2; }
git -C /repo apply "$D/patch.diff" || exit 2
cd /verif && ./vcheck "$P" --tier "$TIER" "$@"; rc=$?
git -C /repo checkout -- .
echo "seed $(basename $D) property=$P tier=$TIER rc=$rc"
exit $rc
